"""C09 — policy replacement is coherent under concurrent evaluations.

Proof: coq/props/C09.v (model coq/theories/Swap.v = the protocol of engine.py after
commit 40ecad2: fields published under Guard._state_lock with _policy_version).

Tie to the code, every run:
  * coarse replay — EVERY interleaving of the modelled shared-state accesses (enumerated
    by the extracted model itself: swap.runc) of  set_policy(B) || evaluate,
    set_policy(B);set_policy(A) || evaluate  and  set_policy(B) || evaluate || evaluate
    is replayed on a real Guard with the settrace scheduler (harness/sched.py): a coarse
    step runs the real thread from one located source line (pattern, never a line
    number) to the next.  Compared with the model: the sequence of accesses each thread
    performs (control flow: hit / miss / store / no store), every returned decision, the
    final policy / etag / version, the final cache content, and the decisions of fresh
    evaluations afterwards;
  * the property is judged on the implementation's own output: (1) every overlapping
    evaluation returns, in all Decision fields, what an uncached Guard on one of the
    installed policies returns; (2) after set_policy returned a fresh evaluation of every
    request returns exactly what an uncached Guard on the new policy returns; (3) no
    cache entry pairs one policy's tag with another policy's decision;
  * lock probes — where the model says an access is blocked, the real thread must block;
  * line-level search — beyond the model's granularity, all schedules of the real code
    at source-line granularity up to a pre-emption bound, and seeded random ones beyond.
"""
from __future__ import annotations

import asyncio
import copy
import dataclasses
import json
import multiprocessing
import os
import re
import time

import lib
import sched

# ----------------------------------------------------------------------------------
# policies, requests, caches
# ----------------------------------------------------------------------------------
_A_RULES = [
    {"id": "A-read", "effect": "permit", "actions": ["read"], "resource": {"type": "doc"}},
    {"id": "A-write", "effect": "deny", "actions": ["write"], "resource": {"type": "doc"}},
]
_B_RULES = [
    {"id": "B-read", "effect": "deny", "actions": ["read"], "resource": {"type": "doc"}},
    {"id": "B-write", "effect": "permit", "actions": ["write"], "resource": {"type": "doc"}},
]


def policies(kind):
    """policy 0 (A) and policy 1 (B): they decide both requests differently, in effect, rule id,
    reason (and policy id for sets)."""
    # top-level ids differ too: a Decision assembled from two policies shows in whatever field carries them
    single = [{"id": "policy-A", "algorithm": "deny-overrides", "rules": copy.deepcopy(_A_RULES)},
              {"id": "policy-B", "algorithm": "deny-overrides", "rules": copy.deepcopy(_B_RULES)}]
    if kind == "single":
        return single
    if kind == "mixed":      # a single policy replaced by a policy set
        return [single[0], policies("set")[1]]
    return [{"id": "set-A", "algorithm": "deny-overrides",
             "policies": [{"id": "pA", "algorithm": "deny-overrides", "rules": copy.deepcopy(_A_RULES)}]},
            {"id": "set-B", "algorithm": "deny-overrides",
             "policies": [{"id": "pB", "algorithm": "deny-overrides", "rules": copy.deepcopy(_B_RULES)}]}]


def make_req(e):
    from rbacx.core.model import Action, Context, Resource, Subject

    return (Subject(id="u1", roles=["staff"], attrs={"dept": "x"}), Action(["read", "write"][e]),
            Resource(type="doc", id="7", attrs={"k": 1}), Context({"n": 1}))


class DictCache:
    """a dict-backed custom cache (stores values as they are, like the built-in one)."""

    def __init__(self):
        self.d = {}

    def get(self, key):
        return self.d.get(key)

    def set(self, key, value, ttl=None):
        self.d[key] = value

    def delete(self, key):
        self.d.pop(key, None)

    def clear(self):
        self.d.clear()


def make_cache(kind):
    from rbacx.core.cache import DefaultInMemoryCache

    if kind == "builtin":
        return DefaultInMemoryCache()
    if kind == "dict":
        return DictCache()
    return None


def cache_items(cache):
    if cache is None:
        return {}
    if isinstance(cache, DictCache):
        return dict(cache.d)
    return {k: v.value for k, v in cache._data.items()}


def dec_dict(d):
    return dataclasses.asdict(d)


_EXPECTED: dict = {}


class no_compiler:
    """test-side fault: the optional compiler is unavailable (engine.compile_policy is None), so every
    evaluation takes the interpreter path that reads Guard.policy."""

    def __init__(self, on):
        self.on = on

    def __enter__(self):
        from rbacx.core import engine

        self.saved = engine.compile_policy
        if self.on:
            engine.compile_policy = None

    def __exit__(self, *a):
        from rbacx.core import engine

        engine.compile_policy = self.saved


def expected(polkind, nocompile=False):
    """(p, e) -> what an uncached Guard on policy p answers for request e, the raw decision and the
    cache key the engine uses for it; tag[p] = etag of policy p."""
    if (polkind, nocompile) in _EXPECTED:
        return _EXPECTED[(polkind, nocompile)]
    with no_compiler(nocompile):
        return _expected(polkind, nocompile)


def _expected(polkind, nocompile):
    from rbacx.core.engine import Guard

    pols = policies(polkind)
    out = {"dec": {}, "raw": {}, "key": {}, "tag": {}}
    for p, pol in enumerate(pols):
        for e in (0, 1):
            g0 = Guard(copy.deepcopy(pol))
            d0 = dec_dict(g0.evaluate_sync(*make_req(e)))
            c = DictCache()
            g1 = Guard(copy.deepcopy(pol), cache=c)
            d1 = dec_dict(g1.evaluate_sync(*make_req(e)))
            d2 = dec_dict(g1.evaluate_sync(*make_req(e)))  # served from the cache
            if not (d0 == d1 == d2) or len(c.d) != 1:
                raise RuntimeError("C09 harness: sequential cached/uncached decisions differ (see C08)")
            (k, raw), = c.d.items()
            out["dec"][(p, e)] = d0
            out["raw"][(p, e)] = copy.deepcopy(raw)
            out["key"][(p, e)] = k
            out["tag"][p] = g1.policy_etag
    for e in (0, 1):
        if out["dec"][(0, e)] == out["dec"][(1, e)]:
            raise RuntimeError("C09 harness: test policies do not differ on request %d" % e)
    _EXPECTED[(polkind, nocompile)] = out
    return out


# ----------------------------------------------------------------------------------
# located source lines
# ----------------------------------------------------------------------------------
# every function of engine.py is traced: helpers may be extracted, inlined or renamed without changing behaviour
# (formerly the fixed set set_policy, update_policy, _install_policy, _recompute_etag, clear_cache,
# _evaluate_core_async, _decide_async, _cache_key, _current_policy_version)
FUNCS = None

# the modelled accesses to shared state, as text patterns of the source lines performing them
COARSE = [
    ("acq", re.compile(r"^with\s+[\w.]+\s*:")),                    # Guard._state_lock acquired
    ("wtag", re.compile(r"self\.policy_etag\s*=(?!=)")),
    ("wcomp", re.compile(r"self\._compiled\s*=(?!=)")),
    ("inc", re.compile(r"self\._policy_version\s*(\+=|=(?!=))")),
    ("clear", re.compile(r"\bcache\.clear\(")),
    ("rdtag", re.compile(r"""getattr\(self,\s*["']policy_etag["']|=\s*self\.policy_etag\b""")),
    ("get", re.compile(r"\bcache\.get\(")),
    ("rdcomp", re.compile(r"=\s*self\._compiled\b")),
    ("rdpol", re.compile(r"=\s*self\.policy\b(?![\w])")),
    ("set", re.compile(r"\bcache\.set\(")),
]
MODEL_NAME = {"u_acq": "acq", "e_acq1": "acq", "e_acq2": "acq", "u_wtag": "wtag", "u_wcomp": "wcomp",
              "u_inc": "inc", "u_clear": "clear", "e_rdtag": "rdtag", "e_get": "get", "e_rdcomp": "rdcomp",
              "e_rdpol": "rdpol", "e_set": "set"}


_DISCOVERED = None


def discovered_cache_lines():
    """source lines of engine.py that call the cache's get / set / clear, found by running one evaluation (miss, then
    hit) and one set_policy with a cache that records its caller's line - so the mapping does not depend on what the
    local variable holding the cache is called.  {stripped line text: access name}"""
    global _DISCOVERED
    if _DISCOVERED is None:
        import linecache
        import sys as _sys

        found = {}
        try:
            from rbacx.core.engine import Guard
            engf = os.path.realpath(engine_file())

            class Spy:
                def __init__(self):
                    self.d = {}

                def _note(self, what):
                    f = _sys._getframe(2)
                    for _ in range(6):
                        if f is None:
                            break
                        if os.path.realpath(f.f_code.co_filename) == engf:
                            found[linecache.getline(f.f_code.co_filename, f.f_lineno).strip()] = what
                            break
                        f = f.f_back

                def get(self, key):
                    self._note("get")
                    return self.d.get(key)

                def set(self, key, value, ttl=None):
                    self._note("set")
                    self.d[key] = value

                def delete(self, key):
                    self.d.pop(key, None)

                def clear(self):
                    self._note("clear")
                    self.d.clear()

            pols = policies("single")
            g = Guard(copy.deepcopy(pols[0]), cache=Spy())
            loop = asyncio.new_event_loop()
            try:
                loop.run_until_complete(g.evaluate_async(*make_req(0)))
                loop.run_until_complete(g.evaluate_async(*make_req(0)))
            finally:
                loop.close()
            g.set_policy(copy.deepcopy(pols[1]))
        except Exception:  # noqa: BLE001  (fall back to the text patterns alone)
            pass
        _DISCOVERED = found
    return _DISCOVERED


def classify(text):
    t = text.strip()
    d = discovered_cache_lines().get(t)
    if d:
        return d
    for name, rx in COARSE:
        if rx.search(t):
            return name
    return None


def coarse_filter(func, text, is_exit):
    return (not is_exit) and classify(text) is not None


# line-level search: every line that mentions the shared state at all
_LINE_RX = re.compile(r"policy|_compiled|lock|cache|etag|version")


def line_filter(func, text, is_exit):
    # every `with` line is a stop point whatever it names: the scheduler must see a lock acquisition before the
    # thread runs into it (otherwise a held lock is only noticed by a time-out of seconds per schedule)
    return bool(_LINE_RX.search(text)) or text.lstrip().startswith(("with ", "async with "))


def engine_file():
    from rbacx.core import engine

    return engine.__file__


# ----------------------------------------------------------------------------------
# running the implementation under the scheduler (worker side)
# ----------------------------------------------------------------------------------
class Run:
    """a fresh Guard with threads running the programs of a case under a Scheduler."""

    def __init__(self, case, stop_filter):
        from rbacx.core.engine import Guard

        self.case = case
        self.pols = policies(case["pol"])
        self.cache = make_cache(case["cache"])
        self.guard = Guard(copy.deepcopy(self.pols[0]), cache=self.cache)
        self.progs = case["progs"]
        self.results = {i: [] for i in range(len(self.progs))}
        self.s = sched.Scheduler([engine_file()], FUNCS, stop_filter)
        for i in range(len(self.progs)):
            self.s.add(self.name(i), self._target(i))

    @staticmethod
    def name(i):
        return "T%d" % i

    def _reload(self, p):
        """the caller in rbacx.policy.loader: a HotReloader whose source now holds policy p."""
        from rbacx.policy.loader import HotReloader

        run = self

        class Source:
            cur = 0

            def etag(self):
                return "v%d" % Source.cur

            def load(self):
                return copy.deepcopy(run.pols[Source.cur])

        hr = HotReloader(self.guard, Source(), initial_load=False, poll_interval=None)
        Source.cur = p
        if hr.check_and_reload() is not True:
            raise RuntimeError("HotReloader did not apply the changed policy")

    def _target(self, i):
        def target():
            for op in self.progs[i]:
                if op[0] == "set":
                    self.guard.set_policy(copy.deepcopy(self.pols[op[1]]))
                elif op[0] == "reload":
                    self._reload(op[1])
                else:
                    # what evaluate_sync does, with a loop of our own (asyncio.run would add a helper
                    # thread per call only to shut the executor down)
                    loop = asyncio.new_event_loop()
                    try:
                        d = loop.run_until_complete(self.guard.evaluate_async(*make_req(op[1])))
                    finally:
                        loop.close()
                    self.results[i].append(dec_dict(d))
        return target

    def observe(self, post):
        """after all threads are done: fresh evaluations, then the final state."""
        exp = expected(self.case["pol"], bool(self.case.get("nocompile")))
        g = self.guard
        out = {"results": {str(i): r for i, r in self.results.items()}, "post": [], "errors": []}
        for n, (res, exc) in self.s.results().items():
            if exc is not None:
                out["errors"].append("%s raised %s: %s" % (n, type(exc).__name__, exc))
        # cache content before the fresh evaluations (what the overlapping threads left behind)
        out["cache_before_post"] = self._cache_view(exp)
        loop = asyncio.new_event_loop()
        try:
            for e in post:
                try:
                    out["post"].append(dec_dict(loop.run_until_complete(g.evaluate_async(*make_req(e)))))
                except Exception as ex:  # noqa: BLE001
                    out["post"].append({"!raise": type(ex).__name__})
        finally:
            loop.close()
        out["cache"] = self._cache_view(exp)
        pol_ix = [i for i, p in enumerate(self.pols) if g.policy == p]
        out["policy"] = pol_ix[0] if pol_ix else -1
        out["etag"] = [p for p, t in exp["tag"].items() if t == g.policy_etag] or [-1]
        out["etag"] = out["etag"][0]
        out["ver"] = getattr(g, "_policy_version", None)
        lk = getattr(g, "_state_lock", None)
        out["lock_free"] = (not lk.locked()) if lk is not None else True
        return out

    def _cache_view(self, exp):
        """cache content as [[tag policy, env, decision policy]] (or raw things when unknown)."""
        view = []
        for k, raw in cache_items(self.cache).items():
            ke = [pe for pe, kk in exp["key"].items() if kk == k]
            re_ = [pe for pe, rr in exp["raw"].items() if rr == raw]
            if len(ke) == 1:      # the key names exactly one (policy tag, request)
                kp, kenv = ke[0]
                dp = [p for (p, e) in re_ if e == kenv]
                view.append([kp, kenv, dp[0] if dp else -1])
            else:
                view.append(["?" + str(k)[:80], -1, -1])
        return sorted(view, key=repr)


def run_coarse(case, probe=None):
    """replay a coarse schedule; probe = index of a thread that the model says is blocked after it."""
    r = Run(case, coarse_filter)
    s = r.s
    names, problems = [], []
    for k, i in enumerate(case["sched"]):
        nm = r.name(i)
        if not s.threads[nm].started:
            s.start(nm)
        st = s.at(nm)
        if st is None:
            problems.append("step %d: thread %d has no access left (model: it has)" % (k, i))
            break
        names.append(classify(st.text))
        if s.predicted_blocked(nm):
            problems.append("step %d: thread %d is blocked on the lock (model: enabled)" % (k, i))
            break
        if s.step(nm) == "blocked":
            problems.append("step %d: thread %d did not come back (blocked; model: enabled)" % (k, i))
            break
    out = {"names": names, "problems": problems}
    if probe is not None and not problems:
        nm = r.name(probe)
        if not s.threads[nm].started:
            s.start(nm)
        st = s.at(nm)
        out["probe_at"] = classify(st.text) if st is not None else None
        out["probe_predicted"] = s.predicted_blocked(nm)
        # grant the step anyway: a correct implementation does not come back until the holder releases
        out["probe_observed"] = (s.step(nm, timeout=0.25) == "blocked") if st is not None else None
        ok = s.finish()
        out["probe_finished_after_release"] = ok and all(s.is_done(r.name(i)) for i in range(len(r.progs)))
        s.close()
        out.update(r.observe(case.get("post", [])))
        return out
    left = [i for i in range(len(r.progs)) if not s.is_done(r.name(i))]
    out["unfinished"] = left
    if left:
        if not s.finish():
            out["problems"].append("deadlock while finishing")
    s.close()
    out.update(r.observe(case.get("post", [])))
    return out


def run_lines(case):
    """line-level run.  case['choices'] = thread index per step (a prefix; afterwards: keep running
    the current thread while it is enabled, else the lowest enabled one).  Returns the full trace."""
    r = Run(case, coarse_filter if case.get("filter") == "coarse" else line_filter)
    s = r.s
    n = len(r.progs)
    prefix = case.get("choices", [])
    rnd = case.get("random")          # [seed, switch probability] for random continuation
    rng = None
    if rnd:
        import random as _r

        rng = _r.Random(rnd[0])
    trace = []      # [enabled list, chosen, current]
    cur = None
    problems = []
    for k in range(5000):
        en = [i for i in range(n) if s.enabled(r.name(i))]
        if not en:
            if not all(s.is_done(r.name(i)) for i in range(n)):
                problems.append("deadlock: no thread enabled, some not finished")
            break
        if k < len(prefix):
            ch = prefix[k]
            if ch not in en:
                problems.append("infeasible: step %d chooses thread %d, enabled %r" % (k, ch, en))
                break
        elif rng is not None:
            if cur in en and rng.random() >= rnd[1]:
                ch = cur
            else:
                ch = rng.choice(en)
        else:
            ch = cur if cur in en else en[0]
        trace.append([en, ch, cur])
        if s.step(r.name(ch)) == "blocked":
            problems.append("step %d: thread %d did not come back" % (k, ch))
        cur = ch
    if problems:
        s.finish()
    s.close()
    out = {"trace": trace, "problems": problems, "stops": [list(x) for x in s.trace][:400]}
    out.update(r.observe(case.get("post", [])))
    return out


def run_segments(case):
    """case['segments'] = [[thread, 'before'|'after'|'end', regex]...] over the line-level stops."""
    r = Run(case, line_filter)
    s = r.s
    log = []
    for seg in case["segments"]:
        i, mode = seg[0], seg[1]
        nm = r.name(i)
        if mode == "end":
            res = s.run_until(nm, lambda st: False)
        elif mode == "before":
            rx = re.compile(seg[2])
            res = s.run_until(nm, lambda st: bool(rx.search(st.text)) and not st.is_exit)
        else:  # after: stop at the first stop point after a matching line has been executed
            rx = re.compile(seg[2])
            res = s.run_until(nm, lambda st: bool(rx.search(st.text)) and not st.is_exit)
            if res == "stopped" and not s.predicted_blocked(nm):
                res = s.step(nm)
        st = s.at(nm)
        log.append([i, mode, res, repr(st) if st else None])
    ok = s.finish()
    s.close()
    out = {"segments_log": log, "problems": [] if ok else ["deadlock while finishing"]}
    out.update(r.observe(case.get("post", [])))
    return out


def _work(case):
    with no_compiler(bool(case.get("nocompile"))):
        return _work1(case)


def _work1(case):
    try:
        k = case["kind"]
        if k == "coarse":
            return run_coarse(case, case.get("probe"))
        if k == "lines":
            return run_lines(case)
        if k == "segments":
            return run_segments(case)
        return {"harness_error": "unknown kind " + str(k)}
    except Exception as ex:  # noqa: BLE001
        import traceback

        return {"harness_error": "%s: %s\n%s" % (type(ex).__name__, ex, traceback.format_exc()[-1500:])}


def _work_chunk(cases):
    return [_work(c) for c in cases]


_POOL = None


def pool():
    global _POOL
    if _POOL is None:
        n = max(2, min(12, (os.cpu_count() or 4) - 2))
        _POOL = multiprocessing.get_context("fork").Pool(n)
    return _POOL


def run_impl(cases, chunk=24):
    if not cases:
        return []
    if len(cases) <= 3:
        return [_work(c) for c in cases]
    chunks = [cases[i:i + chunk] for i in range(0, len(cases), chunk)]
    out = []
    for res in pool().imap(_work_chunk, chunks):
        out.extend(res)
    return out


# ----------------------------------------------------------------------------------
# the model
# ----------------------------------------------------------------------------------
def model_cfg(case):
    return {"p0": 0, "has_cache": case["cache"] != "none", "untagged": [],
            "uncompilable": [0, 1] if case.get("nocompile") else []}


def model_progs(case):
    """the case's threads plus one thread doing the fresh evaluations afterwards (a reload through
    HotReloader is a set_policy call)."""
    progs = [[["set", op[1]] if op[0] == "reload" else op for op in prog] for prog in case["progs"]]
    return progs + [[["eval", e] for e in case.get("post", [])]]


def model_coarse(cases):
    lines = []
    for c in cases:
        n = len(c["progs"])
        tail = [n] * (8 * len(c.get("post", []))) if c.get("probe") is None else []
        lines.append(lib.model_call("swap.runc", model_cfg(c), model_progs(c), list(c["sched"]) + tail))
    return [lib.dec(x) for x in lib.run_model("swap", lines)]


_ENUM: dict = {}


def enumerate_coarse(cache, progs, limit=None, rng=None, nocompile=False):
    if limit is not None:
        return _enumerate_coarse(cache, progs, limit, rng, nocompile)
    k = (cache != "none", nocompile, repr(progs))
    if k not in _ENUM:
        _ENUM[k] = _enumerate_coarse(cache, progs, None, None, nocompile)
    return _ENUM[k]


def _enumerate_coarse(cache, progs, limit=None, rng=None, nocompile=False):
    """all complete coarse schedules of `progs` (list of thread ids), enumerated by the extracted model
    itself (swap.all); with limit+rng: that many seeded random walks (swap.walk) instead.  Also returns
    blocked situations: (prefix, thread) where the model says the thread's next access is disabled."""
    cfg = {"p0": 0, "has_cache": cache != "none", "untagged": [], "uncompilable": [0, 1] if nocompile else []}
    n = len(progs)
    if limit is None:
        done = lib.dec(lib.run_model("swap", [lib.model_call("swap.all", cfg, progs)])[0])
        if any(len(d) >= 64 for d in done):
            raise RuntimeError("C09 harness: enumeration fuel exhausted")
    else:
        lines = [lib.model_call("swap.walk", cfg, progs, [rng.randrange(60) for _ in range(64)])
                 for _ in range(limit)]
        done = [list(w) for w in sorted({tuple(lib.dec(x)) for x in lib.run_model("swap", lines)})]
    # blocked situations among the prefixes of a few schedules
    import random as _r

    prng = rng or _r.Random(len(done))
    pref = []
    for d in (done if len(done) <= 40 else prng.sample(done, 40)):
        pref.extend(d[:k] for k in range(1, len(d)))
    pref = [list(t) for t in sorted({tuple(p) for p in pref})]
    outs = [lib.dec(x) for x in lib.run_model("swap", [lib.model_call("swap.runc", cfg, progs, p) for p in pref])]
    blocked = [(p, i) for p, o in zip(pref, outs) for i in range(n) if o["next"][i] != "done" and not o["en"][i]]
    return done, blocked


# ----------------------------------------------------------------------------------
# judging
# ----------------------------------------------------------------------------------
def final_policy(case):
    p = 0
    for prog in case["progs"]:
        for op in prog:
            if op[0] in ("set", "reload"):
                p = op[1]
    return p


def installed(case):
    return sorted({0} | {op[1] for prog in case["progs"] for op in prog if op[0] in ("set", "reload")})


def judge_property(chk, case, impl):
    """the statement of C09, on the implementation's own output.  Returns True when it holds."""
    exp = expected(case["pol"], bool(case.get("nocompile")))
    ok = True
    if impl.get("harness_error"):
        raise RuntimeError("C09 harness error: " + impl["harness_error"])
    for msg in impl.get("problems", []):
        if msg.startswith("deadlock"):
            chk.violation("an evaluation or a replacement never returns (deadlock under this schedule)", case,
                          impl=_slim(impl))
            return False
    for msg in impl.get("errors", []):
        chk.violation("a thread raised instead of returning a decision: " + msg, case, impl=_slim(impl))
        ok = False
    pols = installed(case)
    for i, prog in enumerate(case["progs"]):
        evs = [op[1] for op in prog if op[0] == "eval"]
        got = impl["results"].get(str(i), [])
        for e, d in zip(evs, got):
            if d not in [exp["dec"][(p, e)] for p in pols]:
                chk.violation("a concurrent evaluation returned a decision that is neither the old nor the new "
                              "policy's complete decision", case, impl=d,
                              model=[exp["dec"][(p, e)] for p in pols])
                ok = False
    fp = final_policy(case)
    for e, d in zip(case.get("post", []), impl.get("post", [])):
        if d != exp["dec"][(fp, e)]:
            chk.violation("an evaluation started after set_policy() returned does not return the new policy's "
                          "decision (stale cache entry left behind by an in-flight evaluation)", case,
                          impl={"request": e, "got": d, "cache_before": impl.get("cache_before_post")},
                          model=exp["dec"][(fp, e)])
            ok = False
    for kp, kenv, dp in impl.get("cache", []) + impl.get("cache_before_post", []):
        if isinstance(kp, int) and kp != dp:
            chk.violation("the cache holds an entry whose tag and decision come from different policies "
                          "(c09_no_stale_entry)", case, impl={"tag_policy": kp, "request": kenv, "decision_policy": dp})
            ok = False
            break
    if impl.get("policy") != fp or impl.get("etag") != fp:
        chk.violation("after all replacements returned, Guard.policy / policy_etag do not describe the last "
                      "installed policy", case, impl={"policy": impl.get("policy"), "etag": impl.get("etag")}, model=fp)
        ok = False
    return ok


def _slim(impl):
    return {k: v for k, v in impl.items() if k not in ("trace", "stops")}


def compare_model(chk, case, impl, m):
    """model vs implementation on the observables the theorems speak about."""
    exp = expected(case["pol"], bool(case.get("nocompile")))
    n = len(case["progs"])
    diffs = []
    steps = [MODEL_NAME.get(x, x) for x in m["steps"][:len(case["sched"])]]
    if impl["names"] != steps:
        diffs.append(("accesses performed", impl["names"], steps))
    if impl.get("problems"):
        diffs.append(("schedule not replayable", impl["problems"], None))
    if impl.get("unfinished"):
        diffs.append(("threads unfinished after the schedule", impl["unfinished"], []))
    rets = {i: [] for i in range(n + 1)}
    for ev in m["log"]:
        if ev[0] == "ret":
            rets[ev[1]].append(exp["dec"][(ev[3][0], ev[3][1])])
    for i in range(n):
        if impl["results"].get(str(i), []) != rets[i]:
            diffs.append(("decisions returned by thread %d" % i, impl["results"].get(str(i)), rets[i]))
    if impl["post"] != rets[n]:
        diffs.append(("decisions of the fresh evaluations afterwards", impl["post"], rets[n]))
    mc = sorted(([k, e, d[0]] for k, e, d in m["cache"]), key=repr)
    if impl["cache"] != mc:
        diffs.append(("final cache content [tag policy, request, decision policy]", impl["cache"], mc))
    if (impl["policy"], impl["etag"]) != (m["policy"], m["etag"]):
        diffs.append(("final policy / etag", [impl["policy"], impl["etag"]], [m["policy"], m["etag"]]))
    if impl["ver"] is not None and impl["ver"] != m["ver"]:
        diffs.append(("_policy_version", impl["ver"], m["ver"]))
    if not impl["lock_free"] or m["lock"] != ["free"]:
        diffs.append(("lock free at the end", impl["lock_free"], m["lock"]))
    return diffs


THEOREMS = ["c09_coherent", "c09_snapshot", "c09_after_update", "c09_no_stale_entry", "c09_hit_is_current"]


# ----------------------------------------------------------------------------------
# check_cases
# ----------------------------------------------------------------------------------
def check_cases(chk, cases, replay=False):
    if any(c.get("kind") == "extraction" for c in cases):
        extraction_checks(chk)
    cases = [c for c in cases if c.get("kind") != "extraction"]
    coarse = [c for c in cases if c["kind"] == "coarse"]
    others = [c for c in cases if c["kind"] != "coarse"]
    impl_all = run_impl(coarse + others)
    impl_c, impl_o = impl_all[:len(coarse)], impl_all[len(coarse):]
    models = model_coarse(coarse)
    for c, impl, m in zip(coarse, impl_c, models):
        fam = c.get("fam", "?")
        chk.count("fam:" + fam)
        chk.count("config:%s/%s%s" % (c["cache"], c["pol"], "/nocompile" if c.get("nocompile") else ""))
        overl = len(set(c["sched"])) > 1 and any(a != b for a, b in zip(c["sched"], c["sched"][1:]))
        chk.mark(("coarse", c["cache"], c["pol"], c.get("nocompile"), repr(c["progs"]), tuple(c["sched"]),
                  c.get("probe")), overl)
        if impl.get("harness_error"):
            raise RuntimeError("C09 harness error: " + impl["harness_error"])
        if "!disabled" in m["steps"]:
            raise RuntimeError("C09 harness: schedule not executable in the model: %r" % (c,))
        if c.get("probe") is not None:
            chk.count("lock_probe")
            good = impl.get("probe_predicted") and impl.get("probe_observed") and \
                impl.get("probe_finished_after_release") and impl.get("probe_at") == "acq"
            chk.count("lock_probe:" + ("blocked_as_modelled" if good else "NOT_blocked"))
            holds = judge_property(chk, c, impl)
            if not good and holds:
                chk.corr_break("the model says this access is blocked by Guard._state_lock; the implementation "
                               "thread is not blocked there", c,
                               impl={k: impl.get(k) for k in ("probe_at", "probe_predicted", "probe_observed",
                                                              "probe_finished_after_release")},
                               model="blocked", theorems=THEOREMS)
            continue
        rets = [ev for ev in m["log"] if ev[0] == "ret"]
        chk.count("model_outcome:" + ",".join("%d" % ev[3][0] for ev in rets))
        chk.count("stored_entries:%d" % len(m["cache"]))
        chk.sample({"case": c, "impl": _slim(impl), "model": {k: m[k] for k in ("steps", "log", "cache", "ver")}},
                   every=997)
        holds = judge_property(chk, c, impl)
        diffs = compare_model(chk, c, impl, m)
        if diffs and holds:
            chk.corr_break("; ".join(d[0] for d in diffs), c, impl=[d[1] for d in diffs], model=[d[2] for d in diffs],
                           theorems=THEOREMS)
    for c, impl in zip(others, impl_o):
        chk.count("fam:" + c.get("fam", c["kind"]))
        chk.count("config:%s/%s%s" % (c["cache"], c["pol"], "/nocompile" if c.get("nocompile") else ""))
        key = (c["kind"], c.get("filter"), c.get("nocompile"), c["cache"], c["pol"], repr(c["progs"]), repr(c.get("choices")), repr(c.get("segments")),
               repr(c.get("random")))
        chk.mark(key, True)
        if c["kind"] == "lines":
            sw = sum(1 for en, ch, cur in impl.get("trace", []) if cur is not None and ch != cur and cur in en)
            chk.count("line_preemptions:%d" % min(sw, 6))
        chk.sample({"case": c, "impl": {k: impl.get(k) for k in ("results", "post", "cache", "segments_log")}},
                   every=499)
        if c["kind"] == "lines":
            # a failing run is replayed by the choices it made, not by its seed or its defaults
            c = {k: v for k, v in c.items() if k != "random"}
            c["choices"] = [ch for _, ch, _ in impl.get("trace", [])]
        judge_property(chk, c, impl)
    return impl_all


# ----------------------------------------------------------------------------------
# line-level search (implementation only)
# ----------------------------------------------------------------------------------
def line_search(chk, base, bound, max_runs):
    """all line-level schedules of `base` with at most `bound` pre-emptions (depth-first, each schedule
    replayed from scratch), level by level so that the runs of one level go through the pool."""
    runs = 0
    level = [(dict(base, kind="lines", choices=[]), 0, 0)]   # (case, first free position, pre-emptions used)
    complete = True
    while level:
        cases = [c for c, _, _ in level]
        outs = check_cases(chk, cases)
        runs += len(cases)
        nxt = []
        for (c, start, used), impl in zip(level, outs):
            tr = impl.get("trace", [])
            choices = [ch for _, ch, _ in tr]
            u = used
            for k in range(start, len(tr)):
                en, ch, cur = tr[k]
                for a in en:
                    if a == ch:
                        continue
                    cost = 1 if (cur is not None and cur in en and a != cur) else 0
                    if u + cost <= bound:
                        nxt.append((dict(base, kind="lines", choices=choices[:k] + [a]), k + 1, u + cost))
                # the default continuation never pre-empts, so `u` does not change along it
        if runs + len(nxt) > max_runs:
            complete = False
            nxt = nxt[:max(0, max_runs - runs)]
        level = nxt
        if chk.violations:
            break
    return runs, complete


# ----------------------------------------------------------------------------------
# run
# ----------------------------------------------------------------------------------
U1 = [["set", 1]]
U2 = [["set", 1], ["set", 0]]
CONFIGS = [("builtin", "single"), ("dict", "single"), ("builtin", "set"), ("dict", "set")]


def corpus_cases():
    d = lib.VERIF / "corpus" / "C09"
    out = []
    if d.is_dir():
        for f in sorted(d.glob("*.json")):
            data = json.loads(f.read_text())
            cs = [data["case"]] if "case" in data else [x["case"] for x in data.get("cases", [])]
            for c in cs:
                c = lib.unjson(c)
                c.setdefault("fam", "corpus:" + f.stem)
                out.append(c)
    return out


def extraction_checks(chk):
    """the extracted runner against results proved inside Coq by vm_compute."""
    # extraction cross-check: the old-protocol model, extracted, shows the stale entry proved in Coq
    o = lib.dec(lib.run_model("swap", [lib.model_call(
        "swap.runold", {"p0": 0, "untagged": [], "uncompilable": []},
        [[["set", 1]], [["eval", 7]], [["eval", 7]]], [0, 0, 0, 1, 1, 1, 1, 0, 0, 1, 1, 1, 1, 2, 2, 2, 2])])[0])
    if o["cache"] != [[1, 7, [0, 7]]] or ["ret", 2, 7, [0, 7]] not in o["log"]:
        chk.corr_break("extracted old-protocol model does not reproduce c09_refuted_unlocked", {"kind": "extraction"},
                       impl=o, model="cache [(1,7)->(0,7)]", theorems=["c09_refuted_unlocked"])

    # ... and the extracted current-protocol model reproduces the run proved in Coq by vm_compute
    # (Example c09_example_log: the F7 schedule on the current protocol)
    ex = lib.dec(lib.run_model("swap", [lib.model_call(
        "swap.run", {"p0": 0, "has_cache": True, "untagged": [], "uncompilable": []},
        [[["set", 1]], [["eval", 7]], [["eval", 7]]],
        [1, 1, 1, 1, 0, 0, 0, 0, 1, 1, 1, 0, 0, 0, 0, 1, 1, 1, 1, 1, 1] + [2] * 14)])[0])
    want_log = [["start", 1, 7], ["upstart", 0, 1], ["pub", 0, 1], ["upret", 0, 1], ["ret", 1, 7, [0, 7]],
                ["start", 2, 7], ["ret", 2, 7, [1, 7]]]
    if ex["log"] != want_log or ex["cache"] != [[1, 7, [1, 7]]] or not all(ex["enabled"]):
        chk.corr_break("extracted model differs from the vm_compute result of c09_example_log", {"kind": "extraction"},
                       impl=ex, model=want_log, theorems=["c09_example_log"])



def run(chk):
    discovered_cache_lines()          # before any worker process is forked
    t0 = time.time()
    quick = chk.tier == "quick"
    rng = chk.rng
    chk.rule = ("coarse replay: every interleaving (enumerated by the extracted model) of the modelled shared-state "
                "accesses of set_policy(B) || evaluate(r) for both requests, per cache kind (built-in, dict-backed, "
                "none) and policy kind (single, set, single->set without compiler), each followed by fresh "
                "evaluations of both requests; set_policy(B);set_policy(A) || evaluate and set_policy(B) || "
                "evaluate;evaluate (799 interleavings, all on the built-in cache) and A->B->A (2506 interleavings: all "
                "in thorough, a seeded sample in quick); set_policy(B) || evaluate || evaluate: seeded sample (the full set "
                "is out of reach); lock probes where the model says blocked; on the implementation alone: every "
                "interleaving of the located accesses that the implementation admits, every source-line schedule "
                "up to the pre-emption bound, seeded random line schedules beyond.  non-trivial = the schedule "
                "really interleaves two threads; distinct = distinct (configuration, programs, schedule)")
    chk.assumptions = [
        "CPython: a single attribute load/store and a single dict/OrderedDict operation are atomic under the GIL "
        "(free-threaded builds out of scope)",
        "the asyncio.to_thread hand-off of the decision function is one step (the worker runs untraced)",
        "the policy tag (SHA3-256 of the canonical JSON) identifies the policy content (hypothesis tag_inj)",
        "compiled function and interpreter agree on a policy's decision (property C03; the model has one `decide`)",
        "custom caches satisfy the get/set/clear contract and are thread-safe (AbstractCache docstring)",
    ]
    # 0. witnesses of repaired findings first
    cc = corpus_cases()
    check_cases(chk, cc)
    chk.extra["corpus_cases"] = len(cc)
    extraction_checks(chk)

    cases = []
    enum_stats = {}
    # 1. one update || one evaluator: every interleaving, every configuration, both requests
    for cache, pol in CONFIGS + ([("none", "single")]):
        for e in (0, 1):
            progs = [U1, [["eval", e]]]
            scheds, blocked = enumerate_coarse(cache, progs + [[]])
            enum_stats["U||E %s" % cache] = len(scheds)
            if quick and (pol == "set" and e == 1 or cache == "none" and e == 1):
                scheds = [s for i, s in enumerate(scheds) if i % 4 == 0]
            for s in scheds:
                cases.append({"kind": "coarse", "cache": cache, "pol": pol, "progs": progs, "sched": s,
                              "post": [0, 1], "fam": "U||E"})
            # lock probes
            for (p, i) in rng.sample(blocked, min(len(blocked), 3 if quick else 12)):
                cases.append({"kind": "coarse", "cache": cache, "pol": pol, "progs": progs, "sched": p, "probe": i,
                              "post": [0, 1], "fam": "lock-probe"})
    # 1b. the optional compiler unavailable (every evaluation interprets Guard.policy), a single policy
    #     replaced by a policy set
    for e in (0, 1):
        progs = [U1, [["eval", e]]]
        scheds, blocked = enumerate_coarse("builtin", progs + [[]], nocompile=True)
        enum_stats["U||E nocompile"] = len(scheds)
        for s in scheds:
            cases.append({"kind": "coarse", "cache": "builtin", "pol": "mixed", "nocompile": True, "progs": progs,
                          "sched": s, "post": [0, 1], "fam": "U||E"})
    # 1c. the replacement made by the real caller: HotReloader.check_and_reload() || evaluate
    for e in ((0,) if quick else (0, 1)):
        scheds, _ = enumerate_coarse("builtin", [U1, [["eval", e]], []])
        for s in scheds:
            cases.append({"kind": "coarse", "cache": "builtin", "pol": "single", "progs": [[["reload", 1]], [["eval", e]]],
                          "sched": s, "post": [0, 1], "fam": "HotReloader||E"})
    chk.exhaustive = True
    # 2. A -> B -> A || one evaluator
    for ci, (cache, pol) in enumerate(CONFIGS):
        progs = [U2, [["eval", ci % 2]]]
        if quick:
            scheds, _ = enumerate_coarse(cache, progs + [[]], limit=(900 if ci == 0 else 150), rng=rng)
        else:
            scheds, _ = enumerate_coarse(cache, progs + [[]])
            enum_stats["ABA||E"] = len(scheds)
        for s in scheds:
            cases.append({"kind": "coarse", "cache": cache, "pol": pol, "progs": progs, "sched": s,
                          "post": [0, 1], "fam": "ABA||E"})
    # 3. one update || two evaluators (same request, and different requests)
    for ci, (cache, pol) in enumerate(CONFIGS):
        for e2 in (0, 1):
            progs = [U1, [["eval", 0]], [["eval", e2]]]
            scheds, _ = enumerate_coarse(cache, progs + [[]], limit=(100 if quick else 6000), rng=rng)
            for s in scheds:
                cases.append({"kind": "coarse", "cache": cache, "pol": pol, "progs": progs, "sched": s,
                              "post": [0, 1], "fam": "U||E||E"})
    # 4. an evaluator thread that evaluates twice (second call may hit what the first stored) || update
    for ci, (cache, pol) in enumerate(CONFIGS[:2] if quick else CONFIGS):
        progs = [U1, [["eval", 0], ["eval", 0]]]
        if quick and ci > 0:
            scheds, _ = enumerate_coarse(cache, progs + [[]], limit=100, rng=rng)
        else:
            scheds, _ = enumerate_coarse(cache, progs + [[]])
            enum_stats["U||E;E"] = len(scheds)
        for s in scheds:
            cases.append({"kind": "coarse", "cache": cache, "pol": pol, "progs": progs, "sched": s,
                          "post": [0, 1], "fam": "U||E;E"})
    chk.extra["enumerated_interleavings"] = enum_stats
    check_cases(chk, cases)
    chk.extra["coarse_wall_s"] = round(time.time() - t0, 1)

    # 5. search on the implementation itself (no model in the loop; enabledness = what really blocks)
    t1 = time.time()
    bound = 2 if quick else 3
    searched = {}
    # 5a. every interleaving of the located accesses that the IMPLEMENTATION admits
    for cache, pol, e, nc in [("builtin", "single", 0, False), ("builtin", "mixed", 0, True)] + \
            ([] if quick else [("dict", "set", 1, False), ("dict", "single", 1, False), ("builtin", "set", 0, False)]):
        base = {"cache": cache, "pol": pol, "progs": [U1, [["eval", e]]], "post": [0, 1], "filter": "coarse",
                "fam": "impl-coarse:U||E"}
        if nc:
            base["nocompile"] = True
        searched["accesses U||E %s/%s%s" % (cache, pol, "/nocompile" if nc else "")] = \
            line_search(chk, base, 99, 3000)
    if not quick:
        base = {"cache": "builtin", "pol": "single", "progs": [U2, [["eval", 0]]], "post": [0, 1], "filter": "coarse",
                "fam": "impl-coarse:ABA||E"}
        searched["accesses ABA||E builtin/single"] = line_search(chk, base, 99, 40000)
    # 5b. source-line granularity, pre-emption bounded
    base = {"cache": "builtin", "pol": "mixed", "nocompile": True, "progs": [U1, [["eval", 0]]], "post": [0, 1],
            "fam": "lines:U||E"}
    searched["lines U||E builtin/mixed/nocompile bound %d" % bound] = line_search(chk, base, bound,
                                                                                   1500 if quick else 20000)
    base = {"cache": "builtin", "pol": "single", "progs": [U1, [["eval", 0]]], "post": [0, 1], "fam": "lines:U||E"}
    searched["lines U||E builtin/single bound %d" % bound] = line_search(chk, base, bound, 1200 if quick else 60000)
    if not quick:
        base = {"cache": "dict", "pol": "set", "progs": [U1, [["eval", 1]]], "post": [0, 1], "fam": "lines:U||E"}
        searched["lines U||E dict/set bound 2"] = line_search(chk, base, 2, 5000)
        base = {"cache": "builtin", "pol": "single", "progs": [U2, [["eval", 0]]], "post": [0, 1],
                "fam": "lines:ABA||E"}
        searched["lines ABA||E builtin/single bound 3"] = line_search(chk, base, 3, 25000)
    rnd = []
    for k in range(150 if quick else 4000):
        cache, pol = CONFIGS[k % len(CONFIGS)]
        progs = [[U1, [["eval", 0]], [["eval", k % 2]]], [U2, [["eval", k % 2]]], [U2, [["eval", 0]], [["eval", 0]]]][k % 3]
        rnd.append({"kind": "lines", "cache": cache, "pol": pol, "progs": progs, "choices": [], "post": [0, 1],
                    "random": [rng.randrange(1 << 30), rng.choice([0.15, 0.3, 0.5])], "fam": "lines:random"})
    outs = check_cases(chk, rnd)
    # a random run is replayed by its recorded choices, not by its seed
    chk.extra["line_search"] = {k: {"runs": v[0], "complete_within_bound": v[1]} for k, v in searched.items()}
    chk.extra["line_wall_s"] = round(time.time() - t1, 1)
    chk.traces = chk.evaluations
    global _POOL
    if _POOL is not None:
        _POOL.close()
        _POOL = None
