"""C20 — ASGI enforcement: downstream runs iff allowed; denials are generic 403s.

Correspondence: rbacx.adapters.asgi.RbacxMiddleware, driven with raw
scope/receive/send callables inside one event loop, against the extracted Coq model
Asgi.call.  Two kinds of guard are wrapped:
  * a stub whose evaluate_async returns a scripted Decision (or raises) — every
    decision the engine could ever hand over, including effect/allowed mismatches
    and hostile reason / rule id / policy id values;
  * the real Guard (a recording subclass) over a family of small policies and
    policy sets; the decision the model is given is the one the real engine
    computes for the same request.
The incoming scope is an input of the middleware and the property quantifies over it:
besides JSON data it may carry objects — a scope value {"$obj": "guard"} in a case
stands for the very guard object the middleware was built with, {"$obj":
"other_guard"} for another guard object (same class), {"$obj": "object"} for a plain
object — under 'rbacx_guard' (what an outer instance of the middleware leaves there)
or any other key.  The model's scope has the same three kinds of entries (Asgi.sval:
SV / SGuard / SObj).  Scope data may contain bytes ({"$b": latin-1 text}) and
tuples ({"$t": [...]}) as an ASGI server produces them (headers, query_string,
raw_path, client, server); the model gets them under that encoding and, like the
code, looks at none of it: families request_shape:* vary method, headers, path,
query string, root_path, scheme, http_version, client against refusing / allowing /
raising engines and raising builders.  A case may carry a history: "init" holds
the values of the public attributes (mode / builder / add_headers / guard) the
instance was CONSTRUCTED with and "how" the current ones were assigned since (plain
assignment on the instance, or a subclass __init__ after super().__init__());
"warmup": 1 serves one unjudged request before the reassignment.  The request is
judged — directly and against the model — with the CURRENT values, i.e. as a fresh
instance built with them would serve it.  Scripted / engine decisions carry
Decision.challenge and Decision.obligations (every documented challenge value); the
middleware does not read them and the model's decision does not have them: the
complete message list (status, full header list, body) is compared.  A case may also be a stacked deployment: "outer" lists further
instances of the middleware wrapped around the case's own one, outermost first, each
sharing the guard object ("same") or with its own ("own": scripted stub, or a real
Guard over "gspec").  Every instance that is entered is one call of the model: its
input scope is the scope as it received it (entries that are its own guard object
are told apart from other objects by identity), its downstream's failure is the way
the next instance ended.  A case may place the library's other ASGI pieces around the instances — "pre": pieces
directly outside an instance (the case's own, or an "outer" layer's), "inner": pieces between the case's instance and
the application, outermost first; a piece is {"k": "trace"[, "header": name]} = rbacx.adapters.asgi_logging.
TraceIdMiddleware or {"k": "accesslog"} = rbacx.adapters.asgi_accesslog.AccessLogMiddleware — and may set ambient
request state: "ambient": {"trace_id": s} = the caller did rbacx.logging.context.set_current_trace_id(s) before
calling the application.  None of this is an input of the model: the instance must behave as it does bare.  With
pieces outside an instance its messages are observed at its own boundary (a recording shim between the piece and the
instance hands it a send that records, then forwards), so what the outer pieces add on the way out is excluded by
construction, not by filtering header names; "wire" in a result is what reached the server.
Collaborators have a Python shape besides their behaviour: builder["shape"] (function | partial | method |
dict_call_nonempty | dict_call | list_call | len0 | boolfalse: callable objects, the last four FALSY as objects),
builder["async"] (`async def __call__`), "guard_shape" / "app_shape" (falsy guard object / falsy wrapped application;
on the case for its own instance, on an "outer" layer for that one).  The model is told only that a builder is
configured.  guard["cache"] = lru | dict | deepcopy | readonly | pickle gives the case's real Guard a fresh decision
cache of that kind; "warmup": k = k identical requests went through the stack before the judged one (miss, then hits);
the decision handed to the model is then the one a cache-less Guard over the same policy computes.
Observables (per instance call): the ordered trace of build_env / evaluate_async /
send / downstream calls with their arguments (scope content at that moment, identity
of receive/send, the four builder objects, which guard was consulted, message
type/status/sorted headers/body bytes), the scope dict afterwards — for an instance
whose downstream is another instance: as handed over — (guard attached under
"rbacx_guard", everything else unchanged), how the call ended (returned / exception
class).
Judgement: (1) per instance, the theorems of props/C20.v make the model's answer the
only behaviour the property allows on downstream calls, messages and scope, so a
difference there is a violation with the case as failing input; a difference only in
the exception class or in the build/evaluate part of the trace is reported as a
broken correspondence.  (2) per case, end to end and without the model
(judge_direct): the application at the bottom runs iff no enforcing instance's
builder failed, engine raised or engine refused; a response is sent iff an engine
refused, and it is the one generic 403.
"""
import asyncio
import itertools
import json
import os
import re
import shutil
import subprocess
import tempfile
import types

import lib

KEY = "rbacx_guard"
BYT, TUP = "$b", "$t"  # scope data in a case: {"$b": latin-1 text} = bytes, {"$t": [...]} = tuple (see _to_py)
OBJ = "$obj"          # a scope value {"$obj": name} in a case stands for an object, see run_impl
RECV_ID, SEND_ID = 1, 2
ITEM_IDS = [100, 101, 102, 103, 104, 105]
FORBIDDEN = b'{"detail": "Forbidden"}'
FORBIDDEN_S = FORBIDDEN.decode()
DIAG = (("reason", "x-rbacx-reason"), ("rule_id", "x-rbacx-rule"), ("policy_id", "x-rbacx-policy"))
THEOREMS_TRACE = ["c20_engine_attached", "c20_raise_blocks_downstream", "c20_downstream_iff_allowed"]


class VerifBaseExc(BaseException):
    """a BaseException that is not an Exception (must propagate like any other)."""


EXC = {
    "RuntimeError": RuntimeError, "ValueError": ValueError, "KeyError": KeyError, "OSError": OSError,
    "PermissionError": PermissionError, "TypeError": TypeError, "LookupError": LookupError,
    "CancelledError": asyncio.CancelledError, "VerifBaseExc": VerifBaseExc,
}


class _Obj:
    """stand-in for Subject / Action / Resource / Context in the stub family."""

    def __init__(self, i):
        self.i = i


# --------------------------------------------------------------------------
# case classes
# --------------------------------------------------------------------------
def _has_surrogate(x) -> bool:
    if isinstance(x, str):
        return any(0xD800 <= ord(ch) <= 0xDFFF for ch in x)
    if isinstance(x, (list, tuple)):
        return any(_has_surrogate(y) for y in x)
    if isinstance(x, dict):
        return any(_has_surrogate(k) or _has_surrogate(v) for k, v in x.items())
    return False


def ood_surrogate(case) -> bool:
    """outside the modelled text domain (DESIGN 3.1): a lone surrogate somewhere in the decision / policy."""
    if case.get("guard"):
        return _has_surrogate(case["guard"]["policy"])
    ev = case["eval"]
    return ev["k"] == "ret" and _has_surrogate(ev["d"])


def py_checked(case) -> bool:
    sc = case["scope"]
    t = sc.get("type")
    return isinstance(t, str) and t == "http" and isinstance(case["mode"], str) and case["mode"] == "enforce" \
        and case["builder"] is not None


# --------------------------------------------------------------------------
# running the implementation
# --------------------------------------------------------------------------
def _b2s(x):
    if not isinstance(x, bytes):
        return "$nonbytes:" + repr(x)[:200]
    try:
        return x.decode("utf-8", "surrogatepass")
    except Exception:  # noqa: BLE001
        return "$bytes:" + x.hex()


def _canon_msg(m):
    if not isinstance(m, dict):
        return ["$notdict", type(m).__name__]
    t = m.get("type")
    if t == "http.response.start" and set(m) == {"type", "status", "headers"}:
        hs = []
        try:
            for h in m["headers"]:
                if isinstance(h, (tuple, list)) and len(h) == 2:
                    hs.append([_b2s(h[0]), _b2s(h[1])])
                else:
                    hs.append(["$bad", repr(h)[:200]])
        except Exception:  # noqa: BLE001
            hs.append(["$bad", repr(m["headers"])[:200]])
        st = m["status"]
        if not (isinstance(st, int) and not isinstance(st, bool)):
            st = "$nonint:" + repr(st)
        return ["start", st, sorted(hs)]
    if t == "http.response.body" and set(m) <= {"type", "body", "more_body"} and "body" in m \
            and not m.get("more_body"):
        return ["body", _b2s(m["body"])]
    return ["$other", repr(sorted(m.items(), key=lambda kv: str(kv[0])))[:300]]


def _mk_decision(d, missing):
    from rbacx.core.decision import Decision

    if missing:
        ns = types.SimpleNamespace(**{k: v for k, v in d.items() if k not in missing})
        return ns
    return Decision(allowed=d["allowed"], effect=d["effect"], reason=d["reason"], rule_id=d["rule_id"],
                    policy_id=d["policy_id"], challenge=d.get("challenge"),
                    obligations=json.loads(json.dumps(d.get("obligations") or [])))


_GUARDS: dict = {}
_REC_GUARD = []
_REC_SHAPED: dict = {}
CACHE_KINDS = ["lru", "dict", "deepcopy", "readonly", "pickle"]
FALSY_SHAPES = ["dict_call", "list_call", "len0", "boolfalse"]
TRUTHY_SHAPES = ["function", "partial", "method", "dict_call_nonempty"]


def _shaped(fn, shape):
    """`fn` as a callable of another Python shape: a functools.partial, a bound method, or a callable OBJECT — a
    dict / list subclass with __call__ (empty: falsy; with an entry: truthy), an object whose __len__ is 0, an object
    whose __bool__ is False.  All of them work as callables; only their truth value as Python objects differs."""
    if shape in (None, "function"):
        return fn
    if shape == "partial":
        import functools
        return functools.partial(fn)

    def call(self, *a):
        return fn(*a)
    if shape == "method":
        return type("BuilderWithMethod", (), {"build": call})().build
    if shape in ("dict_call", "dict_call_nonempty"):
        o = type("RouteTableCallable", (dict,), {"__call__": call})()
        if shape == "dict_call_nonempty":
            o["/health"] = "skip"
        return o
    if shape == "list_call":
        return type("ListCallable", (list,), {"__call__": call})()
    if shape == "len0":
        return type("SizedCallable", (), {"__call__": call, "__len__": lambda self: 0})()
    if shape == "boolfalse":
        return type("FalsyCallable", (), {"__call__": call, "__bool__": lambda self: False})()
    raise ValueError("unknown shape %r" % (shape,))


def _falsy_class(cls, shape):
    """a subclass of a guard class whose instances are falsy as Python objects (and work as before)."""
    if not shape:
        return cls
    k = (cls, shape)
    if k not in _REC_SHAPED:
        extra = {"boolfalse": {"__bool__": lambda self: False}, "len0": {"__len__": lambda self: 0}}[shape]
        _REC_SHAPED[k] = type(cls.__name__ + "_" + shape, (cls,), extra)
    return _REC_SHAPED[k]


def _mk_cache(kind):
    """decision caches of several legitimate kinds (rbacx.core.cache.AbstractCache): the built-in LRU, a dict-backed
    one storing values as they are, one handing out deep copies, one handing out read-only views of what it stores,
    one storing pickles.  Every one counts its hits / misses."""
    import copy
    import pickle
    from rbacx.core.cache import DefaultInMemoryCache

    class _Count:
        hits = misses = 0

        def note(self, v):
            if v is None:
                self.misses += 1
            else:
                self.hits += 1
            return v

    if kind in ("lru", "readonly"):
        class Lru(_Count, DefaultInMemoryCache):
            def get(self, key):
                v = self.note(DefaultInMemoryCache.get(self, key))
                if kind == "readonly" and isinstance(v, dict):
                    return types.MappingProxyType(v)
                return v
        return Lru()

    class DictCache(_Count):
        def __init__(self):
            self.d = {}

        def get(self, key):
            v = self.note(self.d.get(key))
            if v is None:
                return None
            if kind == "deepcopy":
                return copy.deepcopy(v)
            if kind == "pickle":
                return pickle.loads(v)
            return v

        def set(self, key, value, ttl=None):
            self.d[key] = pickle.dumps(value) if kind == "pickle" else value

        def delete(self, key):
            self.d.pop(key, None)

        def clear(self):
            self.d.clear()
    if kind not in ("dict", "deepcopy", "pickle"):
        raise ValueError("unknown cache kind %r" % (kind,))
    return DictCache()


def _real_guard(gspec, variant=0, shape=None, caches=None):
    """one recording Guard per (policy, strict, variant, shape) — no cache configured, so evaluations are independent;
    `variant` tells apart distinct Guard objects over the same policy (stacked layers, a foreign Guard in the scope).
    With gspec["cache"] (and a list `caches` to collect it): a FRESH Guard with a fresh decision cache of that kind."""
    from rbacx.core.engine import Guard

    if not _REC_GUARD:
        class RecGuard(Guard):
            async def evaluate_async(self, subject, action, resource, context=None):
                hook = getattr(self, "_verif_hook", None)
                if hook is not None:
                    hook("call", (subject, action, resource, context))
                try:
                    d = await super().evaluate_async(subject, action, resource, context)
                except BaseException as e:  # noqa: BLE001
                    if hook is not None:
                        hook("raise", e)
                    raise
                if hook is not None:
                    hook("ret", d)
                return d

        _REC_GUARD.append(RecGuard)
    cls = _falsy_class(_REC_GUARD[0], shape)
    if gspec.get("cache") and caches is not None:
        c = _mk_cache(gspec["cache"])
        caches.append(c)
        return cls(json.loads(json.dumps(gspec["policy"])), strict_types=bool(gspec.get("strict")), cache=c)
    key = json.dumps([gspec["policy"], bool(gspec.get("strict")), variant, shape], sort_keys=True)
    g = _GUARDS.get(key)
    if g is None:
        g = cls(json.loads(json.dumps(gspec["policy"])), strict_types=bool(gspec.get("strict")))
        if len(_GUARDS) > 4000:
            _GUARDS.clear()
        _GUARDS[key] = g
    return g


def _request_objects(req):
    from rbacx.core.model import Action, Context, Resource, Subject

    s = req.get("subject") or {}
    r = req.get("resource") or {}
    return (Subject(id=s.get("id", "u"), roles=list(s.get("roles") or []), attrs=dict(s.get("attrs") or {})),
            Action(req.get("action", "read")),
            Resource(type=r.get("type", "doc"), id=r.get("id", "1"), attrs=dict(r.get("attrs") or {})),
            Context(dict(req.get("context") or {})))


def _dec_fields(d):
    return {"allowed": d.allowed, "effect": d.effect, "reason": d.reason,
            "rule_id": getattr(d, "rule_id", None), "policy_id": getattr(d, "policy_id", None),
            "challenge": getattr(d, "challenge", None)}


def _is_ph(v) -> bool:
    return isinstance(v, dict) and len(v) == 1 and OBJ in v


def _to_py(v):
    """case JSON -> the Python data put into the scope: {"$b": latin-1 text} is a bytes object, {"$t": [...]} a
    tuple (what an ASGI server puts into headers / query_string / raw_path / client / server)."""
    if isinstance(v, dict):
        if len(v) == 1:
            if BYT in v:
                return v[BYT].encode("latin-1")
            if TUP in v:
                return tuple(_to_py(x) for x in v[TUP])
        return {k: _to_py(x) for k, x in v.items()}
    if isinstance(v, list):
        return [_to_py(x) for x in v]
    return v


def _to_json(v):
    """the inverse, on whatever is found in the scope (injective on bytes / tuples / lists / str-keyed dicts /
    None / bool / int / float / str); raises for anything else."""
    if v is None or v is True or v is False or type(v) in (int, float, str):
        return v
    t = type(v)
    if t is bytes:
        return {BYT: v.decode("latin-1")}
    if t is tuple:
        return {TUP: [_to_json(x) for x in v]}
    if t is list:
        return [_to_json(x) for x in v]
    if t is dict:
        out = {}
        for k, x in v.items():
            if type(k) is not str:
                raise TypeError("key")
            out[k] = _to_json(x)
        return out
    raise TypeError(t.__name__)


def layer_specs(case):
    """the middleware instances of a case, outermost first; the last one is the case's own (primary) instance."""
    out = []
    for l in case.get("outer") or []:
        out.append({"mode": l["mode"], "add_headers": l["add_headers"], "builder": l["builder"],
                    "guard": l.get("guard", "own"), "eval": l.get("eval"), "gspec": l.get("gspec"),
                    "request": l.get("request"), "expect_allowed": l.get("expect_allowed"), "init": l.get("init"),
                    "pre": l.get("pre") or [], "guard_shape": l.get("guard_shape"), "app_shape": l.get("app_shape")})
    out.append({"mode": case["mode"], "add_headers": case["add_headers"], "builder": case["builder"],
                "guard": "primary", "eval": case.get("eval"), "gspec": case.get("guard"), "request": None,
                "init": case.get("init"), "pre": case.get("pre") or [], "guard_shape": case.get("guard_shape"),
                "app_shape": case.get("app_shape"),
                "expect_allowed": (case.get("guard") or {}).get("expect_allowed")})
    return out


class StubGuard:
    """evaluate_async returns a scripted Decision (or raises)."""

    def __init__(self, run, ev):
        self._run, self._ev = run, ev

    async def evaluate_async(self, subject, action, resource, context=None):
        self._run.on_eval(self, (subject, action, resource, context))
        await asyncio.sleep(0)
        ev = self._ev
        if ev["k"] == "raise":
            raise EXC[ev["exc"]]("scripted evaluate failure")
        return _mk_decision(ev["d"], ev.get("missing") or [])


class _Layer:
    def __init__(self, spec):
        self.spec = spec
        self.guard = None
        self.gspec = None        # real Guard: {"policy", "request", ...}
        self.ev = None           # stub guard: the scripted outcome
        self.es = None           # the evaluation outcome handed to the model
        self.events = []
        self.recorded = []
        self.extra = {}
        self.entered = False
        self.entry = None        # the scope as this instance received it
        self.app_snap = None     # the scope as this instance handed it to its downstream
        self.scope_after = None
        self.end = None
        self.mw = None
        self.build_env = None
        self.recv_in = None      # the receive / send callables this instance was called with
        self.send_in = None
        self.down_exc = None     # class of the exception its downstream call ended with (None: returned / not called)


class _Run:
    """one `await stack(scope, receive, send)`: who is executing, which opaque objects exist."""

    def __init__(self):
        self.layers = []
        self.active = []         # indices of the instances being executed, innermost last
        self.objs = []           # opaque objects; the position is the number the model is given
        self.named_objs = {}
        self.idmap = {}
        self.msgs = []
        self.fly = 0             # > 0 while a message already recorded at an instance's boundary travels outwards
        self.wire = []           # what reached the server's send (after the outer pieces' own additions)
        self.stray = []          # messages sent while no instance of the middleware was executing

    def cur(self):
        return self.layers[self.active[-1]]

    def objnum(self, o):
        for i, x in enumerate(self.objs):
            if x is o:
                return i
        self.objs.append(o)
        return len(self.objs) - 1

    def snap(self, sc, guard):
        """scope content relative to `guard`: ["guard"] (that very object) | ["v", JSON data] | ["obj", n]."""
        out = {}
        for k, v in sc.items():
            if v is guard:
                out[k] = ["guard"]
            else:
                try:
                    out[k] = ["v", _to_json(v)]
                except Exception:  # noqa: BLE001
                    out[k] = ["obj", self.objnum(v)]
        return out

    def ids_of(self, objs):
        return [self.idmap.get(id(o), -1) for o in objs]

    def on_eval(self, guard, args):
        L = self.cur()
        if guard is L.guard:
            L.events.append(["eval"] + self.ids_of(args))
        else:
            L.events.append(["eval_by_another_guard", self.objnum(guard)] + self.ids_of(args))


async def run_impl(case):
    """-> {"units": [...], "layers": [...], "final_apps": n, "msgs": [...]}: one unit per middleware instance that was
    entered (its own input scope, its observation, the evaluation outcome handed to the model)."""
    from rbacx.adapters.asgi import RbacxMiddleware

    from rbacx.logging import context as _logctx

    run = _Run()
    specs = layer_specs(case)
    n = len(specs)
    has_env = bool(case.get("inner") or case.get("ambient") or any(sp.get("pre") for sp in specs))
    _logctx.clear_current_trace_id()     # every case starts with no request id in force (all cases share one task)
    gspec = case.get("guard")
    caches = []                          # the decision caches of this case's Guards (fresh per case)
    primary = _real_guard(gspec, 0, specs[-1]["guard_shape"], caches) if gspec \
        else _falsy_class(StubGuard, specs[-1]["guard_shape"])(run, case["eval"])
    run.objs.append(primary)
    real_guards = [primary] if gspec else []

    # ----- the instances' guards and what their engine answers (outside the middleware)
    for i, sp in enumerate(specs):
        L = _Layer(sp)
        run.layers.append(L)
        if sp["guard"] in ("primary", "same"):
            L.guard = primary
            if gspec:
                L.gspec = {"policy": gspec["policy"], "strict": gspec.get("strict"),
                           "request": sp.get("request") or gspec["request"], "expect_allowed": sp["expect_allowed"]}
                if gspec.get("cache"):
                    L.gspec["cache"] = gspec["cache"]
            else:
                L.ev = case["eval"]
        elif sp.get("gspec"):
            L.gspec = dict(sp["gspec"], expect_allowed=sp["expect_allowed"])
            L.guard = _real_guard(L.gspec, i + 1, sp["guard_shape"], caches)
            real_guards.append(L.guard)
            run.objs.append(L.guard)
        else:
            L.ev = sp["eval"]
            L.guard = _falsy_class(StubGuard, sp["guard_shape"])(run, L.ev)
            run.objs.append(L.guard)
        if L.gspec:
            req = _request_objects(L.gspec["request"])
            L.guard._verif_hook = None
            # the engine's answer for this request, computed outside the middleware; for a Guard with a decision cache:
            # by a cache-less Guard over the same policy (the cached one meets the request through the middleware only)
            ref = L.guard if getattr(L.guard, "cache", None) is None else \
                _real_guard({"policy": L.gspec["policy"], "strict": L.gspec.get("strict")}, 700)
            try:
                d0 = await ref.evaluate_async(*req)
                L.es = {"k": "ret", "d": _dec_fields(d0)}
            except BaseException as e:  # noqa: BLE001
                L.es = {"k": "raise", "exc": type(e).__name__}
            base_items = list(req)
        else:
            ev = L.ev
            L.es = {"k": ev["k"], **({"d": {k: (None if k in (ev.get("missing") or []) else v)
                                            for k, v in ev["d"].items()}} if ev["k"] == "ret"
                                     else {"exc": ev["exc"]})}
            base_items = [_Obj(j) for j in range(4)]
        b = sp["builder"]
        if b is not None:
            nb = b.get("n", 4)
            while len(base_items) < nb:
                base_items.append(_Obj(len(base_items)))
            items = base_items[:nb]
            for j, o in enumerate(items):
                run.idmap[id(o)] = ITEM_IDS[j]
            L.items = items

    # ----- the scope: JSON data, placeholders replaced by objects
    def named(name):
        if name == "guard":
            return primary
        if name not in run.named_objs:
            if name == "other_guard":
                o = _real_guard(gspec, 99, None, caches) if gspec else StubGuard(run, {"k": "raise", "exc": "RuntimeError"})
                if gspec:
                    real_guards.append(o)
            else:
                o = object()
            run.named_objs[name] = o
            run.objnum(o)
        return run.named_objs[name]

    def make_scope():
        sc = {}
        for k, v in case["scope"].items():
            sc[k] = named(v[OBJ]) if _is_ph(v) else _to_py(v)
        return sc

    scope = make_scope()

    def mk_hook(g):
        def hook(kind, val):
            if kind == "call":
                run.on_eval(g, val)
            elif kind == "ret" and g is run.cur().guard:
                run.cur().recorded.append(_dec_fields(val))
        return hook

    for g in real_guards:
        g._verif_hook = mk_hook(g)

    # ----- env builders
    coros = []

    def mk_builder(L):
        b = L.spec["builder"]
        if b is None:
            return None

        def build_env(sc):
            L.events.append(["build", run.snap(sc, L.guard)])
            if sc is not scope:
                L.extra["builder_scope_not_same_object"] = True
            if b["k"] == "raise":
                raise EXC[b["exc"]]("scripted builder failure")
            if b["k"] == "notiter":
                return None
            if b.get("async"):           # `async def __call__`: the caller gets a coroutine object, not the four objects
                async def later():
                    return tuple(L.items)
                co = later()
                coros.append(co)
                return co
            return tuple(L.items)
        return _shaped(build_env, b.get("shape"))

    # ----- receive / send / downstream
    nsend = [0]

    async def receive():
        return {"type": "http.request", "body": b"", "more_body": False}

    def record(m):
        """a message is recorded where it leaves the instance of the middleware that sent it: at the server's send,
        or — when other pieces sit between that instance and the server — at the instance's own boundary."""
        if run.fly:
            return
        cm = _canon_msg(m)
        if run.active:
            run.cur().events.append(["send", SEND_ID, cm])
        else:
            run.stray.append(cm)
        run.msgs.append(cm)

    async def send(m):
        record(m)
        if has_env:
            run.wire.append(_canon_msg(m))
        k = nsend[0]
        nsend[0] += 1
        sf = case.get("send_fail")
        if sf and sf[0] == k:
            raise EXC[sf[1]]("scripted send failure")

    final_apps = [0]

    async def final_app(sc, rv, sd):
        final_apps[0] += 1
        await asyncio.sleep(0)
        if case.get("app_exc"):
            raise EXC[case["app_exc"]]("scripted downstream failure")

    async def enter(i, sc, rv, sd):
        L = run.layers[i]
        L.entered = True
        L.recv_in, L.send_in = rv, sd
        L.entry = run.snap(sc, L.guard)
        run.active.append(i)
        try:
            r = await L.mw(sc, rv, sd)
            L.end = ["returned"]
            if r is not None:
                L.extra["return_value"] = repr(r)[:100]
        except BaseException as e:  # noqa: BLE001
            L.end = ["raised", type(e).__name__]
            raise
        finally:
            run.active.pop()
            L.scope_after = run.snap(sc, L.guard)

    def mk_piece(p, inner):
        """one of the library's other ASGI pieces, constructed as documented."""
        if p["k"] == "trace":
            from rbacx.adapters.asgi_logging import TraceIdMiddleware
            if p.get("header") is None:
                return TraceIdMiddleware(inner)
            return TraceIdMiddleware(inner, header_name=p["header"].encode("latin-1"))
        if p["k"] == "accesslog":
            from rbacx.adapters.asgi_accesslog import AccessLogMiddleware
            return AccessLogMiddleware(inner)
        raise ValueError("unknown piece %r" % (p,))

    def wrap_pieces(pieces, inner):
        for p in reversed(pieces or []):
            inner = mk_piece(p, inner)
        return inner

    def mk_boundary(i):
        """what is directly outside instance i.  With other pieces outside it: a recording shim — the instance is
        called with a send of its own, which records the message as the instance sent it and then forwards it, so
        that what the outer pieces add on the way out (their own headers) is not attributed to the middleware."""
        L = run.layers[i]
        if not L.spec.get("pre"):
            async def plain(sc, rv, sd):
                await enter(i, sc, rv, sd)
            return plain

        async def boundary(sc, rv, sd):
            async def bsend(m):
                record(m)
                run.fly += 1
                try:
                    await sd(m)
                finally:
                    run.fly -= 1
            await enter(i, sc, rv, bsend)
        return boundary

    def mk_shim(i):
        """the downstream application of instance i: records the call, then runs what is really below — the pieces
        directly outside the next instance and that instance, or (last instance) the case's "inner" pieces and the
        application at the bottom."""
        L = run.layers[i]
        if i == n - 1:
            nxt = wrap_pieces(case.get("inner"), final_app)
        else:
            nxt = wrap_pieces(run.layers[i + 1].spec.get("pre"), mk_boundary(i + 1))

        async def shim(sc, rv, sd):
            snap = run.snap(sc, L.guard)
            if i < n - 1:
                L.app_snap = snap
            L.events.append(["app", snap, RECV_ID if rv is L.recv_in else -1, SEND_ID if sd is L.send_in else -1])
            if sc is not scope:
                L.extra["app_scope_not_same_object"] = True
            try:
                await nxt(sc, rv, sd)
            except BaseException as e:  # noqa: BLE001
                L.down_exc = type(e).__name__
                raise
        return shim

    def mk_stale_builder(L):
        def stale_build_env(sc):           # the builder the instance was constructed with, replaced since
            L.events.append(["build_by_replaced_builder"])
            return tuple(getattr(L, "items", None) or [_Obj(j) for j in range(4)])
        return stale_build_env

    pending = []
    for i in range(n - 1, -1, -1):
        L = run.layers[i]
        sp = L.spec
        app_i = _shaped(mk_shim(i), sp.get("app_shape"))
        cur = {"guard": L.guard, "mode": sp["mode"], "build_env": mk_builder(L), "add_headers": sp["add_headers"]}
        init = sp.get("init")
        if not init:
            # the documented defaults (mode="enforce", build_env=None, add_headers=False) are exercised too: in about half
            # of the cases (a function of the case content) an argument equal to its default is OMITTED from the call
            import zlib as _z
            args = dict(cur)
            if _z.crc32(repr((sp.get("mode"), sp.get("add_headers"), i, len(run.layers))).encode()) % 2 == 0 or sp.get("omit_defaults"):
                if args["mode"] == "enforce":
                    del args["mode"]
                if args["add_headers"] is False:
                    del args["add_headers"]
                if args["build_env"] is None:
                    del args["build_env"]
            L.mw = RbacxMiddleware(app_i, **args)
            continue
        # a history: constructed with other values, its public attributes reassigned before the request
        first = dict(cur)
        if "mode" in init:
            first["mode"] = init["mode"]
        if "add_headers" in init:
            first["add_headers"] = init["add_headers"]
        if "builder" in init:
            first["build_env"] = None if init["builder"] is None else mk_stale_builder(L)
        if init.get("guard") == "other":
            if L.gspec:
                og = _real_guard(L.gspec, 50 + i, None, caches)
                og._verif_hook = mk_hook(og)
                real_guards.append(og)
            else:
                og = StubGuard(run, {"k": "raise", "exc": "RuntimeError"})
            run.objnum(og)
            first["guard"] = og
        if init.get("how") == "subclass":
            def mk_sub(first, cur):
                class Reconfigured(RbacxMiddleware):
                    def __init__(self, app_):
                        super().__init__(app_, **first)
                        self.guard = cur["guard"]
                        self.mode = cur["mode"]
                        self.build_env = cur["build_env"]
                        self.add_headers = cur["add_headers"]
                return Reconfigured
            L.mw = mk_sub(first, cur)(app_i)
        else:
            L.mw = RbacxMiddleware(app_i, **first)
            pending.append((L, {k: cur[k] for k in ("guard", "mode", "build_env", "add_headers")
                                if k == "build_env" and "builder" in init or k == "guard" and init.get("guard") == "other"
                                or k in init}))
    top = wrap_pieces(specs[0].get("pre"), mk_boundary(0))
    amb_token = None
    if (case.get("ambient") or {}).get("trace_id") is not None:
        # ambient request state: the caller set a request id through the public API before calling the application
        amb_token = _logctx.set_current_trace_id(case["ambient"]["trace_id"])
    for _w in range(int(case.get("warmup") or 0)):   # requests served before (the attributes are reassigned); not judged
        try:
            await top(make_scope(), receive, send)
        except BaseException:  # noqa: BLE001
            pass
    for L, attrs in pending:
        for k, v in attrs.items():
            setattr(L.mw, k, v)
    if case.get("warmup"):
        for L in run.layers:
            L.events, L.recorded, L.extra = [], [], {}
            L.entered, L.entry, L.app_snap, L.scope_after, L.end = False, None, None, None, None
            L.recv_in, L.send_in, L.down_exc = None, None, None
        run.msgs, run.wire, run.stray, run.fly = [], [], [], 0
        for c_ in caches:
            c_.hits = c_.misses = 0
        nsend[0] = 0
        final_apps[0] = 0
    try:
        await top(scope, receive, send)
    except BaseException:  # noqa: BLE001
        pass
    if amb_token is not None:
        _logctx.clear_current_trace_id(amb_token)
    _logctx.clear_current_trace_id()
    for g in real_guards:
        g._verif_hook = None

    units = []
    for i, L in enumerate(run.layers):
        if not L.entered:
            continue
        inner = run.layers[i + 1] if i + 1 < n else None
        below = inner is not None and inner.entered
        if inner is None:
            app_exc = case.get("app_exc")
        else:
            app_exc = inner.end[1] if below and inner.end[0] == "raised" else None
        if has_env:          # other pieces below this instance: the class its downstream call was seen to end with
            app_exc = L.down_exc
        # an instance whose downstream is another instance: its part of the scope's history ends when it hands over
        obs = {"events": L.events, "scope": L.app_snap if below else L.scope_after, "end": L.end}
        obs.update(L.extra)
        if L.gspec:
            obs["recorded"] = L.recorded
        view = {"mode": L.spec["mode"], "add_headers": L.spec["add_headers"], "builder": L.spec["builder"],
                "scope": {k: (t[1] if t[0] == "v" else {OBJ: "guard" if t[0] == "guard" else "obj%d" % t[1]})
                          for k, t in L.entry.items()},
                "eval": L.ev, "guard": L.gspec, "send_fail": case.get("send_fail"), "app_exc": app_exc,
                "fam": case.get("fam", "?")}
        units.append({"li": i, "n": n, "view": view, "entry": L.entry, "obs": obs, "es": L.es})
    layers = [{"mode": L.spec["mode"], "add_headers": L.spec["add_headers"], "builder": L.spec["builder"],
               "eval": L.ev, "guard": L.gspec, "es": L.es, "entered": L.entered} for L in run.layers]
    res = {"units": units, "layers": layers, "final_apps": final_apps[0], "msgs": run.msgs}
    if has_env:
        res["wire"] = run.wire     # for the reader of a replay: what the server saw after the outer pieces' additions
    if run.stray:
        res["sent_outside_any_instance"] = run.stray
    for co in coros:
        co.close()
    if caches:
        res["cache"] = {"hits": sum(c_.hits for c_ in caches), "misses": sum(c_.misses for c_ in caches)}
    return res


# --------------------------------------------------------------------------
# running the model
# --------------------------------------------------------------------------
def model_line(u):
    """one instance's call: its configuration, the scope as it received it (entries: JSON data | its own guard |
    another object), what its collaborators do."""
    v, es = u["view"], u["es"]
    b = v["builder"]
    if b is None:
        mb = None
    elif b["k"] == "ret" and not b.get("async"):
        mb = ["ret", ITEM_IDS[: b.get("n", 4)]]     # the builder's Python shape (function / callable object, truthy or
    elif b["k"] == "notiter" or b.get("async"):     # falsy) is not an input of the model: a builder is configured
        mb = ["notiter"]
    else:
        mb = ["raise", b["exc"]]
    me = ["ret", es["d"]] if es["k"] == "ret" else ["raise", es["exc"]]
    sf = v.get("send_fail")
    return lib.model_call("asgi.call", {"mode": v["mode"], "add_headers": bool(v["add_headers"])},
                          [[k, t] for k, t in u["entry"].items()], RECV_ID, SEND_ID, mb, me,
                          list(sf) if sf else None, v.get("app_exc"))


def _run_model(lines):
    """lib.run_model drains one child's stdout at a time; a child whose answers exceed the pipe buffer stalls until
    its turn.  Answers repeat the scope up to three times, so: few lines per child when the lines are long."""
    short = [i for i, l in enumerate(lines) if len(l) < 1200]
    longs = [i for i, l in enumerate(lines) if len(l) >= 1200]
    out = [None] * len(lines)
    for idx, chunk in ((short, 48), (longs, 6)):
        for i, a in zip(idx, lib.run_model("asgi", [lines[i] for i in idx], chunk=chunk, procs=16)):
            out[i] = a
    return out


def _canon_model(m):
    def sc(l):
        return {k: tag for k, tag in l}

    evs = []
    for e in m["events"]:
        if e[0] == "build":
            evs.append(["build", sc(e[1])])
        elif e[0] == "app":
            evs.append(["app", sc(e[1]), e[2], e[3]])
        elif e[0] == "send":
            msg = e[2]
            if msg[0] == "start":
                msg = ["start", msg[1], sorted(msg[2])]
            evs.append(["send", e[1], msg])
        else:
            evs.append(list(e))
    return {"events": evs, "scope": sc(m["scope"]), "end": m["end"]}


# --------------------------------------------------------------------------
# judging
# --------------------------------------------------------------------------
def _apps(o):
    return [e for e in o["events"] if e[0] == "app"]


def _msgs(o):
    return [e[2] for e in o["events"] if e[0] == "send"]


def _category(case, eval_spec):
    if not py_checked(case):
        return "passthrough"
    b = case["builder"]
    if b["k"] != "ret" or b.get("n", 4) != 4 or b.get("async"):
        return "builder_fails"
    if eval_spec["k"] == "raise":
        return "evaluate_raises"
    return "allowed" if eval_spec["d"]["allowed"] else "denied"


def _needles(eval_spec):
    out = []
    if eval_spec["k"] != "ret":
        return out
    for f, _ in DIAG:
        v = eval_spec["d"].get(f)
        if v is None or v == "" or isinstance(v, bool):
            continue
        try:
            s = v if isinstance(v, str) else str(v)
        except Exception:  # noqa: BLE001
            continue
        if s and s not in FORBIDDEN_S:
            out.append((f, s))
    return out


def _py_denial_ok(case, eval_spec, obs):
    """direct reading of the statement, for denials the model does not render (str() outside Value.py_str)."""
    msgs = _msgs(obs)
    want = [["content-type", "application/json; charset=utf-8"], ["content-length", str(len(FORBIDDEN))]]
    if case["add_headers"]:
        for f, name in DIAG:
            v = eval_spec["d"].get(f)
            if v:
                want.append([name, str(v)])
    full = [["start", 403, sorted(want)], ["body", FORBIDDEN_S]]
    sf = case.get("send_fail")
    if sf and sf[0] < 2:
        full = full[: sf[0] + 1]      # the failing send call is the last one made
    return msgs == full


def judge_direct(chk, case, res, already=False):
    """the statement read directly on the implementation, end to end, for the whole stack of instances: walk the
    instances outermost first; the first one that enforces (http + mode == "enforce" + builder) and whose builder
    fails / whose engine raises / whose engine does not allow ends the request there."""
    t = case["scope"].get("type")
    http = isinstance(t, str) and t == "http"
    block = None
    for i, li in enumerate(res["layers"]):
        if not (http and isinstance(li["mode"], str) and li["mode"] == "enforce" and li["builder"] is not None):
            continue
        b, es = li["builder"], li["es"]
        if b["k"] != "ret" or b.get("n", 4) != 4 or b.get("async"):
            block = ("builder_fails", i)
        elif es["k"] == "raise":
            block = ("evaluate_raises", i)
        elif not es["d"]["allowed"]:
            block = ("denied", i)
        if block:
            break
    n = len(res["layers"])
    where = "" if n == 1 else " [stack of %d instances; instance %s]" % (n, block[1] + 1 if block else "-")
    chk.count("direct:" + (block[0] if block else "goes_through"))
    apps, msgs = res["final_apps"], res["msgs"]
    real_chk = chk
    if already:          # this input is already filed as a violation by the per-instance judgement: only count
        class _CountOnly:
            @staticmethod
            def violation(*a, **k):
                real_chk.count("direct:fails_too")
        chk = _CountOnly
    if block is None:
        if apps != 1:
            chk.violation("downstream must run exactly once when no enforcing instance's engine refused (direct)" + where,
                          case, impl=res)
    elif apps:
        clause = {"denied": "downstream was invoked although the engine did not allow the request",
                  "builder_fails": "downstream was invoked although building the request environment failed",
                  "evaluate_raises": "downstream was invoked although evaluating raised"}[block[0]]
        chk.violation(clause + " (direct)" + where, case, impl=res)
    if block is None or block[0] != "denied":
        if msgs:
            chk.violation("the middleware sent a response although no engine denied (direct)" + where, case, impl=res)
    else:
        li = res["layers"][block[1]]
        pseudo = {"guard": li["guard"], "eval": li["eval"], "add_headers": li["add_headers"],
                  "send_fail": case.get("send_fail")}
        if not ood_surrogate(pseudo) and not _py_denial_ok(pseudo, li["es"], {"events": [["send", SEND_ID, m] for m in msgs]}):
            chk.violation("a denial is exactly one 403 response: start (content-type, content-length, X-RBACX-* only "
                          "with add_headers) + the generic Forbidden body (direct)" + where, case, impl=res)


def check_cases(chk, cases, replay=False):
    async def run_all():
        out = []
        for c in cases:
            out.append(await run_impl(c))
        return out

    results = asyncio.run(run_all())
    flat = [(c, r, u) for c, r in zip(cases, results) for u in r["units"]]
    lines = [model_line(u) for _, _, u in flat]
    answers = _run_model(lines)
    models = [_canon_model(lib.dec(x)) for x in answers]
    if not replay and len(cases) > 1000 and "extraction_crosscheck" not in chk.extra:
        extraction_crosscheck(chk, lines, answers)

    last, n_last = None, 0
    for (case, res, u), m in zip(flat + [(None, None, None)], models + [None]):
        if last is not None and len(chk.violations) > n_last:
            last["_filed"] = True
        last, n_last = res, len(chk.violations)
        if res is None:
            break
        c, obs, es = u["view"], u["obs"], u["es"]
        pre = "" if u["n"] == 1 else "[instance %d of %d, outermost first] " % (u["li"] + 1, u["n"])
        cat = _category(c, es)
        checked = py_checked(c)
        surrogate = ood_surrogate(c)
        nontriv = checked or (es["k"] == "raise" or (es["k"] == "ret" and not es["d"]["allowed"])
                              or (c["builder"] or {}).get("k") in ("raise", "notiter") or (c["builder"] or {}).get("async"))
        chk.mark(("c20", u["li"], json.dumps(lib.jsonable({k: v for k, v in case.items() if k != "fam"}), sort_keys=True,
                                             default=str)), nontriv)
        chk.count("category:" + cat)
        chk.count("guard:" + ("real" if c.get("guard") else "stub"))
        chk.count("mode:" + (c["mode"] if c["mode"] in ("enforce", "inject") else "other"))
        chk.count("scope_type:" + (c["scope"].get("type") if c["scope"].get("type") in
                                   ("http", "websocket", "lifespan") else "other"))
        kt = u["entry"].get(KEY)
        chk.count("incoming_rbacx_guard:" + ("absent" if kt is None else "own_guard_object" if kt[0] == "guard"
                                             else "another_object" if kt[0] == "obj"
                                             else "None" if kt[1] is None else "json_data"))
        if kt is not None and kt[0] == "guard" and checked:
            chk.count("incoming_own_guard_and_enforcing:" + cat)
        chk.count("add_headers:%s" % bool(c["add_headers"]))
        chk.count("impl_end:" + "/".join(str(x) for x in obs["end"]))
        if cat == "denied":
            hs = [mm for mm in _msgs(obs) if mm[0] == "start"]
            if hs and isinstance(hs[0][2], list):
                chk.count("denied_extra_headers:%d" % max(0, len(hs[0][2]) - 2))
        chk.sample({"case": case, "instance": u["li"], "impl": obs, "model": m}, every=2503)
        iapps, mapps = _apps(obs), _apps(m)
        imsgs, mmsgs = _msgs(obs), _msgs(m)

        # ---- always: no body ever carries an id (unless the fixed document happens to contain that string)
        for mm in imsgs:
            if mm[0] == "body":
                for f, s in _needles(es):
                    if s in mm[1]:
                        chk.violation(pre + f"403 body contains the decision's {f}", case, impl=obs, model=m)
        if obs.get("app_scope_not_same_object"):
            chk.violation(pre + "downstream did not receive the scope object it was called with (pass through unchanged)",
                          case, impl=obs, model=m)
        # ---- composed statement on the family's own expectation (engine regressions seen through the adapter)
        g = c.get("guard")
        if g and g.get("expect_allowed") is not None and checked and cat in ("allowed", "denied"):
            if bool(iapps) != bool(g["expect_allowed"]):
                chk.violation(pre + "downstream ran iff the request is permitted by the policy (engine decision seen "
                              "through the adapter differs from the family's expectation: allowed=%r expected %r)"
                              % (es["d"]["allowed"] if es["k"] == "ret" else None, g["expect_allowed"]),
                              case, impl=obs, model=m)
        if g and obs.get("recorded") and es["k"] == "ret" and obs["recorded"][0] != es["d"]:
            chk.corr_break("the engine answered differently inside and outside the middleware for the same request",
                           case, impl=obs["recorded"][0], model=es["d"], theorems=["c20_downstream_iff_engine_allowed"])

        # ---- out-of-domain stream 1: lone surrogates (never an alarm beyond fail-closed)
        if surrogate:
            chk.count("ood:surrogate")
            if cat in ("denied", "builder_fails", "evaluate_raises"):
                if iapps:
                    chk.violation(pre + "downstream invoked although the request was not allowed (lone-surrogate id)",
                                  case, impl=obs, model=m)
                full = len(imsgs) == 2 and imsgs[0][0] == "start" and imsgs[0][1] == 403 \
                    and imsgs[1] == ["body", FORBIDDEN_S]
                if imsgs and not full:
                    chk.violation(pre + "partial / non-generic response for a denial with a lone-surrogate id", case,
                                  impl=obs, model=m)
                if cat == "denied":
                    chk.count("ood:surrogate:" + ("raised_nothing_sent" if not imsgs else "403_sent"))
            elif cat == "allowed" and len(iapps) != 1:
                chk.violation(pre + "downstream not invoked exactly once for an allowed request", case, impl=obs, model=m)
            continue
        # ---- out-of-domain stream 2: str() of a decision field outside the model's str
        if m["end"] == ["ood"]:
            chk.count("ood:str")
            if iapps:
                chk.violation(pre + "downstream invoked although the request was not allowed", case, impl=obs, model=m)
            if not _py_denial_ok(c, es, obs):
                chk.violation(pre + "denial is not the single generic 403 with the documented headers (judged directly; "
                              "str() of a field is outside the model)", case, impl=obs, model=m)
            continue

        # ---- in domain: the model's answer is the only behaviour the theorems allow
        bad = False
        if iapps != mapps:
            bad = True
            clause = {
                "allowed": "enforce/http: downstream must run exactly once, with the scope and the same receive/send, "
                           "when the engine allowed (c20_downstream_iff_allowed)",
                "denied": "enforce/http: downstream must not run when the engine did not allow "
                          "(c20_downstream_iff_allowed)",
                "builder_fails": "env builder failing: downstream must not be invoked (c20_raise_blocks_downstream)",
                "evaluate_raises": "evaluation raising: downstream must not be invoked (c20_raise_blocks_downstream)",
                "passthrough": "non-http scope / mode other than enforce / no builder: exactly one downstream call "
                               "with the same receive/send and the engine attached (c20_passthrough)",
            }[cat]
            chk.violation(pre + clause, case, impl=obs, model=m)
        if imsgs != mmsgs:
            bad = True
            if cat == "denied":
                def fixed_part(msgs):
                    return [[x[0], x[1]] + ([[h for h in x[2] if not str(h[0]).startswith("x-rbacx-")]]
                                            if x[0] == "start" and isinstance(x[2], list) else [])
                            for x in msgs]
                if fixed_part(imsgs) != fixed_part(mmsgs):
                    clause = ("a denial is exactly one http.response.start (status 403, content-type, content-length "
                              "of the body) followed by one http.response.body with the fixed Forbidden document "
                              "(c20_single_generic_403 / c20_body_constant / c20_denial_messages_explicit)")
                else:
                    clause = ("reason / rule id / policy id appear only as X-RBACX-* headers, with the decision's "
                              "values, and only when add_headers is on (c20_ids_only_in_headers_when_enabled)")
            else:
                clause = "nothing may be sent by the middleware unless it denies (c20_passthrough / " \
                         "c20_raise_blocks_downstream / c20_downstream_iff_allowed)"
            chk.violation(pre + clause, case, impl=obs, model=m)
        if obs["scope"] != m["scope"]:
            bad = True
            chk.violation(pre + "the engine is attached to the scope under 'rbacx_guard' and nothing else in the scope "
                          "changes (c20_engine_attached)", case, impl=obs, model=m)
        if not bad:
            if obs["end"] != m["end"]:
                chk.corr_break("how the call ends (returned / exception class propagated)", case, impl=obs["end"],
                               model=m["end"], theorems=["c20_raise_blocks_downstream", "c20_passthrough",
                                                         "c20_single_generic_403"])
            elif obs["events"] != m["events"]:
                chk.corr_break("trace of build_env / evaluate_async calls (order, scope seen by the builder, the four "
                               "objects passed on to evaluate_async, the guard consulted)", case, impl=obs["events"],
                               model=m["events"], theorems=THEOREMS_TRACE)
            elif obs.get("return_value") or obs.get("builder_scope_not_same_object"):
                chk.corr_break("return value / scope object handed to the builder", case,
                               impl={k: obs.get(k) for k in ("return_value", "builder_scope_not_same_object")},
                               model=None, theorems=THEOREMS_TRACE)

    for case, res in zip(cases, results):
        chk.count("fam:" + case.get("fam", "?"))
        chk.count("instances:%d" % len(res["layers"]))
        chk.count("instances_entered:%d" % len(res["units"]))
        if "cache" in res:
            kind = next((sp["gspec"]["cache"] for sp in layer_specs(case) if (sp.get("gspec") or {}).get("cache")), "?")
            chk.count("decision_cache:%s:judged_request:%s" % (
                kind, "hit" if res["cache"]["hits"] else "miss" if res["cache"]["misses"] else "engine_not_consulted"))
        shp = [(l.get("builder") or {}).get("shape") for l in [case] + list(case.get("outer") or [])]
        if any(x in FALSY_SHAPES for x in shp):
            chk.count("falsy_collaborator:builder")
        if any(l.get("guard_shape") for l in [case] + list(case.get("outer") or [])):
            chk.count("falsy_collaborator:guard")
        if any(l.get("app_shape") for l in [case] + list(case.get("outer") or [])):
            chk.count("falsy_collaborator:app")
        if "wire" in res:
            pre_all = [p for sp in layer_specs(case) for p in sp["pre"]]
            chk.count("env:pieces_outside_an_instance:%d" % len(pre_all))
            chk.count("env:pieces_below:%d" % len(case.get("inner") or []))
            chk.count("env:trace_id_middleware_outside:%s" % any(p["k"] == "trace" for p in pre_all))
            chk.count("env:caller_set_request_id:%s" % ("ambient" in case))
        judge_direct(chk, case, res, already=res.get("_filed", False))


# --------------------------------------------------------------------------
# generators
# --------------------------------------------------------------------------
def _scope(t, extra=None):
    sc = {"type": t} if t != "<missing>" else {}
    if t == "http" or t not in ("websocket", "lifespan", "<missing>"):
        sc.update({"asgi": {"version": "3.0"}, "method": "GET", "path": "/doc/1", "query_string": "",
                   "headers": [["host", "example.org"]]})
    elif t == "websocket":
        sc.update({"asgi": {"version": "3.0"}, "path": "/ws", "subprotocols": []})
    elif t == "lifespan":
        sc.update({"asgi": {"version": "3.0"}, "state": {}})
    if extra:
        sc.update(extra)
    return sc


def _dec(allowed, effect, reason=None, rule_id=None, policy_id=None):
    return {"allowed": allowed, "effect": effect, "reason": reason, "rule_id": rule_id, "policy_id": policy_id}


RET4 = {"k": "ret", "n": 4}


def gen_enum_a(chk):
    """complete product over small pools (stub guard)."""
    modes = ["enforce", "inject", "ENFORCE", "audit"]
    types_ = ["http", "websocket", "lifespan", "unknown", "<missing>"]
    builders = [RET4, {"k": "raise", "exc": "RuntimeError"}, None, {"k": "ret", "n": 3}, {"k": "notiter"}]
    evals = [{"k": "ret", "d": _dec(al, ef, re, ru, po)}
             for al in (True, False) for ef in ("permit", "deny") for re in (None, "", "why")
             for ru in (None, "r1") for po in (None, "p1")]
    evals.append({"k": "raise", "exc": "RuntimeError"})
    for mode, ah, t, b, ev in itertools.product(modes, (False, True), types_, builders, evals):
        yield {"fam": "enumA", "mode": mode, "add_headers": ah, "scope": _scope(t), "builder": b, "eval": ev,
               "send_fail": None, "app_exc": None}


def gen_enum_b(chk):
    """failing sends and a raising downstream app, complete product (stub guard)."""
    evals = [{"k": "ret", "d": _dec(True, "permit", "matched", "r1", None)},
             {"k": "ret", "d": _dec(False, "deny", "explicit_deny", "r1", "p1")},
             {"k": "raise", "exc": "LookupError"}]
    for mode, ah, t, b, ev, sf, ae in itertools.product(
            ("enforce", "inject"), (False, True), ("http", "websocket"), (RET4, None), evals,
            (None, [0, "OSError"], [1, "OSError"], [2, "OSError"]), (None, "KeyError", "CancelledError")):
        yield {"fam": "enumB", "mode": mode, "add_headers": ah, "scope": _scope(t), "builder": b, "eval": ev,
               "send_fail": sf, "app_exc": ae}


def gen_enum_c(chk):
    """the enforced path, complete product over a richer decision pool (stub guard)."""
    for ah, al, ef, re, ru, po in itertools.product(
            (False, True), (True, False, 0, 1, "", None), ("permit", "deny"),
            (None, "", "why", "Forbidden", "é\n", 5), (None, "", "r1", "Forbidden", "q\"'"),
            (None, "", "p1", "detail", 0)):
        yield {"fam": "enumC", "mode": "enforce", "add_headers": ah, "scope": {"type": "http", "path": "/"},
               "builder": RET4, "eval": {"k": "ret", "d": _dec(al, ef, re, ru, po)}, "send_fail": None,
               "app_exc": None}


HOSTILE_STR = [
    None, "", "Forbidden", "detail", "no_match", "explicit_deny", "obligation_failed", "é", "日本語-ルール", "r\"1", "it's",
    "line1\nline2", "a\r\nSet-Cookie: x=1", "{\"detail\": \"Forbidden\"}", "\x00", "\x7f", " ", "0", "None", "False",
    "🔒" * 40, "\\u0041", "<script>alert(1)</script>", "%s%n", "\ufeffbom", "ä" * 300,
]
LONG_STR = ["x" * 5000, "Forbidden" * 600, "é" * 3000]
HOSTILE_OTHER = [0, 1, 5, -3, True, False, 1.5, 0.0, [], ["a"], [1, "b"], {}, {"k": 1}, ["é"], 10 ** 30]
ALLOWED_POOL = [True, False, False, False, True, False, False, 0, 1, "", "no", "yes", None, [], [0], 0.0, 2, {}]
MODE_POOL = ["enforce"] * 40 + ["inject", "inject", "ENFORCE", "Enforce", "enforce ", " enforce", "", "audit", "off",
                                None, True, 1, 0, ["enforce"], {"enforce": True}, "enforcé"]
TYPE_POOL = ["http"] * 40 + ["websocket", "websocket", "lifespan", "lifespan", "unknown", "HTTP", "https", "http ",
                            "", "<missing>", None, 1, True, ["http"], {"http": 1}]
BUILDER_POOL = [RET4] * 30 + [None, None, {"k": "raise", "exc": "RuntimeError"}, {"k": "raise", "exc": "KeyError"},
                             {"k": "raise", "exc": "PermissionError"}, {"k": "raise", "exc": "CancelledError"},
                             {"k": "raise", "exc": "VerifBaseExc"}, {"k": "ret", "n": 0}, {"k": "ret", "n": 1},
                             {"k": "ret", "n": 3}, {"k": "ret", "n": 5}, {"k": "ret", "n": 6}, {"k": "notiter"}]


def _hostile_field(rng):
    x = rng.random()
    if x < 0.02:
        return rng.choice(LONG_STR)
    if x < 0.75:
        return rng.choice(HOSTILE_STR)
    if x < 0.9:
        return rng.choice(HOSTILE_OTHER)
    # random text
    n = rng.choice([1, 2, 3, 8, 40])
    return "".join(rng.choice("abc \"'\\\n\tÿ€😀{}:,") for _ in range(n))


def _ph(name):
    return {OBJ: name}


def _rand_eval(rng):
    if rng.random() < 0.12:
        return {"k": "raise", "exc": rng.choice(["RuntimeError", "ValueError", "KeyError", "OSError",
                                                 "CancelledError", "VerifBaseExc", "TypeError"])}
    ev = {"k": "ret", "d": _dec(rng.choice(ALLOWED_POOL), rng.choice(["permit", "deny", "Permit", "", None, 1]),
                                _hostile_field(rng), _hostile_field(rng), _hostile_field(rng))}
    if rng.random() < 0.4:
        ev["d"]["challenge"] = rng.choice(CHALLENGES)
    if rng.random() < 0.1:
        ev["d"]["obligations"] = [{"type": rng.choice(["http_challenge", "require_mfa", "x"]),
                                   "attrs": {"scheme": rng.choice(["Basic", "Bearer", "Digest", "x"])}}]
    if rng.random() < 0.08:
        ev["missing"] = rng.choice([["rule_id"], ["policy_id"], ["rule_id", "policy_id"]])
    return ev


INCOMING_GUARD_POOL = ["stale", None, 0, {"old": True}, ["x"], _ph("guard"), _ph("guard"), _ph("guard"),
                       _ph("other_guard"), _ph("other_guard"), _ph("object")]


def gen_hostile(chk, n):
    rng = chk.rng
    H = header_sets(600)
    for _ in range(n):
        t = rng.choice(TYPE_POOL)
        extra = {}
        if rng.random() < 0.35:
            extra[KEY] = rng.choice(INCOMING_GUARD_POOL)
        if rng.random() < 0.3:
            extra["state"] = {"user": rng.choice(["alice", "bob", "é"]), "n": rng.randint(0, 9)}
        if rng.random() < 0.1:
            extra["rbacx_guard "] = "decoy"
        if rng.random() < 0.05:
            extra[rng.choice(["app", "guard", "rbacx", "extensions"])] = rng.choice(
                [_ph("guard"), _ph("other_guard"), _ph("object")])
        sc = _scope(t if isinstance(t, str) else "http", extra)
        if isinstance(t, str) and t == "http" and rng.random() < 0.4:      # a request of random shape
            sc = _rand_http_scope(rng, H)
            sc.update(extra)
        if not isinstance(t, str):
            sc["type"] = t
        elif rng.random() < 0.01:
            sc["type"] = rng.choice([_ph("guard"), _ph("object")])
        if KEY in sc and rng.random() < 0.3:          # dict order: the key comes first
            sc = {KEY: sc[KEY], **{k: v for k, v in sc.items() if k != KEY}}
        ev = _rand_eval(rng)
        sf = None
        if rng.random() < 0.1:
            sf = [rng.choice([0, 1, 2]), rng.choice(["OSError", "RuntimeError", "CancelledError"])]
        ae = rng.choice(["KeyError", "RuntimeError", "VerifBaseExc"]) if rng.random() < 0.1 else None
        case = {"fam": "hostile", "mode": rng.choice(MODE_POOL), "add_headers": rng.random() < 0.6, "scope": sc,
                "builder": rng.choice(BUILDER_POOL), "eval": ev, "send_fail": sf, "app_exc": ae}
        if rng.random() < 0.12:                       # the instance was constructed differently and reconfigured since
            init = {"how": rng.choice(["setattr", "subclass"])}
            for k, pool in (("mode", ["inject", "enforce", "off", None]), ("builder", [None, RET4]),
                            ("add_headers", [False, True]), ("guard", ["other", "same"])):
                if rng.random() < 0.5:
                    init[k] = rng.choice(pool)
            case["init"] = init
            case["warmup"] = rng.choice([0, 0, 1])
            case["fam"] = "hostile:history"
        if rng.random() < 0.15:                       # the instance sits behind one or two other instances
            outer = []
            for _k in range(rng.choice([1, 1, 1, 2])):
                l = {"mode": rng.choice(["inject", "inject", "enforce", "enforce", rng.choice(MODE_POOL)]),
                     "add_headers": rng.random() < 0.5, "builder": rng.choice(BUILDER_POOL + [None] * 8),
                     "guard": rng.choice(["same", "same", "own"])}
                if l["guard"] == "own":
                    l["eval"] = _rand_eval(rng) if rng.random() < 0.5 else \
                        {"k": "ret", "d": _dec(True, "permit", "matched", "r0", None)}
                outer.append(l)
            case["outer"] = outer
            case["fam"] = "hostile:stacked"
        if rng.random() < 0.1:                        # inside other library pieces / under an ambient request id
            _rand_env(rng, case)
            case["fam"] = "hostile:ambient"
        if rng.random() < 0.08:                       # collaborators that are callable objects, truthy or falsy
            _rand_shapes(rng, case)
            case["fam"] = "hostile:shapes"
        yield case


EV_ALLOW = {"k": "ret", "d": _dec(True, "permit", "matched", "r1", "p1")}
EV_DENY = {"k": "ret", "d": _dec(False, "deny", "explicit_deny", "r2", "p2")}
EV_RAISE = {"k": "raise", "exc": "LookupError"}
B_RAISE = {"k": "raise", "exc": "RuntimeError"}


def gen_incoming_scope(chk):
    """the incoming scope is an input: what it already carries under 'rbacx_guard' (nothing, the very guard object
    the middleware was built with, another guard object, a plain object, None, JSON data), where in the dict, and
    objects under other keys / as the type; complete product (stub guard)."""
    incoming = [_ph("guard"), _ph("other_guard"), _ph("object"), None, "stale", {"old": True}]
    for inc, first, mode, ah, t, b, ev, ae in itertools.product(
            incoming, (False, True), ("enforce", "inject"), (False, True), ("http", "websocket"),
            (RET4, B_RAISE, None, {"k": "ret", "n": 3}), (EV_ALLOW, EV_DENY, EV_RAISE), (None, "KeyError")):
        sc = _scope(t, {KEY: inc})
        if first:
            sc = {KEY: inc, **_scope(t)}
        yield {"fam": "incoming_scope", "mode": mode, "add_headers": ah, "scope": sc, "builder": b, "eval": ev,
               "send_fail": None, "app_exc": ae}
    others = [{"state": _ph("guard")}, {"app": _ph("object"), KEY: _ph("guard")}, {"type": _ph("guard")},
              {"type": _ph("object"), KEY: _ph("guard")}, {"rbacx_guard ": _ph("guard")},
              {"guard": _ph("guard"), "rbacx": _ph("other_guard")}]
    for ex, mode, ah, b, ev in itertools.product(others, ("enforce", "inject"), (False, True), (RET4, B_RAISE, None),
                                                 (EV_ALLOW, EV_DENY, EV_RAISE)):
        yield {"fam": "incoming_scope", "mode": mode, "add_headers": ah, "scope": _scope("http", ex), "builder": b,
               "eval": ev, "send_fail": None, "app_exc": None}


def gen_stacks(chk):
    """stacked deployments: an outer instance wrapping the case's instance — inject or enforce outside, sharing the
    guard object or with its own, with / without / with a failing env builder; enforce or inject inside; plus all
    three-instance stacks over {inject, enforce} x {shared, own guard}; complete product (stub guards)."""
    outers = []
    for mode, b in itertools.product(("inject", "enforce"), (RET4, None, B_RAISE)):
        outers.append({"mode": mode, "add_headers": True, "builder": b, "guard": "same"})
        for ev in (EV_ALLOW, EV_DENY, EV_RAISE):
            outers.append({"mode": mode, "add_headers": False, "builder": b, "guard": "own", "eval": ev})
    for o, mode, b, ev, ah, t, inc in itertools.product(
            outers, ("enforce", "inject"), (RET4, B_RAISE, None), (EV_ALLOW, EV_DENY, EV_RAISE), (False, True),
            ("http", "websocket"), ("absent", _ph("guard"), _ph("other_guard"))):
        yield {"fam": "stack2", "mode": mode, "add_headers": ah, "scope": _scope(t, None if inc == "absent" else {KEY: inc}),
               "builder": b, "eval": ev, "send_fail": None, "app_exc": None, "outer": [dict(o)]}
    for (m0, g0, e0), (m1, g1, e1), m2, e2 in itertools.product(
            list(itertools.product(("inject", "enforce"), ("same", "own"), (EV_ALLOW, EV_DENY))), 
            list(itertools.product(("inject", "enforce"), ("same", "own"), (EV_ALLOW, EV_DENY))),
            ("inject", "enforce"), (EV_ALLOW, EV_DENY, EV_RAISE)):
        if (g0 == "same" and e0 is EV_DENY) or (g1 == "same" and e1 is EV_DENY):
            continue                                  # a shared guard answers as the primary one does: no own script
        outer = []
        for m, g, e in ((m0, g0, e0), (m1, g1, e1)):
            l = {"mode": m, "add_headers": False, "builder": RET4, "guard": g}
            if g == "own":
                l["eval"] = e
            outer.append(l)
        yield {"fam": "stack3", "mode": m2, "add_headers": True, "scope": _scope("http"), "builder": RET4, "eval": e2,
               "send_fail": None, "app_exc": None, "outer": outer}
    # failing sends / raising downstream behind a stack
    for o, ev, sf, ae in itertools.product(
            ({"mode": "inject", "add_headers": False, "builder": None, "guard": "same"},
             {"mode": "enforce", "add_headers": False, "builder": RET4, "guard": "own", "eval": EV_ALLOW}),
            (EV_ALLOW, EV_DENY), (None, [0, "OSError"], [1, "OSError"]), (None, "KeyError", "CancelledError")):
        yield {"fam": "stack2", "mode": "enforce", "add_headers": True, "scope": _scope("http"), "builder": RET4,
               "eval": ev, "send_fail": sf, "app_exc": ae, "outer": [dict(o)]}


# ---- the request's shape: method, headers, path, query string, ... (all ignored by the model)
MISSING = "<missing>"
USUAL_HEADERS = [(b"host", b"example.org"), (b"user-agent", b"curl/8.5.0"), (b"accept", b"*/*"),
                 (b"accept-encoding", b"gzip, deflate"), (b"connection", b"keep-alive")]
METHODS = ["GET", "POST", "PUT", "PATCH", "DELETE", "HEAD", "OPTIONS", "TRACE", "CONNECT", "get", "options", "Options",
           "BREW", "", MISSING]
CORS_NAMES = [b"origin", b"access-control-request-method", b"access-control-request-headers"]
CORS_VALUES = {b"origin": b"https://evil.example", b"access-control-request-method": b"DELETE",
               b"access-control-request-headers": b"authorization, x-user"}


def _bj(x):
    return {BYT: x.decode("latin-1") if isinstance(x, bytes) else x}


def _hdrs(pairs, as_lists=False):
    return [[_bj(k), _bj(v)] if as_lists else {TUP: [_bj(k), _bj(v)]} for k, v in pairs]


def _title(name: bytes) -> bytes:
    return b"-".join(p.capitalize() for p in name.split(b"-"))


def header_sets(long_n=600):
    """name -> header list (pairs of bytes) | MISSING | None."""
    H = {"empty": [], "usual": list(USUAL_HEADERS), "missing": MISSING, "none": None}
    for mask in range(1, 8):
        names = [n for i, n in enumerate(CORS_NAMES) if mask >> i & 1]
        for cname, f in (("lower", lambda b: b), ("title", _title), ("upper", bytes.upper)):
            H["cors%d_%s" % (mask, cname)] = USUAL_HEADERS[:2] + [(f(n), CORS_VALUES[n]) for n in names]
    H["cors_only"] = [(b"origin", b"null"), (b"access-control-request-method", b"GET")]
    H["cors_first_reversed"] = [(b"access-control-request-method", b"POST"), (b"origin", b"https://a.example")] \
        + USUAL_HEADERS
    H["cors_empty_values"] = USUAL_HEADERS[:1] + [(b"origin", b""), (b"access-control-request-method", b"")]
    H["cors_mixed_case"] = USUAL_HEADERS[:1] + [(b"oRiGiN", b"https://a.example"),
                                                 (b"Access-Control-Request-METHOD", b"PUT")]
    H["cors_dup_origin"] = USUAL_HEADERS[:1] + [(b"origin", b"https://a.example"), (b"origin", b"https://b.example"),
                                                 (b"access-control-request-method", b"GET")]
    H["authorization"] = USUAL_HEADERS + [(b"authorization", b"Bearer eyJhbGciOiJub25lIn0.e30.")]
    H["authorization_basic_dup"] = USUAL_HEADERS[:1] + [(b"authorization", b"Basic YWRtaW46YWRtaW4="),
                                                         (b"authorization", b"Bearer x")]
    H["cookie"] = USUAL_HEADERS + [(b"cookie", b"session=abc123; admin=true")]
    H["forwarded"] = USUAL_HEADERS + [(b"x-forwarded-for", b"127.0.0.1"), (b"x-forwarded-proto", b"https"),
                                      (b"x-forwarded-host", b"internal.example"), (b"x-real-ip", b"10.0.0.1"),
                                      (b"forwarded", b"for=127.0.0.1;proto=https")]
    H["x_rbacx"] = USUAL_HEADERS[:1] + [(b"x-rbacx-reason", b"matched"), (b"x-rbacx-rule", b"r1"),
                                        (b"x-rbacx-policy", b"p1"), (b"x-rbacx-allowed", b"true"),
                                        (b"x-rbacx-bypass", b"1")]
    H["x_user_admin"] = USUAL_HEADERS[:1] + [(b"x-user", b"admin"), (b"x-role", b"admin"), (b"x-internal", b"1")]
    H["dup_host"] = [(b"host", b"example.org"), (b"host", b"localhost")]
    H["upgrade_websocket"] = USUAL_HEADERS[:1] + [(b"connection", b"Upgrade"), (b"upgrade", b"websocket"),
                                                  (b"sec-websocket-key", b"dGhlIHNhbXBsZSBub25jZQ=="),
                                                  (b"sec-websocket-version", b"13")]
    H["method_override"] = USUAL_HEADERS[:1] + [(b"x-http-method-override", b"OPTIONS"), (b"x-http-method", b"GET")]
    H["health_probe"] = [(b"host", b"10.0.0.5:8000"), (b"user-agent", b"kube-probe/1.29")]
    H["content"] = USUAL_HEADERS[:1] + [(b"content-type", b"application/json"), (b"content-length", b"0"),
                                        (b"transfer-encoding", b"chunked"), (b"expect", b"100-continue")]
    H["very_long"] = USUAL_HEADERS[:1] + [(b"cookie", b"a=" + b"x" * long_n)]
    H["many"] = [(b"x-h%d" % i, b"v%d" % i) for i in range(40)]
    H["non_latin_bytes"] = USUAL_HEADERS[:1] + [(b"x-name", "é日本語".encode("utf-8")), (b"x-bin", bytes([255, 254, 0, 128])),
                                                (b"x-\xff", b"\x00")]
    return H


def http_scope(method="GET", headers=USUAL_HEADERS, path="/doc/1", query=b"", as_lists=False, **over):
    """an http scope as an ASGI server builds it (bytes / tuples where the spec has them)."""
    sc = {"type": "http", "asgi": {"version": "3.0", "spec_version": "2.3"}, "http_version": "1.1", "method": method,
          "scheme": "http", "path": path, "raw_path": _bj(path.encode("utf-8")), "query_string": _bj(query),
          "root_path": "", "headers": None if headers is None else MISSING if headers == MISSING
          else _hdrs(headers, as_lists), "client": {TUP: ["127.0.0.1", 50432]}, "server": {TUP: ["testserver", 80]}}
    sc.update(over)
    return {k: v for k, v in sc.items() if not (isinstance(v, str) and v == MISSING)}


PATHS = ["/", "/doc/1", "/health", "/healthz", "/ready", "/metrics", "/static/app.js", "/favicon.ico", "/robots.txt",
         "/.well-known/security.txt", "/.well-known/openid-configuration", "/docs", "/openapi.json", "/admin/../doc/1",
         "/doc/1/..", "//doc//1", "/doc/%2e%2e/admin", "/doc/1;jsessionid=1", "/doc/é", "*", ""]
QUERIES = [b"", b"a=1", b"rbacx=off", b"skip_auth=1&debug=true", b"access_token=x", b"%00",
           "q=é".encode("utf-8"), b"?", b"method=OPTIONS"]
# (builder, evaluation, add_headers): the engine refuses / allows / raises, the builder raises
OUTCOMES = None


def _outcomes():
    return [(RET4, EV_DENY, False), (RET4, EV_DENY, True), (RET4, EV_ALLOW, False), (RET4, EV_RAISE, False),
            (B_RAISE, EV_ALLOW, False)]


def gen_request_shapes(chk):
    """http scopes over the request's shape — every method x every header set, then paths x query strings x a few
    methods, then root_path x scheme x http_version x client/server — each crossed with a refusing / allowing /
    raising engine and a raising builder (stub guard; complete product); a smaller product over the real Guard."""
    quick = chk.tier == "quick"
    long_n = 600 if quick else 6000
    H = header_sets(long_n)
    paths = PATHS + ["/" + "a" * long_n]
    queries = QUERIES + [b"a=" + b"b" * long_n]
    for m, (hname, h), (b, ev, ah) in itertools.product(METHODS, H.items(), _outcomes()):
        yield {"fam": "request_shape:method_x_headers", "mode": "enforce", "add_headers": ah,
               "scope": http_scope(m, h, as_lists=hname.endswith("title")), "builder": b, "eval": ev, "send_fail": None,
               "app_exc": None}
    for m, hname, mode in itertools.product(("GET", "OPTIONS"), ("usual", "cors3_lower", "authorization"),
                                            ("inject", "ENFORCE")):
        yield {"fam": "request_shape:method_x_headers", "mode": mode, "add_headers": True,
               "scope": http_scope(m, H[hname]), "builder": RET4, "eval": EV_DENY, "send_fail": None, "app_exc": None}
    shapes3 = (("GET", "usual"), ("OPTIONS", "cors3_lower"), ("POST", "authorization"))
    if quick:       # paths and query strings one at a time, the full product only for the preflight-shaped request
        pq = [(p, b"", mh, o) for p, mh, o in itertools.product(paths, shapes3, _outcomes())] \
            + [("/doc/1", q, mh, o) for q, mh, o in itertools.product(queries[1:], shapes3, _outcomes())] \
            + [(p, q, shapes3[1], o) for p, q, o in itertools.product(paths, queries[1:], (_outcomes()[0], _outcomes()[4]))]
    else:
        pq = list(itertools.product(paths, queries, shapes3, _outcomes()))
    for p, q, (m, hname), (b, ev, ah) in pq:
        yield {"fam": "request_shape:path_x_query", "mode": "enforce", "add_headers": ah,
               "scope": http_scope(m, H[hname], path=p, query=q), "builder": b, "eval": ev, "send_fail": None,
               "app_exc": None}
    clients = [{TUP: ["127.0.0.1", 50432]}, None, MISSING, ["::1", 0], {TUP: ["10.0.0.1", 443]}, {TUP: ["unix", None]}]
    for rp, sch, hv, cl, (b, ev, ah) in itertools.product(
            ("", "/api", MISSING), ("http", "https", "ws", MISSING), ("1.0", "1.1", "2", "3", MISSING), clients,
            (_outcomes()[0], _outcomes()[2], _outcomes()[4]) if quick else _outcomes()):
        over = {"root_path": rp, "scheme": sch, "http_version": hv, "client": cl}
        if cl is None:
            over["server"] = None
        elif cl == MISSING:
            over["server"] = MISSING
        yield {"fam": "request_shape:transport", "mode": "enforce", "add_headers": ah,
               "scope": http_scope("GET", **over), "builder": b, "eval": ev, "send_fail": None, "app_exc": None}
    # extension keys an ASGI server / framework may add
    for ex, (b, ev, ah) in itertools.product(
            ({"extensions": {"http.response.push": {}, "tls": {"tls_version": 772}}}, {"state": {"authenticated": True}},
             {"user": "admin", "auth": ["authenticated"]}, {"path_params": {"id": "1"}, "route": "/doc/{id}"},
             {"raw_path": MISSING, "query_string": MISSING}, {"asgi": MISSING}, {"method": None}, {"headers": {TUP: []}},
             {"path": None, "raw_path": None}), _outcomes()):
        sc = http_scope("GET")
        sc.update(ex)
        sc = {k: v for k, v in sc.items() if not (isinstance(v, str) and v == MISSING)}
        yield {"fam": "request_shape:extensions", "mode": "enforce", "add_headers": ah,
               "scope": sc, "builder": b, "eval": ev, "send_fail": None, "app_exc": None}
    P = guard_policies()
    for pname, rname, m, hname, b in itertools.product(
            ("permit", "deny", "mfa", "set_mfa", "no_rules"), REQUESTS, ("GET", "OPTIONS", "HEAD", "options"),
            ("usual", "cors3_lower", "cors3_title", "cors_only", "authorization"), (RET4, B_RAISE)):
        pol, exp = P[pname]
        yield {"fam": "request_shape:guard:" + pname, "mode": "enforce", "add_headers": True,
               "scope": http_scope(m, H[hname], path="/admin"), "builder": b,
               "guard": {"policy": pol, "request": REQUESTS[rname], "expect_allowed": exp[rname]},
               "eval": None, "send_fail": None, "app_exc": None}


def _rand_http_scope(rng, H):
    """a random request shape: every field drawn independently."""
    hs = H[rng.choice(list(H))]
    if isinstance(hs, list) and rng.random() < 0.5:
        hs = list(hs)
        for _ in range(rng.choice([1, 1, 2, 3])):     # sprinkle extra headers in random case at random positions
            n = rng.choice(CORS_NAMES + [b"authorization", b"cookie", b"x-forwarded-for", b"upgrade", b"x-rbacx-rule",
                                         b"host", b"x-user"])
            n = rng.choice([n, _title(n), n.upper()])
            hs.insert(rng.randint(0, len(hs)), (n, rng.choice([b"", b"x", b"websocket", b"GET", b"https://a.example"])))
        rng.shuffle(hs)
    over = {}
    if rng.random() < 0.3:
        over["root_path"] = rng.choice(["", "/api", "/v1/", MISSING])
    if rng.random() < 0.3:
        over["scheme"] = rng.choice(["http", "https", "ws", "wss", MISSING])
    if rng.random() < 0.3:
        over["http_version"] = rng.choice(["1.0", "1.1", "2", "3", MISSING])
    if rng.random() < 0.3:
        over["client"] = rng.choice([None, MISSING, {TUP: ["10.0.0.1", 443]}, ["::1", 0]])
    if rng.random() < 0.1:
        over["state"] = {"authenticated": True, "user": rng.choice(["admin", "é"])}
    m = rng.choice(METHODS + ["OPTIONS"] * 6 + ["GET", "POST"] * 3)
    p, q = rng.choice(PATHS), rng.choice(QUERIES)
    if rng.random() < 0.02:
        p = "/" + "a" * rng.choice([300, 2000])
    if rng.random() < 0.02:
        q = b"a=" + b"b" * rng.choice([300, 3000])
    return http_scope(m, hs, path=p, query=q, as_lists=rng.random() < 0.3, **over)


# ---- histories: constructed, reconfigured through the public attributes, then the request
def gen_histories(chk):
    """[construct(mode, builder, add_headers, guard); reassign the public attributes — by plain assignment on the
    instance or in a subclass __init__ after super().__init__() —; (optionally a request before the reassignment);
    request]: the request must be served as by a fresh instance with the CURRENT attribute values (the case's own
    mode / builder / add_headers / guard; "init" holds the values at construction).  Complete product (stub guard)."""
    inits = [{"mode": m, "builder": b, "add_headers": ah, "guard": g}
             for m, b, ah, g in itertools.product(("enforce", "inject"), (None, RET4), (False, True), ("same", "other"))]
    for init, how, warm, mode, b, ah, ev in itertools.product(
            inits, ("setattr", "subclass"), (0, 1), ("enforce", "inject"), (RET4, None, B_RAISE), (False, True),
            (EV_ALLOW, EV_DENY, EV_RAISE)):
        yield {"fam": "history", "mode": mode, "add_headers": ah, "scope": _scope("http"), "builder": b, "eval": ev,
               "send_fail": None, "app_exc": None, "init": dict(init, how=how), "warmup": warm}
    # one attribute at a time, other scope types, a reconfigured instance inside / outside a stack
    for init, t, ev in itertools.product(
            ({"mode": "inject"}, {"mode": "enforce"}, {"builder": None}, {"builder": RET4}, {"add_headers": False},
             {"add_headers": True}, {"guard": "other"}, {"mode": "off", "builder": None}),
            ("http", "websocket"), (EV_ALLOW, EV_DENY, EV_RAISE)):
        for mode, b in (("enforce", RET4), ("inject", RET4), ("enforce", None), ("enforce", B_RAISE)):
            yield {"fam": "history", "mode": mode, "add_headers": True, "scope": _scope(t), "builder": b, "eval": ev,
                   "send_fail": None, "app_exc": None, "init": dict(init, how="setattr"), "warmup": 0}
    for oinit, iinit, ev in itertools.product(
            (None, {"mode": "enforce", "builder": RET4, "how": "setattr"}, {"mode": "inject", "how": "subclass"}),
            (None, {"mode": "inject", "builder": None, "how": "setattr"}, {"mode": "enforce", "builder": RET4, "how": "subclass"}),
            (EV_ALLOW, EV_DENY)):
        for omode, imode in itertools.product(("inject", "enforce"), repeat=2):
            o = {"mode": omode, "add_headers": False, "builder": RET4, "guard": "own", "eval": EV_ALLOW}
            if oinit:
                o["init"] = oinit
            c = {"fam": "history:stacked", "mode": imode, "add_headers": True, "scope": _scope("http"), "builder": RET4,
                 "eval": ev, "send_fail": None, "app_exc": None, "outer": [o]}
            if iinit:
                c["init"] = iinit
            yield c


def gen_guard_histories(chk):
    """the same over the real Guard: inject / builder-less at construction, enforcing at the request, and back."""
    P = guard_policies()
    for (pname, (pol, exp)), rname, (init, mode, b), how in itertools.product(
            P.items(), REQUESTS,
            (({"mode": "inject"}, "enforce", RET4), ({"builder": None}, "enforce", RET4),
             ({"mode": "inject", "builder": None, "guard": "other"}, "enforce", RET4),
             ({"mode": "enforce", "builder": RET4}, "inject", RET4), ({"builder": None}, "enforce", B_RAISE)),
            ("setattr", "subclass")):
        yield {"fam": "guard_history:" + pname, "mode": mode, "add_headers": True, "scope": _scope("http"), "builder": b,
               "guard": {"policy": pol, "request": REQUESTS[rname], "expect_allowed": exp[rname]},
               "eval": None, "send_fail": None, "app_exc": None, "init": dict(init, how=how), "warmup": 0}


# ---- Decision.challenge / Decision.obligations (not read by the middleware, not in the model's decision)
CHALLENGES = [None, "mfa", "step_up", "consent", "tos", "captcha", "reauth", "age_verification", "http_basic", "http_bearer",
              "http_digest", "http_auth", "Basic", "Bearer realm=\"x\"", "HTTP_BASIC", "custom:otp", "", "negotiate", 1,
              True, ["http_basic"]]


def gen_challenges(chk):
    """stub decisions over every documented challenge value (and custom / ill-typed ones) x allowed x add_headers x
    reason x obligations attached; complete product."""
    obls = [None, [{"type": "http_challenge", "attrs": {"scheme": "Basic"}}], [{"type": "require_mfa"}]]
    for ch, al, ah, (re, ru, po), ob in itertools.product(
            CHALLENGES, (False, True), (False, True),
            (("obligation_failed", "r1", None), ("obligation_failed", "r1", "p1"), (None, None, None)), obls):
        d = _dec(al, "permit" if al else "deny", re, ru, po)
        d["challenge"] = ch
        if ob is not None:
            d["obligations"] = ob
        yield {"fam": "challenge", "mode": "enforce", "add_headers": ah, "scope": _scope("http"), "builder": RET4,
               "eval": {"k": "ret", "d": d}, "send_fail": None, "app_exc": None}


def obligation_policies():
    """name -> (obligation list of the permitting rule, allowed for an empty context)."""
    O = {"require_mfa": ([{"type": "require_mfa"}], False),
         "require_level": ([{"type": "require_level", "attrs": {"min": 2}}], False),
         "require_consent": ([{"type": "require_consent"}], False),
         "require_consent_key": ([{"type": "require_consent", "attrs": {"key": "marketing"}}], False),
         "require_terms_accept": ([{"type": "require_terms_accept"}], False),
         "require_captcha": ([{"type": "require_captcha"}], False),
         "require_reauth": ([{"type": "require_reauth", "attrs": {"max_age": 300}}], False),
         "require_age_verified": ([{"type": "require_age_verified"}], False),
         "unknown_type": ([{"type": "log_access"}], True),
         "on_deny_only": ([{"type": "http_challenge", "on": "deny", "attrs": {"scheme": "Basic"}}], True)}
    for sch in ("Basic", "Bearer", "Digest", "basic", "BEARER", "Negotiate", "", None):
        O["http_challenge_%s" % sch] = ([{"type": "http_challenge", "attrs": {} if sch is None else {"scheme": sch}}], False)
    O["http_challenge_explicit_on_permit"] = ([{"type": "http_challenge", "on": "permit", "attrs": {"scheme": "Digest"}}], False)
    O["mfa_then_http"] = ([{"type": "require_mfa"}, {"type": "http_challenge", "attrs": {"scheme": "Bearer"}}], False)
    return O


def gen_guard_challenges(chk):
    """the real Guard over policies (and policy sets) whose permitting rule carries each documented obligation, unmet:
    the engine's Decision has every documented challenge value; x add_headers x algorithm / set; complete product."""
    for (oname, (obl, exp)), ah, shape in itertools.product(obligation_policies().items(), (False, True),
                                                            ("rules", "set", "deny_rule_too")):
        r = _rule("ob", "permit", obligations=obl)
        if shape == "rules":
            pol = {"algorithm": "permit-overrides", "rules": [r]}
        elif shape == "set":
            pol = {"algorithm": "permit-overrides", "policies": [{"id": "pol-ob", "algorithm": "first-applicable",
                                                                   "rules": [r]}]}
        else:
            pol = {"algorithm": "permit-overrides",
                   "rules": [_rule("d", "deny", obligations=[{"type": "http_challenge", "on": "deny",
                                                              "attrs": {"scheme": "Basic"}}]), r]}
        yield {"fam": "guard_challenge:" + oname, "mode": "enforce", "add_headers": ah, "scope": _scope("http"),
               "builder": RET4, "guard": {"policy": pol, "request": REQUESTS["read"], "expect_allowed": exp},
               "eval": None, "send_fail": None, "app_exc": None}


# ---- the middleware inside the library's other ASGI pieces / under ambient request state
TRACE, ACCESSLOG = {"k": "trace"}, {"k": "accesslog"}
TRACE_CORR = {"k": "trace", "header": "X-Correlation-ID"}
TRACEPARENT = b"00-4bf92f3577b34da6a3ce929d0e0e4736-00f067aa0ba902b7-01"


def env_shapes():
    """name -> (pieces directly outside the instance, outermost first; pieces between the instance and the
    application): TraceIdMiddleware (asgi_logging.py) and AccessLogMiddleware (asgi_accesslog.py) in both nesting
    orders, doubled, with a custom header name, inside instead of outside, and none at all (ambient state only)."""
    return {
        "trace>mw": ([TRACE], []), "accesslog>mw": ([ACCESSLOG], []),
        "trace>accesslog>mw": ([TRACE, ACCESSLOG], []), "accesslog>trace>mw": ([ACCESSLOG, TRACE], []),
        "trace>trace>mw": ([TRACE, TRACE], []), "trace(corr)>mw": ([TRACE_CORR], []),
        "trace>trace(corr)>mw": ([TRACE, TRACE_CORR], []),
        "mw>trace": ([], [TRACE]), "mw>accesslog": ([], [ACCESSLOG]), "mw>trace>accesslog": ([], [TRACE, ACCESSLOG]),
        "trace>mw>trace": ([TRACE], [TRACE]), "accesslog>mw>trace": ([ACCESSLOG], [TRACE]),
        "trace>accesslog>mw>accesslog": ([TRACE, ACCESSLOG], [ACCESSLOG]),
        "mw": ([], []),
    }


def inbound_id_headers(long_n=600):
    """name -> request header list: with / without an inbound request id (X-Request-ID in several spellings and with
    hostile values, W3C traceparent, both, a custom correlation header)."""
    U = USUAL_HEADERS[:2]
    return {
        "none": list(U),
        "x-request-id": U + [(b"x-request-id", b"req-42")],
        "X-Request-ID": U + [(b"X-Request-ID", b"REQ-43")],
        "traceparent": U + [(b"traceparent", TRACEPARENT)],
        "traceparent+x-request-id": U + [(b"traceparent", TRACEPARENT), (b"x-request-id", b"req-44")],
        "x-request-id:empty": U + [(b"x-request-id", b"")],
        "x-request-id:json": U + [(b"x-request-id", b'", "detail": "OK", "x": "')],
        "x-request-id:Forbidden": U + [(b"x-request-id", b"Forbidden")],
        "x-request-id:bytes": U + [(b"x-request-id", b"\xff\x00\r\nset-cookie: a=b")],
        "x-request-id:long": U + [(b"x-request-id", b"r" * long_n)],
        "x-correlation-id": U + [(b"x-correlation-id", b"corr-7"), (b"x-request-id", b"req-45")],
        "headers-missing": MISSING,
    }


AMBIENT_IDS = [None, "amb-1", "", "é\"\n}"]


def _env_case(fam, pre, inner, amb, headers, b, ev, ah, mode="enforce", t="http", **kw):
    sc = http_scope("GET", headers) if t == "http" else _scope(t, None if headers == MISSING else {"headers": _hdrs(headers)})
    c = {"fam": fam, "mode": mode, "add_headers": ah, "scope": sc, "builder": b, "eval": ev, "send_fail": None,
         "app_exc": None}
    if pre:
        c["pre"] = [dict(p) for p in pre]
    if inner:
        c["inner"] = [dict(p) for p in inner]
    if amb is not None:
        c["ambient"] = {"trace_id": amb}
    c.update(kw)
    return c


def gen_ambient(chk):
    """the middleware as one piece of an ASGI stack built from the library's own pieces, and under ambient request
    state: 14 stack shapes x 12 inbound header lists x a request id set by the caller through
    rbacx.logging.context {not set, set, empty, hostile} x {deny, deny+headers, allow, engine raises, builder raises}
    (stub guard; thorough: complete product; quick: complete for "not set", the caller's ids on two header lists); the shapes again under inject / other mode spellings / websocket, with a failing
    send / a raising application; two instances of the middleware with pieces outside, between and below them."""
    quick = chk.tier == "quick"
    S, IN = env_shapes(), inbound_id_headers(600 if quick else 6000)
    if quick:       # every shape x every inbound list with nothing set by the caller; the caller's ids on two lists
        prod = itertools.chain(
            itertools.product(S.items(), IN.items(), (None,), _outcomes()),
            itertools.product(S.items(), [(k, IN[k]) for k in ("none", "x-request-id")], AMBIENT_IDS[1:], _outcomes()[:3]))
    else:
        prod = itertools.product(S.items(), IN.items(), AMBIENT_IDS, _outcomes())
    for (sname, (pre, inner)), (hname, h), amb, (b, ev, ah) in prod:
        if sname == "mw" and amb is None:
            continue                                  # nothing ambient at all: the other families
        yield _env_case("ambient:" + sname, pre, inner, amb, h, b, ev, ah)
    for (sname, (pre, inner)), (mode, t), amb, ev in itertools.product(
            S.items(), (("inject", "http"), ("ENFORCE", "http"), ("enforce", "websocket"), ("enforce", "lifespan")),
            (None, "amb-1"), (EV_DENY, EV_RAISE)):
        yield _env_case("ambient:" + sname, pre, inner, amb, IN["x-request-id"], RET4, ev, True, mode=mode, t=t)
    for (sname, (pre, inner)), ev, sf, ae in itertools.product(
            S.items(), (EV_ALLOW, EV_DENY), (None, [0, "OSError"], [1, "OSError"]), (None, "KeyError", "CancelledError")):
        if sf is None and ae is None:
            continue
        yield _env_case("ambient:faults", pre, inner, "amb-1" if sname == "mw" else None, IN["x-request-id"], RET4, ev,
                        True, send_fail=sf, app_exc=ae)
    # two instances: pieces outside the outer one, between the two, below the inner one
    outers = ({"mode": "inject", "add_headers": False, "builder": None, "guard": "same"},
              {"mode": "enforce", "add_headers": True, "builder": RET4, "guard": "own", "eval": EV_ALLOW},
              {"mode": "enforce", "add_headers": True, "builder": RET4, "guard": "own", "eval": EV_DENY})
    places = ((1, 0, 0), (0, 1, 0), (1, 1, 0), (0, 0, 1), (1, 1, 1))
    for o, (po, pb, pi), pieces, ev, ah, hname in itertools.product(
            outers, places, ([TRACE], [ACCESSLOG], [TRACE, ACCESSLOG]), (EV_ALLOW, EV_DENY), (False, True),
            ("none", "x-request-id")):
        o = dict(o)
        if po:
            o["pre"] = [dict(p) for p in pieces]
        yield _env_case("ambient:stack2", pieces if pb else None, pieces if pi else None, None, IN[hname], RET4, ev, ah,
                        outer=[o])


def gen_guard_ambient(chk):
    """the same over the real Guard: 14 policies / policy sets x 3 requests x add_headers x {TraceIdMiddleware outside;
    TraceIdMiddleware > AccessLogMiddleware outside; request id set by the caller only} x inbound X-Request-ID."""
    P, IN = guard_policies(), inbound_id_headers()
    shapes = (([TRACE], [], None), ([TRACE, ACCESSLOG], [], None), ([], [], "amb-1"), ([ACCESSLOG], [TRACE], "amb-2"))
    for (pname, (pol, exp)), rname, ah, (pre, inner, amb), hname in itertools.product(
            P.items(), REQUESTS, (False, True), shapes, ("x-request-id",) if chk.tier == "quick" else ("none", "x-request-id")):
        c = _env_case("guard_ambient:" + pname, pre, inner, amb, IN[hname], RET4, None, ah)
        c["guard"] = {"policy": pol, "request": REQUESTS[rname], "expect_allowed": exp[rname]}
        yield c


def _rand_env(rng, case):
    """random pieces around the instances of a case, a random ambient request id, an inbound id header."""
    pool = [TRACE, TRACE, ACCESSLOG, TRACE_CORR]
    pre = [dict(rng.choice(pool)) for _ in range(rng.choice([0, 1, 1, 1, 2, 3]))]
    inner = [dict(rng.choice(pool)) for _ in range(rng.choice([0, 0, 0, 1, 2]))]
    if pre:
        case["pre"] = pre
    if inner:
        case["inner"] = inner
    for l in case.get("outer") or []:
        if rng.random() < 0.5:
            l["pre"] = [dict(rng.choice(pool)) for _ in range(rng.choice([1, 1, 2]))]
    if rng.random() < 0.35 or not (pre or inner):
        case["ambient"] = {"trace_id": rng.choice(AMBIENT_IDS[1:] + ["amb-%d" % rng.randint(0, 99), _hostile_field_str(rng)])}
    hs = case["scope"].get("headers")
    if isinstance(hs, list) and rng.random() < 0.7:
        name = rng.choice([b"x-request-id", b"X-Request-Id", b"X-REQUEST-ID", b"traceparent", b"x-correlation-id"])
        val = rng.choice([b"req-%d" % rng.randint(0, 999), b"", TRACEPARENT, b"Forbidden", b'"}', b"\xe9\xff"])
        as_lists = bool(hs) and isinstance(hs[0], list)
        case["scope"] = dict(case["scope"], headers=list(hs))
        case["scope"]["headers"].insert(rng.randint(0, len(hs)), _hdrs([(name, val)], as_lists)[0])


def _hostile_field_str(rng):
    for _ in range(20):
        v = _hostile_field(rng)
        if isinstance(v, str) and len(v) < 400:
            return v
    return "amb"


# ---- collaborators that are falsy as Python objects but work; Guards with decision caches, requests sent twice
def gen_collab_shapes(chk):
    """the collaborators' Python shape is not an input of the model.  Env builders: plain function, functools.partial,
    bound method, non-empty dict subclass with __call__ (truthy) and — falsy as objects — an EMPTY dict / list
    subclass with __call__, an object with __len__ == 0, an object with __bool__ False; sync, and `async def`
    (the caller gets a coroutine: the four objects cannot be unpacked); x {returns, raises, returns None} x {allow,
    deny, raise} x mode x add_headers x scope type.  Guards that are falsy objects (subclass with __bool__ False /
    __len__ 0) and wrapped applications that are falsy callables, crossed with falsy builders; the same in an outer
    instance of a stack; the real Guard (plain / falsy subclass) x falsy builders over the policy family."""
    quick = chk.tier == "quick"
    kinds = (RET4, B_RAISE, {"k": "notiter"}, {"k": "ret", "n": 4, "async": True})
    for sh, kb, ev, mode, ah, t in itertools.product(TRUTHY_SHAPES + FALSY_SHAPES, kinds, (EV_ALLOW, EV_DENY, EV_RAISE),
                                                    ("enforce", "inject"), (True,) if quick else (False, True),
                                                    ("http", "websocket")):
        yield {"fam": "shape:builder:" + sh, "mode": mode, "add_headers": ah, "scope": _scope(t),
               "builder": dict(kb, shape=sh), "eval": ev, "send_fail": None, "app_exc": None}
    for gs, as_, bs, ev, mode in itertools.product((None, "boolfalse", "len0"), (None, "boolfalse", "len0", "dict_call"),
                                                   ("function", "dict_call", "boolfalse"), (EV_ALLOW, EV_DENY, EV_RAISE),
                                                   ("enforce", "inject")):
        if gs is None and as_ is None:
            continue
        c = {"fam": "shape:guard_app", "mode": mode, "add_headers": True, "scope": _scope("http"),
             "builder": dict(RET4, shape=bs), "eval": ev, "send_fail": None, "app_exc": None}
        if gs:
            c["guard_shape"] = gs
        if as_:
            c["app_shape"] = as_
        yield c
    for osh, ogs, oev, ish, ev, oas in itertools.product(FALSY_SHAPES, (None, "boolfalse"), (EV_ALLOW, EV_DENY),
                                                       ("function", "len0"), (EV_ALLOW, EV_DENY), (None, "len0")):
        o = {"mode": "enforce", "add_headers": True, "builder": dict(RET4, shape=osh), "guard": "own", "eval": oev}
        if ogs:
            o["guard_shape"] = ogs
        if oas:
            o["app_shape"] = oas
        yield {"fam": "shape:stack2", "mode": "enforce", "add_headers": False, "scope": _scope("http"),
               "builder": dict(RET4, shape=ish), "eval": ev, "send_fail": None, "app_exc": None, "outer": [o]}
    P = guard_policies()
    for k, ((pname, (pol, exp)), rname, sh, gs) in enumerate(itertools.product(
            P.items(), REQUESTS, FALSY_SHAPES[::2] + FALSY_SHAPES[1::2], (None, "boolfalse", "len0"))):
        if quick and k % 3:
            continue
        c = {"fam": "shape:guard:" + pname, "mode": "enforce", "add_headers": True, "scope": _scope("http"),
             "builder": dict(RET4, shape=sh),
             "guard": {"policy": pol, "request": REQUESTS[rname], "expect_allowed": exp[rname]},
             "eval": None, "send_fail": None, "app_exc": None}
        if gs:
            c["guard_shape"] = gs
        yield c


def gen_guard_cache(chk):
    """the real Guard with a decision cache of each kind (built-in LRU, dict-backed, deep copies on get, read-only
    views on get, pickles) x 14 policies / policy sets (permits with met and unmet obligations, denies, no match) x 3
    requests x the request judged after 0 / 1 (/ 2) identical requests through the same middleware (miss, then hit);
    every obligation type unmet x cache kind, judged on the hit; a stack of two enforcing instances sharing the cached
    Guard (the inner evaluation is the hit).  The engine's reference answer comes from a cache-less Guard."""
    quick = chk.tier == "quick"
    P = guard_policies()
    for (pname, (pol, exp)), rname, kind, warm, ah in itertools.product(
            P.items(), REQUESTS, CACHE_KINDS, (0, 1) if quick else (0, 1, 2), (True,) if quick else (False, True)):
        yield {"fam": "guard_cache:" + kind, "mode": "enforce", "add_headers": ah, "scope": _scope("http"), "builder": RET4,
               "guard": {"policy": pol, "request": REQUESTS[rname], "expect_allowed": exp[rname], "cache": kind},
               "eval": None, "send_fail": None, "app_exc": None, "warmup": warm}
    for (oname, (obl, exp)), kind, shape in itertools.product(obligation_policies().items(), CACHE_KINDS, ("rules", "set")):
        r = _rule("ob", "permit", obligations=obl)
        pol = {"algorithm": "permit-overrides", "rules": [r]} if shape == "rules" else \
            {"algorithm": "permit-overrides", "policies": [{"id": "pol-ob", "algorithm": "first-applicable", "rules": [r]}]}
        yield {"fam": "guard_cache:obligation:" + kind, "mode": "enforce", "add_headers": shape == "set",
               "scope": _scope("http"), "builder": RET4,
               "guard": {"policy": pol, "request": REQUESTS["read"], "expect_allowed": exp, "cache": kind},
               "eval": None, "send_fail": None, "app_exc": None, "warmup": 1}
    for k, ((pname, (pol, exp)), rname, kind) in enumerate(itertools.product(P.items(), REQUESTS, CACHE_KINDS)):
        if quick and k % 3:
            continue
        yield {"fam": "guard_cache:stack2:" + kind, "mode": "enforce", "add_headers": True, "scope": _scope("http"),
               "builder": RET4,
               "guard": {"policy": pol, "request": REQUESTS[rname], "expect_allowed": exp[rname], "cache": kind},
               "eval": None, "send_fail": None, "app_exc": None,
               "outer": [{"mode": "enforce", "add_headers": False, "builder": RET4, "guard": "same",
                          "expect_allowed": exp[rname]}]}


def with_caches(chk, cases):
    """the other families that drive a real Guard through the middleware, again with a decision cache: a copy of the
    case whose Guard has a cache and which was preceded by one identical request (judged on the hit).  Thorough: every
    such case (whose own instance consults its engine) x every kind; quick: every 3rd case, kinds in rotation.  Cases with a history of reconfiguration keep
    their own meaning of "warmup" and are left alone."""
    quick = chk.tier == "quick"
    k = 0
    for c in cases:
        if not c.get("guard") or c["guard"].get("cache") or c.get("init") or c.get("warmup") \
                or c.get("fam", "").startswith("ood") or not py_checked(c) or _category(c, EV_ALLOW) != "allowed":
            continue                                  # (only where the case's own instance consults its engine)
        k += 1
        if quick and k % 3:
            continue
        for kind in ([CACHE_KINDS[(k // 3) % len(CACHE_KINDS)]] if quick else CACHE_KINDS):
            d = json.loads(json.dumps(c))
            d["guard"]["cache"] = kind
            d["warmup"] = 1
            d["fam"] = "cached:" + c.get("fam", "?").split(":")[0]
            yield d


def _rand_shapes(rng, case):
    """random Python shapes for the collaborators of a case (its own instance and the outer ones)."""
    pool = TRUTHY_SHAPES + FALSY_SHAPES * 2
    for l in [case] + list(case.get("outer") or []):
        if l.get("builder") is not None and rng.random() < 0.8:
            l["builder"] = dict(l["builder"], shape=rng.choice(pool))
            if l["builder"]["k"] == "ret" and l["builder"].get("n", 4) == 4 and rng.random() < 0.1:
                l["builder"]["async"] = True
        if rng.random() < 0.3 and (l is case or l.get("guard") == "own"):
            l["guard_shape"] = rng.choice(["boolfalse", "len0"])
        if rng.random() < 0.3:
            l["app_shape"] = rng.choice(FALSY_SHAPES)


# ---- the real Guard over a family of small policies
def _rule(rid, effect, action="read", **kw):
    r = {"id": rid, "effect": effect, "actions": [action], "resource": {"type": "doc"}}
    r.update(kw)
    return r


def guard_policies():
    """name -> (policy, expectation: request name -> allowed)."""
    P = {}
    P["permit"] = ({"algorithm": "deny-overrides", "rules": [_rule("r1", "permit")]},
                   {"read": True, "read_ctx": True, "write": False})
    P["deny"] = ({"algorithm": "deny-overrides", "rules": [_rule("r1", "deny")]},
                 {"read": False, "read_ctx": False, "write": False})
    P["no_rules"] = ({"rules": []}, {"read": False, "read_ctx": False, "write": False})
    P["permit_and_deny"] = ({"algorithm": "deny-overrides", "rules": [_rule("p", "permit"), _rule("d", "deny")]},
                            {"read": False, "read_ctx": False, "write": False})
    P["first_applicable"] = ({"algorithm": "first-applicable", "rules": [_rule("p", "permit"), _rule("d", "deny")]},
                             {"read": True, "read_ctx": True, "write": False})
    P["mfa"] = ({"algorithm": "permit-overrides", "rules": [_rule("m", "permit", obligations=[{"type": "require_mfa"}])]},
                {"read": False, "read_ctx": True, "write": False})
    P["level"] = ({"algorithm": "permit-overrides",
                   "rules": [_rule("l", "permit", obligations=[{"type": "require_level", "attrs": {"min": 2}}])]},
                  {"read": False, "read_ctx": True, "write": False})
    P["reauth"] = ({"rules": [_rule("ra", "permit", obligations=[{"type": "require_reauth", "attrs": {"max_age": 300}}])]},
                   {"read": False, "read_ctx": True, "write": False})
    P["cond"] = ({"algorithm": "deny-overrides",
                  "rules": [_rule("c", "permit", condition={"<": [{"attr": "context.n"}, 5]})]},
                 {"read": False, "read_ctx": True, "write": False})
    P["cond_mismatch"] = ({"algorithm": "deny-overrides",
                           "rules": [_rule("c", "permit", condition={"<": [{"attr": "context.mfa"}, "x"]})]},
                          {"read": False, "read_ctx": False, "write": False})
    P["set_deny_overrides"] = ({"algorithm": "deny-overrides", "policies": [
        {"id": "p1", "algorithm": "permit-overrides", "rules": [_rule("a", "permit")]},
        {"id": "p2", "rules": [_rule("b", "deny")]}]}, {"read": False, "read_ctx": False, "write": False})
    P["set_permit_overrides"] = ({"algorithm": "permit-overrides", "policies": [
        {"id": "p1", "algorithm": "permit-overrides", "rules": [_rule("a", "permit")]},
        {"id": "p2", "rules": [_rule("b", "deny")]}]}, {"read": True, "read_ctx": True, "write": False})
    P["set_mfa"] = ({"algorithm": "permit-overrides", "policies": [
        {"id": "pol-mfa", "algorithm": "permit-overrides",
         "rules": [_rule("m", "permit", obligations=[{"type": "require_mfa"}])]},
        {"id": "pol-w", "rules": [_rule("w", "permit", "write")]}]}, {"read": False, "read_ctx": True, "write": True})
    P["set_nomatch"] = ({"algorithm": "deny-overrides", "policies": [
        {"id": "p1", "rules": [_rule("a", "permit", "delete")]}]}, {"read": False, "read_ctx": False, "write": False})
    return P


REQUESTS = {
    "read": {"action": "read", "context": {}},
    "read_ctx": {"action": "read", "context": {"mfa": True, "n": 3, "auth_level": 3, "reauth_age_seconds": 10}},
    "write": {"action": "write", "context": {}},
}


def gen_guard_enum(chk):
    P = guard_policies()
    builders = [RET4, {"k": "raise", "exc": "RuntimeError"}, None]
    for (pname, (pol, exp)), rname, mode, ah, t, b in itertools.product(
            P.items(), REQUESTS, ("enforce", "inject"), (False, True), ("http", "websocket", "lifespan"), builders):
        yield {"fam": "guard:" + pname, "mode": mode, "add_headers": ah, "scope": _scope(t), "builder": b,
               "guard": {"policy": pol, "request": REQUESTS[rname], "expect_allowed": exp[rname]},
               "eval": None, "send_fail": None, "app_exc": None}


def gen_guard_stacks(chk):
    """stacked deployments over the real Guard: the same Guard object shared by an inject-mode (or enforce-mode) root
    instance and the enforcing instance of a sub-application; another Guard object over the same policy / over a
    permitting / a denying policy outside; enforce wrapping inject; complete product over the policy family."""
    P = guard_policies()
    permit, deny = P["permit"][0], P["deny"][0]
    for (pname, (pol, exp)), rname in itertools.product(P.items(), REQUESTS):
        req = REQUESTS[rname]
        shapes = [
            [{"mode": "inject", "builder": None, "guard": "same"}],
            [{"mode": "inject", "builder": RET4, "guard": "same"}],
            [{"mode": "inject", "builder": None, "guard": "own", "gspec": {"policy": pol, "request": req}}],
            [{"mode": "enforce", "builder": None, "guard": "same"}],
            [{"mode": "enforce", "builder": RET4, "guard": "same", "expect_allowed": exp[rname]}],
            [{"mode": "enforce", "builder": RET4, "guard": "own", "gspec": {"policy": permit, "request": REQUESTS["read"]},
              "expect_allowed": True}],
            [{"mode": "enforce", "builder": RET4, "guard": "own", "gspec": {"policy": deny, "request": REQUESTS["read"]},
              "expect_allowed": False}],
            [{"mode": "inject", "builder": None, "guard": "own", "gspec": {"policy": deny, "request": req}},
             {"mode": "inject", "builder": None, "guard": "same"}],
        ]
        for shape, mode, (b, ah) in itertools.product(shapes, ("enforce", "inject"),
                                                      ((RET4, False), (RET4, True), (B_RAISE, False))):
            outer = [dict(l, add_headers=ah) for l in shape]
            yield {"fam": "guard_stack:" + pname, "mode": mode, "add_headers": ah, "scope": _scope("http"), "builder": b,
                   "guard": {"policy": pol, "request": req, "expect_allowed": exp[rname]},
                   "eval": None, "send_fail": None, "app_exc": None, "outer": outer}
        # a single instance whose incoming scope already carries its own Guard object / another Guard object
        for inc, mode, b, ah in itertools.product((_ph("guard"), _ph("other_guard")), ("enforce", "inject"),
                                                  (RET4, B_RAISE), (False, True)):
            yield {"fam": "guard_incoming:" + pname, "mode": mode, "add_headers": ah, "scope": _scope("http", {KEY: inc}),
                   "builder": b, "guard": {"policy": pol, "request": req, "expect_allowed": exp[rname]},
                   "eval": None, "send_fail": None, "app_exc": None}


def gen_guard_hostile(chk, n):
    """real Guard, policies whose rule ids / policy ids are hostile strings."""
    rng = chk.rng
    ids = [s for s in HOSTILE_STR if isinstance(s, str) and s != ""]
    for _ in range(n):
        rid, pid = rng.choice(ids), rng.choice(ids)
        kind = rng.choice(["deny", "mfa", "permit", "nomatch"])
        if kind == "deny":
            rules, exp = [_rule(rid, "deny")], False
        elif kind == "mfa":
            rules, exp = [_rule(rid, "permit", obligations=[{"type": "require_mfa"}])], False
        elif kind == "permit":
            rules, exp = [_rule(rid, "permit")], True
        else:
            rules, exp = [_rule(rid, "permit", "delete")], False
        if rng.random() < 0.6:
            pol = {"algorithm": "deny-overrides", "policies": [{"id": pid, "algorithm": "permit-overrides",
                                                                  "rules": rules}]}
        else:
            pol = {"algorithm": "permit-overrides", "rules": rules}
        yield {"fam": "guard:hostile_ids", "mode": rng.choice(["enforce"] * 5 + ["inject"]),
               "add_headers": rng.random() < 0.7, "scope": _scope(rng.choice(["http"] * 5 + ["websocket"])),
               "builder": rng.choice([RET4] * 6 + [{"k": "raise", "exc": "KeyError"}, None]),
               "guard": {"policy": pol, "request": REQUESTS["read"], "expect_allowed": exp},
               "eval": None, "send_fail": None, "app_exc": None}


def gen_ood_surrogate(chk):
    """small out-of-domain stream: lone surrogates in ids (counted, fail-closed asserted, never an alarm otherwise)."""
    sur = ["\ud800", "a\udfffb", "\udc80rule"]
    for s, ah, field in itertools.product(sur, (False, True), ("reason", "rule_id", "policy_id")):
        d = _dec(False, "deny", "explicit_deny", "r1", None)
        d[field] = s
        yield {"fam": "ood:surrogate", "mode": "enforce", "add_headers": ah, "scope": _scope("http"), "builder": RET4,
               "eval": {"k": "ret", "d": d}, "send_fail": None, "app_exc": None}
    for s, ah in itertools.product(sur, (False, True)):
        pol = {"algorithm": "deny-overrides", "rules": [_rule(s, "deny")]}
        yield {"fam": "ood:surrogate", "mode": "enforce", "add_headers": ah, "scope": _scope("http"), "builder": RET4,
               "guard": {"policy": pol, "request": REQUESTS["read"], "expect_allowed": False},
               "eval": None, "send_fail": None, "app_exc": None}
    d = _dec(True, "permit", "\ud800", "\ud800", "\ud800")
    yield {"fam": "ood:surrogate", "mode": "enforce", "add_headers": True, "scope": _scope("http"), "builder": RET4,
           "eval": {"k": "ret", "d": d}, "send_fail": None, "app_exc": None}


def extraction_crosscheck(chk, lines, answers):
    """re-evaluate a deterministic sample of wire lines inside Coq (vm_compute on AsgiRun.run_line) and require the
    extracted OCaml runner's answers; a difference is a broken trusted component (reported as a correspondence break)."""
    n = 40 if chk.tier == "quick" else 300
    short = [i for i, l in enumerate(lines) if len(l) < 4000]
    if not short:
        return
    stepi = max(1, len(short) // n)
    idx = short[::stepi][:n]
    tmp = tempfile.mkdtemp(prefix="c20x_")
    try:
        src = ["From Coq Require Import String.", "From Rbacx Require Import AsgiRun.", "Local Open Scope string_scope."]
        for i in idx:
            assert '"' not in lines[i]
            src.append('Eval vm_compute in (run_line "%s").' % lines[i])
        with open(os.path.join(tmp, "cases_C20.v"), "w") as f:
            f.write("\n".join(src) + "\n")
        r = subprocess.run(["coqc", "-Q", str(lib.COQ / "theories"), "Rbacx", "cases_C20.v"], cwd=tmp,
                           capture_output=True, text=True, timeout=600)
        got = re.findall(r'=\s*"([^"]*)"\s*:\s*string', r.stdout)
        got = [re.sub(r"\s+", " ", g) for g in got]
        bad = [i for i, g in zip(idx, got) if g != answers[i]]
        chk.extra["extraction_crosscheck"] = {"cases": len(idx), "evaluated_in_coq": len(got), "mismatches": len(bad)}
        if r.returncode != 0 or len(got) != len(idx) or bad:
            chk.corr_break("extracted OCaml runner vs vm_compute of AsgiRun.run_line inside Coq (trusted component)",
                           {"line": lines[bad[0]] if bad else None, "coqc_rc": r.returncode, "stderr": r.stderr[-500:]},
                           impl=answers[bad[0]] if bad else None, model=got[idx.index(bad[0])] if bad else None,
                           theorems=["all of props/C20.v (the runner no longer computes the proved model)"])
    finally:
        shutil.rmtree(tmp, ignore_errors=True)


def corpus_cases():
    out = []
    d = lib.VERIF / "corpus" / "C20"
    if d.is_dir():
        for f in sorted(d.glob("*.json")):
            data = json.loads(f.read_text())
            for c in (data["cases"] if "cases" in data else [data]):
                c = lib.unjson(c["case"] if "case" in c else c)
                c.setdefault("fam", "corpus:" + f.stem)
                out.append(c)
    return out


def run(chk):
    chk.rule = ("one evaluated case = one `await middleware(scope, receive, send)` of one middleware instance (a stacked "
                "case gives one per instance entered); enumerated completely: mode "
                "{enforce, inject, ENFORCE, audit} x add_headers x scope type {http, websocket, lifespan, unknown, "
                "missing} x builder {ok, raising, absent, 3 objects, not iterable} x 49 evaluation outcomes (allowed x "
                "effect x reason x rule id x policy id, raising) with a stub guard; failing-send x raising-downstream "
                "product; the enforced path over allowed {True, False, 0, 1, '', None} x effect x 6 reasons x 5 rule ids "
                "x 5 policy ids x add_headers; the real Guard over 14 policies/policy sets x 3 requests x mode x add_headers x scope type x "
                "builder; the incoming scope's 'rbacx_guard' {the middleware's own guard object, another guard object, a "
                "plain object, None, JSON data} x position in the dict x mode x add_headers x scope type x builder x "
                "{allow, deny, raise} x raising downstream, and objects under other keys / as the type; stacked "
                "deployments: an outer instance {inject, enforce} x {same guard object, own guard allowing / denying / "
                "raising} x builder {ok, absent, raising} around an inner instance {enforce, inject} x builder x {allow, "
                "deny, raise} x add_headers x scope type x incoming 'rbacx_guard' {absent, own, other}; all three-instance "
                "stacks over {inject, enforce} x {same, own guard}; the real Guard shared by / distinct in 8 stack shapes x "
                "14 policies x 3 requests x inner mode x builder; the request's shape with realistic ASGI scopes (bytes "
                "headers): 15 methods (GET..CONNECT, lower case, unknown, empty, missing) x 43 header lists (empty, "
                "missing, None, usual, the three CORS preflight headers in every combination x lower/Title/UPPER case, "
                "reversed / duplicated / empty-valued / mixed case, Authorization, Cookie, X-Forwarded-*, X-RBACX-*, "
                "X-User, duplicate Host, Upgrade: websocket, method override, probe, content, very long, 40 headers, "
                "non-latin bytes) x {deny, deny+headers, allow, engine raises, builder raises}; 24 paths (health, "
                "static, well-known, docs, '..', encoded, '*', empty, very long) and 10 query strings x 3 request shapes "
                "x outcomes (quick: one at a time + full product for the preflight-shaped request; thorough: full "
                "product); root_path x scheme x http_version x client/server x outcomes; extension keys; 5 policies x 3 "
                "requests x 4 methods x 5 header lists x builder over the real Guard; histories [construct with mode x builder x add_headers x guard (16); "
                "reassign by plain assignment / in a subclass __init__; optional request in between; request under mode x "
                "builder x add_headers x {allow, deny, raise}] (2304), single-attribute reassignments x scope type, "
                "reconfigured instances inside / outside a stack, and 14 policies x 3 requests x 5 histories x 2 ways over "
                "the real Guard; 21 Decision.challenge values (every documented one, custom, ill-typed) x allowed x "
                "add_headers x ids x obligations attached, and the real Guard over 20 obligation policies (every "
                "documented obligation type unmet; http_challenge with 8 schemes) x add_headers x 3 policy shapes; "
                "the middleware inside the library's other ASGI pieces and under ambient request state: 14 stack shapes "
                "(TraceIdMiddleware / AccessLogMiddleware outside in both orders, doubled, custom header name, below the "
                "middleware, both sides, none) x 12 inbound header lists (X-Request-ID in 3 spellings / empty / hostile / "
                "long, traceparent, both, correlation header, no headers) x request id set by the caller via "
                "rbacx.logging.context {unset, set, empty, hostile} x {deny, deny+headers, allow, engine raises, builder "
                "raises}, the shapes under inject / ENFORCE / websocket / lifespan and with failing send / raising "
                "application, two instances with pieces outside / between / below, 14 policies x 3 requests x add_headers "
                "x 4 shapes x inbound id over the real Guard — messages observed at the middleware's own boundary; "
                "collaborators by Python shape: env builders {function, partial, bound method, non-empty dict subclass with "
                "__call__, EMPTY dict / list subclass with __call__, __len__ == 0, __bool__ False} x {returns, raises, "
                "returns None, async def} x {allow, deny, raise} x mode x scope type, falsy guard objects x falsy wrapped "
                "applications x falsy builders, the same in an outer instance, real Guard (plain / falsy subclass) x falsy "
                "builders x 14 policies x 3 requests; the real Guard with a decision cache {built-in LRU, dict-backed, deep "
                "copies, read-only views, pickles} x 14 policies x 3 requests x judged after 0 / 1 (/ 2) identical requests "
                "(miss, hit), 20 obligation policies x cache kind x 2 policy shapes on the hit, two enforcing instances "
                "sharing the cached Guard, and cached copies (one identical request before) of the other real-Guard "
                "families' enforcing cases; "
                "then seeded random hostile decisions (non-ASCII, "
                "quotes, CR/LF, 5000 chars, the word "
                "Forbidden, None, non-strings, truthy/falsy non-bool `allowed`), hostile modes/scope types, stale or "
                "object-valued 'rbacx_guard' keys, random request shapes (method, shuffled header lists with extra CORS / auth "
                "headers in random case, path, query, transport fields), random outer instances, and real-Guard policies with hostile "
                "rule/policy ids. non-trivial = the access "
                "check applies (http + enforce + builder) or a denying/raising collaborator is configured behind a "
                "pass-through; distinct = distinct (case content, instance)")
    chk.assumptions = [
        "strings are well-formed Unicode text: lone surrogates in reason / rule id / policy id are outside the "
        "modelled domain (DESIGN 3.1); with add_headers on the implementation raises UnicodeEncodeError for them "
        "(c20_403_unencodable); that stream is only checked for fail-closed behaviour",
        "str() of non-string decision fields is modelled for None/bool/int/float/printable-ASCII containers "
        "(Value.py_str); other values are judged directly in Python (bucket ood:str)",
        "awaiting is sequential composition; receive/send/downstream are called on the caller's task",
        "the model reads only scope['type'] and writes only scope['rbacx_guard']: method, path, raw_path, query_string, "
        "headers, root_path, scheme, http_version, client, server, extensions, state and every other entry are data it "
        "passes through unchanged, and no theorem of props/C20.v has a hypothesis about them — any dependence of the "
        "implementation's enforcement decision on the request's shape is therefore a deviation (families "
        "request_shape:*, random shapes in hostile); the model did not need to change for these families",
        "Decision.challenge and Decision.obligations are not fields of the model's decision (asgi.py reads allowed, "
        "reason, rule_id, policy_id only): a denial is the same 403 whatever they hold (families challenge, "
        "guard_challenge:*); an instance is its four public attributes guard / mode / build_env / add_headers at the "
        "time of the call — the model has no other instance state, so a request after reassigning them is judged "
        "with the current values (families history, guard_history:*)",
        "bytes objects and tuples in the scope (headers, query_string, raw_path, client, server) are given to the model "
        "under an injective JSON encoding ({\"$b\": latin-1 text}, {\"$t\": [...]}), so an in-place change of them is "
        "still seen as a changed scope",
        "scope values are such data or, at the top level of the dict, opaque objects (the "
        "middleware's own guard object, another guard object, a plain object) told apart by identity; objects "
        "nested inside JSON containers are not generated",
        "the model's inputs are the instance's configuration, the scope, and what its collaborators do: it has no "
        "ambient input (context variables such as rbacx.logging.context's request id, set by TraceIdMiddleware outside "
        "or by the caller) and no notion of what wraps it, so the same answer is required under every such environment "
        "(families ambient:*, guard_ambient:*, hostile:ambient); messages are observed where they leave the instance "
        "(a recording shim between it and the piece outside it), so the headers the outer pieces add on the way out "
        "(TraceIdMiddleware: its request-id header) are not part of the observation; the model did not change",
        "the collaborators' Python shape is not an input of the model: a builder is 'configured' iff it is not None, "
        "whatever its truth value as an object (empty container with __call__, __len__ == 0, __bool__ False), likewise "
        "for guard objects and the wrapped application; an `async def` builder hands the middleware a coroutine, from "
        "which the four objects cannot be unpacked — modelled as the builder result that is not iterable (TypeError, "
        "downstream not run) (families shape:*, hostile:shapes)",
        "a Guard with a decision cache must answer a repeated request as a cache-less Guard over the same policy does "
        "(the reference decision handed to the model is computed by such a Guard); caches: built-in LRU, dict-backed, "
        "deep copies on get, read-only MappingProxyType views of the stored entry on get, pickles; each case builds a "
        "fresh Guard and cache, so a replay is self-contained (families guard_cache:*, cached:*)",
        "a stacked deployment is judged instance by instance: the model is a single instance, its downstream's "
        "behaviour (exception class) is taken from what the next instance was observed to do; the end-to-end reading "
        "(judge_direct) does not use the model",
    ]
    corp = corpus_cases()
    chk.extra["corpus_cases"] = len(corp)
    if corp:
        check_cases(chk, corp)
    quick = chk.tier == "quick"
    cases = (list(gen_enum_a(chk)) + list(gen_enum_b(chk)) + list(gen_enum_c(chk)) + list(gen_guard_enum(chk))
             + list(gen_incoming_scope(chk)) + list(gen_stacks(chk)) + list(gen_guard_stacks(chk))
             + list(gen_request_shapes(chk)) + list(gen_histories(chk)) + list(gen_guard_histories(chk))
             + list(gen_challenges(chk)) + list(gen_guard_challenges(chk))
             + list(gen_ambient(chk)) + list(gen_guard_ambient(chk))
             + list(gen_collab_shapes(chk)) + list(gen_guard_cache(chk))
             + list(gen_ood_surrogate(chk)))
    cases += list(with_caches(chk, cases))
    chk.exhaustive = True
    cases += list(gen_hostile(chk, 8000 if quick else 150000))
    cases += list(gen_guard_hostile(chk, 800 if quick else 12000))
    step = 20000
    for i in range(0, len(cases), step):
        check_cases(chk, cases[i:i + step])
    chk.notes.append(
        "out-of-domain stream (lone surrogates in reason / rule id / policy id): %d cases, of which %d denials with "
        "add_headers on: fails closed: exception (UnicodeEncodeError), nothing sent, downstream not run; %d denials "
        "answered with the normal 403; by design this stream raises an alarm only if downstream is invoked or a "
        "partial response is sent" % (chk.dist.get("ood:surrogate", 0),
                                      chk.dist.get("ood:surrogate:raised_nothing_sent", 0),
                                      chk.dist.get("ood:surrogate:403_sent", 0)))
