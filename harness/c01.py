"""C01 — deny by default: no permit without an applicable, satisfied permit rule.

Per case the implementation's Decision is judged directly against facts computed by the model
for every rule of the (nested) policy (engine.facts: applicable? effect? obligations verdict?):
allowed=True requires an applicable non-deny rule whose obligations are exactly the returned ones
and are not refused by the built-in checker (c01_no_spurious_permit); allowed iff effect == permit;
no applicable rule => deny.  The whole Decision is also compared with the model's (engine.eval):
a difference there, with the property intact, is broken correspondence."""
import enggen
import lib


def gen_cases(chk):
    quick = chk.tier == "quick"
    cases = enggen.pattern_cases(chk, 3 if quick else 4)
    cases += enggen.set_cases(chk)
    cases += enggen.role_order_cases()
    cases += enggen.time_mode_cases()
    cases += enggen.random_cases(chk, 1500 if quick else 20000)
    return cases


def judge(chk, c, impl, model, facts, replay=False):
    for tag, d in enggen.warm_decisions(impl):
        if isinstance(d, list):
            continue  # raising is C06's business
        if (d["allowed"] is True) != (d["effect"] == "permit") or d["effect"] not in ("permit", "deny") \
                or not isinstance(d["allowed"], bool):
            chk.violation("allowed is not (effect == 'permit')", c, impl=d, model=model)
            return False
        if isinstance(facts, list) and facts and facts[0] in ("Ood",):
            continue
        if isinstance(facts, list) and d["allowed"]:
            ok = False
            for rid, eff, outcome, verdict, obls in facts:
                if outcome == "applies" and eff is not None and eff != "deny" and obls == d["obligations"]:
                    if not (verdict[0] == "Ok" and verdict[1] is False):
                        ok = True
                        break
            if not ok:
                chk.violation("allowed=True but no applicable permit rule with these obligations satisfied "
                              "(c01_no_spurious_permit)%s" % tag, c, impl=d,
                              model={"facts": facts, "model_decision": model})
                return False
    return True


def check_cases(chk, cases, replay=False):
    impls = enggen.run_impl(cases)
    models = enggen.run_model(cases, impls, "engine.eval")
    facts = enggen.run_model(cases, impls, "engine.facts")
    by_entry = {"engine.eval": models, "engine.facts": facts}
    for k in enggen.retry_unknown_with_sync_table(cases, impls, by_entry):
        chk.count("model_table_from_sync_checker")
    for c, i, m, f in zip(cases, impls, models, facts):
        chk.count("fam:" + c.get("fam", "?"))
        d0 = i["decisions"][0]
        nontriv = isinstance(f, list) and f and f[0] not in ("Ood",) and any(isinstance(x, list) and x[2] == "applies" for x in f)
        chk.mark(repr((c["policy"], c["req"], c.get("strict"), c.get("resolver"), c.get("checker"), c.get("cache"))), bool(nontriv))
        chk.count("impl:" + ("raise" if isinstance(d0, list) else "%s/%s" % (d0["effect"], d0["reason"])))
        chk.sample({"policy": c["policy"], "req": c["req"], "strict": c.get("strict"), "impl": d0, "model": m}, every=997)
        if m == ["Ood"] or f == ["Ood"]:
            chk.count("ood")
            continue
        if m == ["UnknownRelQuery"] or f == ["UnknownRelQuery"]:
            chk.corr_break("the model asks a relationship query the implementation never made", c, impl=i["tables"][0], model=m,
                           theorems=["c01_no_spurious_permit", "C13"])
            continue
        if not judge(chk, c, i, m, f):
            continue
        for tag, d in enggen.warm_decisions(i):
            dm = m if isinstance(m, dict) else ["Raise"]
            dd = d if isinstance(d, dict) else ["Raise"]
            if dd != dm:
                chk.corr_break("Decision differs from the model Engine.guard_eval%s" % tag,
                               c, impl=d, model=m, theorems=["c01_no_spurious_permit", "c01_nothing_applies_denies"])
                break


def corpus_cases():
    import json
    out = []
    for f in sorted((lib.VERIF / "corpus" / "C01").glob("*.json")):
        for c in json.loads(f.read_text())["cases"]:
            out.append(lib.unjson(c))
    return out


def run(chk):
    chk.rule = ("through Guard.evaluate_async: every rule-outcome pattern (applicable / action, resource, condition "
                "mismatch / ill-typed condition) x effect up to length 3 (thorough 4) x 3 algorithms, with obligations; "
                "every set of <= 2 children over 12 child policies x algorithms; seeded random rich policies (nested "
                "sets, wildcards, list types, conditions incl. rel, obligations) x hostile requests x lax/strict x role "
                "resolver (static/raising) x relationship checker (sync/async/raising/none) x cache on/off (second "
                "evaluation = hit). non-trivial = some rule of the policy is applicable; distinct = distinct "
                "(policy, request, configuration)")
    chk.assumptions = ["single top-level policies name their algorithm (the compiler's default differs: open finding F12, judged by C17)"]
    check_cases(chk, corpus_cases() + gen_cases(chk))
