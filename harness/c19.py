"""C19 — audit log redaction, sampling and size bound.

Correspondence between the extracted Coq model (coq/theories/Redact.v, runner
"redact") and the implementation imported from /repo/src:

  int   builtin int() on the index text of a `name[i]` segment vs Redact.py_int
        (fixes the model's declared domain of int())
  set   enforcer._set_by_path(obj, path, value) vs Redact.set_segs . parse_path
  apply enforcer.apply_obligations(payload, obligations, in_place=...) vs
        Redact.apply_obligations: result, raise, the caller's payload afterwards, identity
  log   DecisionLogger(**kwargs).log(payload) with a capturing logging handler and a
        scripted random.random vs Redact.log: dropped/emitted, draws consumed, the exact
        message (JSON and text rendering of the model's dict), the debug trace of the
        fallback branch, the caller's env object afterwards
  deep  property-only cases outside the model (Python recursion limit)
  guardlog  the real Guard(policy, logger_sink=DecisionLogger(**kwargs)), one sequential evaluation per site (cold / cache hit;
        evaluate_sync, evaluate_async, evaluate_sync under a running loop) vs the composition AuditRedact.eval_logged = (Engine.guard_eval,
        Redact.log c (audit_fields env d) u size): the Decision (engine.eval; with and without the logger), the payload handed to the
        sink (Engine.audit_payload), the record / drop / draws / caller-env effect (the clauses of `log`), the record's decision fields
  conc  ONE DecisionLogger shared by 2-3 threads (directly, and as the sink of one Guard used through
        evaluate_sync from several threads) whose emissions overlap in every order, and re-entered from its own
        handler / filter (a collaborator that logs a decision while a record is being emitted): the multiset of
        records reaching the destination logger vs the multiset of Redact.log's records of the calls; gates
        (threading.Condition), no sleeps; a watchdog turns a hang into a note, never into a verdict

The property is judged on the implementation's output: secret absent from the record
whenever the hypotheses of c19_secret_gone hold (computed by the model's verified
predicate Redact.secret_hyps), caller env untouched when not in place, sampling and size
clauses, priority; a bare model/implementation difference is a correspondence break.
"""
import collections
import copy
import itertools
import json
import logging
import threading
from datetime import datetime as _datetime

import lib

TOKEN = "S3CR3Tq7Zx"
BIG_INDEX = 64          # lists are grown to idx+1 items: keep indices small


# --------------------------------------------------------------------------
# implementation side
# --------------------------------------------------------------------------
class _Capture(logging.Handler):
    def __init__(self):
        super().__init__(level=1)
        self.records = []

    def emit(self, record):
        self.records.append((record.levelno, record.getMessage()))


class _ScriptedRandom:
    """stands in for the `random` module inside decision_logger"""

    def __init__(self, u):
        self.u, self.calls = u, 0

    def random(self):
        self.calls += 1
        return self.u


_LOGGER_NAME = "rbacx.audit.c19check"


class _LoggingOn:
    """lib disables logging globally; the capture needs it enabled."""

    def __enter__(self):
        self.prev = logging.root.manager.disable
        logging.disable(logging.NOTSET)
        lg = logging.getLogger(_LOGGER_NAME)
        lg.setLevel(1)
        lg.propagate = False
        self.h = _Capture()
        lg.handlers[:] = [self.h]
        return self.h

    def __exit__(self, *a):
        logging.getLogger(_LOGGER_NAME).handlers[:] = []
        logging.disable(self.prev)


def _ids(env):
    return {k: id(v) for k, v in env.items()} if isinstance(env, dict) else None


def impl_log(case, cap, fresh_payload=None):
    import rbacx.logging.decision_logger as dlmod

    payload = copy.deepcopy(case["payload"]) if fresh_payload is None else fresh_payload
    env_obj = payload.get("env") if isinstance(payload, dict) else None
    before_ids = _ids(env_obj)
    kwargs = copy.deepcopy(case["kwargs"])
    fake = _ScriptedRandom(case["u"])
    real = dlmod.random
    dlmod.random = fake
    cap.records.clear()
    out = {}
    try:
        dl = dlmod.DecisionLogger(logger_name=_LOGGER_NAME, level=logging.INFO, **kwargs)
        dl.log(payload)
    except RecursionError as e:
        out["raised"] = type(e).__name__
    except Exception as e:  # noqa: BLE001
        out["raised"] = type(e).__name__ + ": " + str(e)[:80]
    finally:
        dlmod.random = real
    msgs = [m for lv, m in cap.records if lv == logging.INFO]
    dbg = [m for lv, m in cap.records if lv == logging.DEBUG]
    out.update(draws=fake.calls, msgs=msgs, debug=dbg, payload_after=payload,
               env_same_object=(payload.get("env") is env_obj) if isinstance(payload, dict) else None,
               top_ids_same=(_ids(payload.get("env")) == before_ids) if isinstance(payload, dict) else None)
    return out


def impl_set(case):
    from rbacx.obligations.enforcer import _set_by_path

    obj = copy.deepcopy(case["obj"])
    try:
        r = _set_by_path(obj, case["path"], case["value"])
        return {"obj": obj, "ret": r}
    except Exception as e:  # noqa: BLE001
        return {"raised": type(e).__name__, "obj": obj}


def impl_apply(case):
    from rbacx.obligations.enforcer import apply_obligations

    payload = copy.deepcopy(case["payload"])
    obs = copy.deepcopy(case["obligations"])
    kids = {k: id(v) for k, v in payload.items()}
    try:
        out = apply_obligations(payload, obs, in_place=case["in_place"])
        return {"out": out, "same": out is payload, "after": payload,
                "kids_same": all(id(payload.get(k)) == i for k, i in kids.items()) if not case["in_place"] else None,
                "obs_same": obs == case["obligations"]}
    except Exception as e:  # noqa: BLE001
        return {"raised": type(e).__name__, "after": payload}


def impl_int(s):
    try:
        return ["ok", int(s)]
    except ValueError:
        return ["bad"]


# --------------------------------------------------------------------------
# helpers
# --------------------------------------------------------------------------
def render(safe, as_json):
    return json.dumps(safe, ensure_ascii=False) if as_json else f"decision {safe}"


def json_size(env):
    try:
        return len(json.dumps(env, ensure_ascii=False).encode("utf-8"))
    except Exception:  # noqa: BLE001
        return None


def same(a, b):
    """deep equality that tells True from 1 from 1.0 and keeps dict order (NaN equals NaN)"""
    if type(a) is not type(b):
        return False
    if isinstance(a, dict):
        return list(a.keys()) == list(b.keys()) and all(same(a[k], b[k]) for k in a)
    if isinstance(a, list):
        return len(a) == len(b) and all(same(x, y) for x, y in zip(a, b))
    if isinstance(a, float):
        return repr(a) == repr(b)
    return a == b


def seg_get(obj, segs):
    """value at a parsed path (segments as the model's redact.parse prints them); ('miss',) if absent"""
    cur = obj
    for s in segs:
        if s[0] == "k":
            if not isinstance(cur, dict) or s[1] not in cur:
                return ("miss",)
            cur = cur[s[1]]
        elif s[0] == "i":
            if not isinstance(cur, dict) or not isinstance(cur.get(s[1]), list):
                return ("miss",)
            lst, i = cur[s[1]], s[2]
            if i >= len(lst) or -i > len(lst):
                return ("miss",)
            cur = lst[i]
        else:
            return ("miss",)
    return ("at", cur)


def wf_nonneg(segs):
    return bool(segs) and all(s[0] == "k" or (s[0] == "i" and s[2] >= 0) for s in segs)


def text_occurs(tok, v):
    if isinstance(v, str):
        return tok in v
    if isinstance(v, dict):
        return any(tok in str(k) or text_occurs(tok, x) for k, x in v.items())
    if isinstance(v, list):
        return any(text_occurs(tok, x) for x in v)
    return False


def depth_of(v):
    if isinstance(v, dict):
        return 1 + max([depth_of(x) for x in v.values()] or [0])
    if isinstance(v, list):
        return 1 + max([depth_of(x) for x in v] or [0])
    return 0


# --------------------------------------------------------------------------
# generators
# --------------------------------------------------------------------------
SMALL_OBJS = [
    {}, {"a": 1}, {"a": {}}, {"a": {"b": 1}}, {"a": {"b": {"c": "x"}, "k": 2}}, {"a": []}, {"a": [1]},
    {"a": [{"b": 1}, 2]}, {"a": [[], {"b": {"b": 0}}, "s"]}, {"a": "str", "b": {"a": [0, 1, 2]}},
    {"b": 1, "a": None}, {"a": {"a": {"a": {"a": 1}}}}, {"a": [{"a": [{"a": 1}]}]}, {"": {"": 1}, "a": {"": [5]}},
    {"a": True, "b": [{}, {}]},
]
NONDICT_OBJS = [None, 5, "str", [], [{"a": 1}], True]
SEGS_Q = ["a", "b", "", "a[0]", "a[1]", "a[-1]", "a[-2]", "a[x]", "b[2]"]
SEGS_T = SEGS_Q + ["a[]", "[0]", "a[+1]", "a[ 1 ]", "a[1_0]", "a[-0]", "a[0][0]", "a]", "[a", "a[1", "b[-1]", "a[٣]"]


def gen_int_cases(chk):
    alpha = ["0", "1", "9", "+", "-", "_", " ", "\t", "\x1c", "\x0b", "x", "]", "[", "."]
    if chk.tier == "thorough":
        alpha += ["7", "\n", "\x1f", "\x00", "e", "٣", " "]
    out = []
    for n in range(0, 5 if chk.tier == "thorough" else 4):
        for t in itertools.product(alpha, repeat=n):
            out.append({"kind": "int", "s": "".join(t)})
    for s in ["0x1", "1e3", "١٢", "   1", "1 ", "12345678901234567890123", "-000", "0_0", "00_1", "1__0", "_1", "1_",
              "+ 1", "- 1", "--1", "1 2", "\x1d5\x1e", "٣", "5\x85"]:
        out.append({"kind": "int", "s": s})
    return out


def gen_set_cases(chk):
    rng = chk.rng
    segs = SEGS_T if chk.tier == "thorough" else SEGS_Q
    out = []
    paths = [".".join(t) for n in (1, 2, 3) for t in itertools.product(segs, repeat=n)]
    objs = SMALL_OBJS if chk.tier == "thorough" else SMALL_OBJS[:11]
    step = 1
    i = 0
    for o in objs:
        for p in paths:
            i += 1
            if i % step == 0:
                out.append({"kind": "set", "obj": o, "path": p, "value": "[REDACTED]", "fam": "set-enum"})
    for o in NONDICT_OBJS:
        for p in paths[: len(segs) + 20]:
            out.append({"kind": "set", "obj": o, "path": p, "value": "***", "fam": "set-nondict"})
    for p in SEGS_T:   # odd segments on every small object
        for o in SMALL_OBJS:
            out.append({"kind": "set", "obj": o, "path": p + ".z", "value": None, "fam": "set-odd"})
            out.append({"kind": "set", "obj": o, "path": "a." + p, "value": 0, "fam": "set-odd"})
    n_rand = 1500 if chk.tier == "quick" else 20000
    for _ in range(n_rand):
        env = gen_tree(rng, rng.randint(1, 4))
        p = gen_path(rng, env)
        out.append({"kind": "set", "obj": env, "path": p, "value": rng.choice(["***", "[REDACTED]", None, 0, "█"]),
                    "fam": "set-random"})
    return out


KEYS = ["a", "b", "items", "subject", "attrs", "k é", "ключ", "", "context", "x]", "ip"]
LEAVES = [None, True, False, 0, 1, -7, 2.5, 1e100, "", "v", "значение", "é" * 5, "a.b", "日本", "\U0001f600"]


def gen_tree(rng, depth, top=True):
    if depth <= 0 or (not top and rng.random() < 0.25):
        return rng.choice(LEAVES)
    if top or rng.random() < 0.6:
        n = rng.choice([0, 1, 2, 2, 3, 4])
        ks = rng.sample(KEYS, n)
        return {k: gen_tree(rng, depth - 1, False) for k in ks}
    return [gen_tree(rng, depth - 1, False) for _ in range(rng.choice([0, 1, 2, 3]))]


def _walk_paths(v, prefix, acc):
    """addressable (dotted) positions present in v: list of (path string, value)"""
    if isinstance(v, dict):
        for k, x in v.items():
            if "." in k or "[" in k:
                continue
            p = prefix + [k]
            acc.append((".".join(p), x))
            _walk_paths(x, p, acc)
            if isinstance(x, list):
                for i, y in enumerate(x):
                    q = prefix + [f"{k}[{i}]"]
                    acc.append((".".join(q), y))
                    _walk_paths(y, q, acc)
    return acc


def gen_path(rng, env):
    """a path related to env: existing, extended beyond, through scalars, beyond lists, negative, malformed"""
    present = _walk_paths(env, [], []) if isinstance(env, dict) else []
    r = rng.random()
    if present and r < 0.75:
        p, _ = rng.choice(present)
    else:
        p = rng.choice(KEYS[:6])
    mode = rng.random()
    if mode < 0.30:
        return p
    if mode < 0.50:
        return p + "." + rng.choice(["new", "a", "b.c", "items[2].x", "q[0]"])
    if mode < 0.62:   # index variants on the last key
        base = p.split("[")[0] if p.endswith("]") else p
        return base + rng.choice(["[0]", "[1]", "[3]", "[-1]", "[-2]", "[-5]", "[x]", "[]", "[ 1]", "[+0]", "[1_0]"])
    if mode < 0.75:
        return p + rng.choice(["[0].z", "[-1].z", "[2]", "[-3].z.w"])
    if mode < 0.85:
        parts = p.split(".")
        return ".".join(parts[: max(1, len(parts) - 1)])
    return rng.choice(["", ".", "a..b", "a.[0]", "[0]", "a[0][1]", "a[0]x", "a]", "[", "]", "a.b[٣]", "a[ ]", "k é.ключ"])


def plant(rng, env, token):
    """put the secret at a fresh addressable position (depth <= 4); returns (path string, covering path)"""
    cur = env
    steps = []
    depth = rng.randint(1, 4)
    for d in range(depth):
        last = d == depth - 1
        k = rng.choice(["a", "b", "subject", "attrs", "items", "k é", "ключ", "tok", ""])
        use_list = rng.random() < 0.35
        if use_list:
            i = rng.randint(0, 3)
            lst = cur.get(k)
            if not isinstance(lst, list):
                lst = []
                cur[k] = lst
            while len(lst) <= i:
                lst.append(rng.choice([{}, {"f": 1}, 0]))
            steps.append(f"{k}[{i}]")
            if last:
                lst[i] = None
                holder, hk = lst, i
            else:
                if not isinstance(lst[i], dict):
                    lst[i] = {}
                cur = lst[i]
        else:
            steps.append(k)
            if last:
                holder, hk = cur, k
            else:
                if not isinstance(cur.get(k), dict):
                    cur[k] = {}
                cur = cur[k]
    form = rng.choice(["str", "str", "embedded", "dict", "list", "key", "deep"])
    val = {"str": token, "embedded": "pré " + token + " ✓", "dict": {"x": token, "y": 1}, "list": [1, token],
           "key": {"k" + token: 0}, "deep": {"p": [{"q": {"r": token}}]}}[form]
    holder[hk] = val
    full = ".".join(steps)
    cut = rng.randint(1, len(steps)) if rng.random() < 0.3 else len(steps)
    return full, ".".join(steps[:cut])


PLACEHOLDERS = [("default",), ("v", "***"), ("v", "###"), ("v", None), ("v", 0), ("v", "█"), ("v", ""), ("v", False), ("v", 1.5)]


def gen_specs(rng, cover_paths, noise_paths):
    """obligation list whose mask/redact obligations list cover_paths (+ noise); unknown types carry only noise"""
    obs = []
    paths = [(p, True) for p in cover_paths] + [(p, False) for p in noise_paths]
    rng.shuffle(paths)
    while paths:
        n = rng.randint(1, max(1, len(paths)))
        chunk, paths = paths[:n], paths[n:]
        fields = [p for p, _ in chunk]
        if rng.random() < 0.5:
            ob = {"type": "redact_fields", "fields": fields}
            if rng.random() < 0.2:
                ob["placeholder"] = "ignored"
        else:
            ob = {"type": "mask_fields", "fields": fields}
            ph = rng.choice(PLACEHOLDERS)
            if ph[0] == "v":
                ob["placeholder"] = ph[1]
        if rng.random() < 0.15:
            ob = dict(reversed(list(ob.items())))
        obs.append(ob)
    for _ in range(rng.choice([0, 0, 1, 2])):
        junk = rng.choice([{"type": "remove_fields", "fields": noise_paths[:2] or ["a"]}, {"fields": ["a.b"]},
                           {"type": None, "fields": ["subject"]}, {"type": "mask_fields"}, {"type": "redact_fields", "fields": None},
                           {"type": "mask_fields", "fields": []}, {"type": 5}, {}, {"type": "MASK_FIELDS", "fields": ["a"]}])
        obs.insert(rng.randint(0, len(obs)), junk)
    return obs


RATES = [0, 0.0, 0.3, 1, 1.0, "smart"]
DRAWS = [0.0, 0.29, 0.3, 0.31, 0.999999]
# the sampling grid (legacy rates, smart sampling x category rates) and the ill-typed specs: families (A) / (E) of the direct
# log() cases, and the logger configurations of the Guard family (kind guardlog)
RATE_CFGS = [{"sample_rate": r} for r in [0, 0.0, -1, -0.5, 0.3, 1, 1.0, 2, 0.999999, 1e-9, True, False]] + [{}]
SMART_CFGS = [{"smart_sampling": True, "sample_rate": sr, **extra}
              for sr in [0.0, 0.3, 1.0, 0.05]
              for extra in [{}, {"category_sampling_rates": {}}, {"category_sampling_rates": None},
                            {"category_sampling_rates": {"permit": 0.3}},
                            {"category_sampling_rates": {"deny": 0.3, "permit_with_obligations": 0.3, "permit": 1.0}},
                            {"category_sampling_rates": {"deny": 7, "permit": -1}}]]
# the cross product of the sampling-related constructor arguments: smart_sampling (omitted / off / on) x sample_rate (omitted /
# 0 / in between / 1) x category_sampling_rates (omitted / None / empty / partially given / fully given, with rates 0 and 1 that
# contradict sample_rate).  Smart sampling is opt-in: with smart_sampling off the logger is in the legacy single-rate mode
# whatever category_sampling_rates says (Redact.should_drop: `if negb (c_smart c) then gate (c_rate c) u`; init stores the
# strategy all the same), so rate 0 emits nothing and rate 1 emits every decision there too.
CROSS_RATES = ["omit", None, {}, {"permit": 0.0}, {"deny": 1.0}, {"deny": 1.0, "permit_with_obligations": 1.0, "permit": 0.0},
               {"deny": 0, "permit_with_obligations": 0.0, "permit": 1}]
CROSS_CFGS = [{k: v for k, v in (("smart_sampling", sm), ("sample_rate", sr), ("category_sampling_rates", cr)) if v != "omit"}
              for sm in ["omit", False, True] for sr in ["omit", 0.0, 0.3, 1.0] for cr in CROSS_RATES]
CROSS_CFGS_T = [{"smart_sampling": sm, "sample_rate": sr, "category_sampling_rates": cr}     # thorough: falsy / truthy spellings
                for sm in [0, None, "", 1, "no"] for sr in [0, 1, -1, 2, 0.05] for cr in CROSS_RATES[3:]]
CROSS_DRAWS = [0.0, 0.3, 0.5, 0.999999]
BAD_SPECS = [[{"type": "redact_fields", "fields": ["a"]}, "oops"], ["oops"], [None], [{"type": "mask_fields", "fields": 5}],
             [{"type": "redact_fields", "fields": ["b.c"]}, {"type": "redact_fields", "fields": True}, {"type": "redact_fields", "fields": ["a"]}],
             [{"type": "mask_fields", "fields": ["a"]}, 7], [[1, 2]], [{"type": "mask_fields", "fields": "ab"}],
             [{"type": "mask_fields", "fields": {"a": 1, "b.c": 2}}], [{"type": "redact_fields", "fields": [1, None, True, 2.5]}],
             [{"type": "unknown", "fields": 5}], [{"type": "mask_fields", "fields": 0}], [{"type": "mask_fields", "fields": ""}]]


def sampling_kwargs(rng, which):
    """kwargs for the sampling part + payload decision fields"""
    kw = {}
    if which == "smart":
        kw["smart_sampling"] = True
        kw["sample_rate"] = rng.choice([0.0, 0.3, 1.0, 0.05])
        r = rng.random()
        if r < 0.5:
            pass                                    # default category rates
        elif r < 0.6:
            kw["category_sampling_rates"] = {}      # falsy -> defaults
        elif r < 0.7:
            kw["category_sampling_rates"] = None
        else:
            kw["category_sampling_rates"] = rng.choice([
                {"permit": 0.3}, {"deny": 0.3, "permit": 1.0}, {"permit_with_obligations": 0, "deny": 1},
                {"deny": 1.5, "permit": -2}, {"permit": 0.3, "deny": 1.0, "permit_with_obligations": 1.0},
                {"deny": True, "permit": 0.31}])
    elif which != "omit":
        kw["sample_rate"] = which
    return kw


def decision_fields(rng):
    return rng.choice([
        {"decision": "deny", "allowed": False}, {"decision": "deny", "allowed": True}, {"decision": "permit", "allowed": False},
        {"decision": "permit", "allowed": True}, {"decision": "permit", "allowed": True, "obligations": [{"type": "x"}]},
        {"decision": "permit", "allowed": True, "obligations": [{"type": "http_challenge", "on": "deny"}]},
        {"decision": "permit", "allowed": True, "obligations": [{}]},
        {"decision": "permit", "allowed": True, "obligations": []}, {"decision": "permit", "allowed": True, "obligations": None},
        {"allowed": True}, {"decision": "permit"}, {"decision": None, "allowed": 1, "obligations": "mfa"}, {},
        {"decision": "DENY", "allowed": True, "obligations": {}}])


def gen_log_cases(chk):
    rng = chk.rng
    out = []
    # ---- (A) sampling grid, complete: rates x draws x decisions (no redaction)
    dec_fields = [{"decision": "deny", "allowed": False}, {"decision": "permit", "allowed": True},
                  {"decision": "permit", "allowed": True, "obligations": [{"type": "require_mfa"}]},
                  # "permits with obligations": whatever the obligations are (targeted at deny, unknown, empty objects)
                  {"decision": "permit", "allowed": True, "obligations": [{"type": "http_challenge", "on": "deny"}]},
                  {"decision": "permit", "allowed": True, "obligations": [{"type": "x", "on": "deny"}, {"on": "deny"}]},
                  {"decision": "permit", "allowed": True, "obligations": [{}]},
                  {"decision": "permit", "allowed": True, "obligations": [{"type": "unknown", "on": None}]},
                  {"decision": "deny", "allowed": True}, {"decision": "permit", "allowed": False}, {"allowed": True}, {}]
    for cfg in copy.deepcopy(RATE_CFGS + SMART_CFGS):
        for u in DRAWS + [0.5, 1e-12, 0.30000000000000004, 0.049999, 0.05]:
            for df in dec_fields:
                for asj in ([False, True] if u in (0.0, 0.3) else [bool(len(out) % 2)]):
                    out.append({"kind": "log", "fam": "sampling-grid", "kwargs": {**cfg, "as_json": asj},
                                "payload": {**df, "env": {"subject": {"id": "u1"}}}, "u": u})
    # ---- (A') the cross product of the sampling arguments (CROSS_CFGS) x 4 draws x 5 decision classes
    cross_dec = [dec_fields[0], dec_fields[1], dec_fields[2], dec_fields[3], {}]
    for cfg in copy.deepcopy(CROSS_CFGS + (CROSS_CFGS_T if chk.tier == "thorough" else [])):
        for u in CROSS_DRAWS:
            for df in (dec_fields if chk.tier == "thorough" else cross_dec):
                out.append({"kind": "log", "fam": "sampling-cross", "kwargs": {**cfg, "as_json": bool(len(out) % 2)},
                            "payload": {**df, "env": {"subject": {"id": "u1"}}}, "u": u})
    # ---- (B) priority grid, complete
    env0 = {"subject": {"id": "u", "attrs": {"password": TOKEN, "email": "e@x", "n": 1}}, "context": {"ip": "10.0.0.1", "cookies": {"s": "c"}},
            "resource": {"attrs": {"secret": "zz"}}}
    for red in ["omit", None, [], [{"type": "mask_fields", "fields": ["subject.id"]}],
                [{"type": "redact_fields", "fields": ["subject.attrs.password"]}], [{"type": "nothing"}]]:
        for usedef in ["omit", False, True, 1, 0]:
            for ip in [False, True]:
                for asj in [False, True]:
                    kw = {"as_json": asj, "redact_in_place": ip}
                    if red != "omit":
                        kw["redactions"] = red
                    if usedef != "omit":
                        kw["use_default_redactions"] = usedef
                    out.append({"kind": "log", "fam": "priority-grid", "kwargs": kw, "secret": TOKEN,
                                "payload": {"decision": "permit", "allowed": True, "env": copy.deepcopy(env0)}, "u": 0.0})
    # ---- (C) env shapes accepted by dict(env or {})
    for env in ["omit", None, {}, [], 0, "", False, {"a": 1}]:
        for kw in [{}, {"use_default_redactions": True}, {"redactions": [{"type": "mask_fields", "fields": ["a", "b.c"]}], "redact_in_place": True},
                   {"max_env_bytes": 1}, {"max_env_bytes": 2, "use_default_redactions": True}]:
            pl = {"decision": "deny", "allowed": False}
            if env != "omit":
                pl["env"] = env
            out.append({"kind": "log", "fam": "env-shapes", "kwargs": dict(kw), "payload": pl, "u": 0.0})
    # ---- (D) size bounds around the exact size, ASCII and non-ASCII content
    size_envs = [{"k": "é" * 20}, {"k": "e" * 20}, {"a": {"b": "日本語"}, "l": [1, 2.5, None, True]}, {"ключ": "значение", "e": "\U0001f600"},
                 {"subject": {"attrs": {"password": "p" * 30, "n": "é"}}}, {}, {"q": "\"\\\n\t\x01"}, {"f": [1e100, float("nan"), float("inf")]}]
    for env in size_envs:
        for delta in [-2, -1, 0, 1, 2]:
            for red in [None, [{"type": "redact_fields", "fields": ["subject.attrs.password"]}], [{"type": "mask_fields", "fields": ["k"], "placeholder": "█"}]]:
                for asj in [False, True]:
                    for ip in [False, True]:
                        kw = {"as_json": asj, "redact_in_place": ip}
                        if red is not None:
                            kw["redactions"] = red
                        out.append({"kind": "log", "fam": "size-grid", "kwargs": kw, "bound_delta": delta,
                                    "payload": {"decision": "permit", "allowed": True, "env": copy.deepcopy(env)}, "u": 0.5})
    for mb in [0, -1, None, True, False, 1.0, 10.5, "10", 10**6, 1]:
        out.append({"kind": "log", "fam": "size-arg", "kwargs": {"max_env_bytes": mb, "as_json": True},
                    "payload": {"decision": "permit", "allowed": True, "env": {"k": "é" * 20}}, "u": 0.5})
    # ---- (E) ill-typed specs: the fallback branch
    for spec in copy.deepcopy(BAD_SPECS):
        for ip in [False, True]:
            for asj in [False, True]:
                for mb in ["omit", 5]:
                    kw = {"redactions": spec, "redact_in_place": ip, "as_json": asj}
                    if mb != "omit":
                        kw["max_env_bytes"] = mb
                    out.append({"kind": "log", "fam": "illtyped-spec", "kwargs": kw, "secret": TOKEN, "u": 0.1,
                                "payload": {"decision": "permit", "allowed": True,
                                            "env": {"a": TOKEN, "b": {"c": "x" + TOKEN, "d": 1}, "1": 1, "None": 2, "True": 3, "2.5": 4}}})
    # ---- (F) random: planted secrets, specs, flags, sampling, bounds
    n_rand = 3200 if chk.tier == "quick" else 60000
    for i in range(n_rand):
        env = gen_tree(rng, rng.randint(1, 4))
        token = TOKEN + str(i % 7)
        planted, covers = [], []
        for _ in range(rng.choice([1, 1, 1, 2, 3])):
            full, cov = plant(rng, env, token)
            planted.append(full)
            covers.append(cov)
        noise = [gen_path(rng, env) for _ in range(rng.choice([0, 1, 2, 4]))]
        mode = rng.random()
        kw = {}
        if mode < 0.70:
            kw["redactions"] = gen_specs(rng, covers, noise)
        elif mode < 0.78:      # one secret path left out, or listed only under an unknown type
            left = covers[:-1]
            spec = gen_specs(rng, left, noise)
            if rng.random() < 0.5:
                spec.append({"type": "drop_fields", "fields": [covers[-1]]})
            kw["redactions"] = spec
        elif mode < 0.84:
            kw["redactions"] = []
            kw["use_default_redactions"] = rng.choice([True, False])
        elif mode < 0.94:      # default set with secrets at its paths
            env = gen_tree(rng, 2)
            for p in rng.sample(["subject.attrs.password", "subject.attrs.token", "subject.attrs.mfa_code", "context.headers.authorization",
                                 "context.cookies", "resource.attrs.secret", "subject.attrs.email", "subject.attrs.phone", "context.ip"],
                                rng.randint(1, 4)):
                cur = env
                parts = p.split(".")
                for q in parts[:-1]:
                    if not isinstance(cur.get(q), dict):
                        cur[q] = {}
                    cur = cur[q]
                cur[parts[-1]] = rng.choice([token, {"sid": token}, [token]])
            kw["use_default_redactions"] = rng.choice([True, True, True, False])
        else:
            pass               # nothing configured
        if rng.random() < 0.5:
            kw["redact_in_place"] = rng.choice([True, True, False, 1])
        if rng.random() < 0.6:
            kw["as_json"] = rng.choice([True, True, False])
        kw.update(sampling_kwargs(rng, rng.choice(["omit", 1.0, 1, 0.3, 0.3, "smart", "smart", 0.999999, 0])))
        case = {"kind": "log", "fam": "random", "kwargs": kw, "secret": token, "u": rng.choice(DRAWS + [0.5]),
                "payload": {**decision_fields(rng), "env": env}}
        if rng.random() < 0.1:
            case["payload"] = {"env": env, **decision_fields(rng), "trace": rng.choice(["t-1", "é", 5])}
        r = rng.random()
        if r < 0.35:
            case["bound_delta"] = rng.choice([-3, -1, 0, 0, 1, 5, -10**6, 10**6])
        out.append(case)
    # ---- (G) values json.dumps cannot serialise (text rendering only)
    import datetime as dt
    for ip in [False, True]:
        for mb in ["omit", 10, 10**6]:
            kw = {"redactions": [{"type": "redact_fields", "fields": ["a.secret"]}], "redact_in_place": ip, "as_json": False}
            if mb != "omit":
                kw["max_env_bytes"] = mb
            out.append({"kind": "log", "fam": "nonjson", "kwargs": kw, "secret": TOKEN, "u": 0.0,
                        "payload": {"decision": "permit", "allowed": True,
                                    "env": {"a": {"secret": TOKEN, "when": dt.datetime(2024, 1, 2, 3, 4, 5)}}}})
    return out


def gen_apply_cases(chk):
    rng = chk.rng
    out = []
    n = 800 if chk.tier == "quick" else 12000
    for i in range(n):
        env = gen_tree(rng, rng.randint(1, 4))
        noise = [gen_path(rng, env) for _ in range(rng.choice([1, 2, 3, 5]))]
        obs = gen_specs(rng, [], noise)
        if rng.random() < 0.05:
            obs.insert(rng.randint(0, len(obs)), rng.choice(["x", None, 3, {"type": "mask_fields", "fields": 1}]))
        out.append({"kind": "apply", "fam": "apply-random", "payload": env, "obligations": obs, "in_place": bool(i % 2)})
    for obs in [None, [], [{"type": "mask_fields", "fields": ["a"]}]]:
        for ip in (False, True):
            out.append({"kind": "apply", "fam": "apply-none", "payload": {"a": {"b": 1}, "c": [1]}, "obligations": obs, "in_place": ip})
    return out


def gen_deep_cases(chk):
    out = []
    for depth in (450, 500, 800, 1200):
        for asj in (False, True):
            out.append({"kind": "deep", "depth": depth, "secret": TOKEN, "kwargs": {"as_json": asj,
                        "redactions": [{"type": "redact_fields", "fields": ["subject.attrs.password"]}]}, "u": 0.0})
    return out


def build_deep(case):
    d = {"leaf": 1}
    for _ in range(case["depth"]):
        d = {"n": d}
    return {"decision": "permit", "allowed": True,
            "env": {"subject": {"attrs": {"password": case["secret"]}}, "context": {"body": d}}}


# --------------------------------------------------------------------------
# checking
# --------------------------------------------------------------------------
THEOREMS_SET = ["c19_placeholder_at_path", "c19_placeholder_at_resolved_path", "c19_frame", "c19_frame_top"]


def resolve_bounds(cases):
    """turn 'bound_delta' (relative to the exact serialised size of the model's redacted env) into max_env_bytes"""
    todo = [c for c in cases if c.get("kind") == "log" and "bound_delta" in c]
    if not todo:
        return
    lines = [lib.model_call("redact.redacted", {k: v for k, v in c["kwargs"].items() if k != "max_env_bytes"}, c["payload"]) for c in todo]
    for c, a in zip(todo, lib.run_model("redact", lines)):
        r = lib.dec(a)
        delta = c.pop("bound_delta")
        if r[0] == "ok":
            sz = json_size(r[1])
            if sz is not None:
                c["kwargs"]["max_env_bytes"] = sz + delta
                c["size_exact"] = sz


def check_int(chk, cases):
    ans = lib.run_model("redact", [lib.model_call("redact.int", c["s"]) for c in cases])
    for c, a in zip(cases, ans):
        m = lib.dec(a)
        got = impl_int(c["s"])
        chk.mark(("int", c["s"]), got[0] == "ok")
        chk.count("int:" + m[0])
        if m[0] == "ood":
            chk.count("skipped-out-of-domain:int")
            continue
        if m != got:
            chk.corr_break("builtin int() differs from model py_int (domain of index parsing)", c, impl=got, model=m,
                           theorems=["all theorems stated on parsed segments still hold; parse_path no longer matches"])


def check_set(chk, cases):
    ans = lib.run_model("redact", [lib.model_call("redact.set", c["obj"], c["path"], c["value"]) for c in cases])
    segs = lib.run_model("redact", [lib.model_call("redact.parse", c["path"]) for c in cases])
    for c, a, sg in zip(cases, ans, segs):
        m, sg = lib.dec(a), lib.dec(sg)
        chk.count("fam:" + c.get("fam", "?"))
        if m[0] == "ood":
            chk.count("skipped-out-of-domain:set")
            continue
        if any(s[0] == "i" and s[2] > BIG_INDEX for s in sg):
            chk.count("skipped-big-index")
            continue
        got = impl_set(c)
        kinds = "".join(s[0][0] for s in sg)
        wf = wf_nonneg(sg)
        changed = not same(got.get("obj"), c["obj"])
        chk.mark(("set", repr(c["obj"]), c["path"], repr(c["value"])), changed)
        chk.count("set:segs=" + str(min(len(sg), 4)) + (":wf" if wf else ":" + ("neg" if all(s[0] in "ki" for s in sg) else "malformed")))
        chk.count("set:" + ("changed" if changed else "no-op"))
        chk.sample({"obj": c["obj"], "path": c["path"], "segs": sg, "impl": got.get("obj"), "model": m[1]}, every=4001)
        if "raised" in got:
            chk.violation("_set_by_path raised " + got["raised"] + " (every redaction after it is skipped; F14 class)", c,
                          impl=got, model=m[1])
            continue
        bad = None
        # the property, on the implementation's output
        if isinstance(c["obj"], dict) and wf:
            at = seg_get(got["obj"], sg)
            if at[0] != "at" or not same(at[1], c["value"]):
                bad = "placeholder is not at the configured well-formed path after _set_by_path (c19_placeholder_at_path)"
        if bad is None and isinstance(c["obj"], dict) and sg and sg[0][0] in "ki":
            first = sg[0][1]
            for k, x in c["obj"].items():
                if k != first and not (k in got["obj"] and same(got["obj"][k], x)):
                    bad = "a top-level field the path does not name was changed (c19_frame_top)"
        if bad:
            chk.violation(bad, c, impl=got["obj"], model=m[1])
        elif not same(got["obj"], m[1]):
            chk.corr_break("_set_by_path result differs from model set_segs", c, impl=got["obj"], model=m[1], theorems=THEOREMS_SET)


def check_apply(chk, cases):
    ans = lib.run_model("redact", [lib.model_call("redact.apply", c["payload"], c["obligations"], c["in_place"]) for c in cases])
    for c, a in zip(cases, ans):
        m = lib.dec(a)
        chk.count("fam:" + c.get("fam", "?"))
        if m[0] == "ood":
            chk.count("skipped-out-of-domain:apply")
            continue
        got = impl_apply(c)
        chk.mark(("apply", repr(c["payload"]), repr(c["obligations"]), c["in_place"]), not same(got.get("out"), c["payload"]))
        chk.count("apply:" + m[0] + (":in_place" if c["in_place"] else ":copy"))
        if not c["in_place"] and not same(got["after"], c["payload"]):
            chk.violation("apply_obligations(in_place=False) modified the caller's payload (c19_caller_env_untouched)", c,
                          impl=got["after"], model=c["payload"])
            continue
        if m[0] == "raise":
            if "raised" not in got or not same(got["after"], m[1]):
                chk.corr_break("apply_obligations: model predicts an exception after these writes", c, impl=got, model=m,
                               theorems=["c19_secret_gone (hypothesis: the specs do not raise)"])
            continue
        if "raised" in got:
            chk.violation("apply_obligations raised " + got["raised"] + " on specs the model runs to completion "
                          "(redaction is abandoned)", c, impl=got, model=m)
            continue
        if not same(got["out"], m[1]) or not same(got["after"], m[2]):
            chk.corr_break("apply_obligations result / caller payload differs from the model", c,
                           impl={"out": got["out"], "after": got["after"]}, model={"out": m[1], "after": m[2]},
                           theorems=["c19_secret_gone", "c19_caller_env_untouched", "c19_inplace_caller_account"])
        elif got["same"] != c["in_place"] or got["kids_same"] is False or not got["obs_same"]:
            chk.corr_break("apply_obligations aliasing: returned object identity / caller children / spec mutated", c,
                           impl={k: got[k] for k in ("same", "kids_same", "obs_same")}, model={"same": c["in_place"]},
                           theorems=["c19_caller_env_untouched"])


def _rate_view(kwargs):
    r = kwargs.get("sample_rate", 1.0)
    return float(r)


def check_log(chk, cases, cap, impl=None):
    """impl: where the implementation's observation of a case comes from (default: a direct DecisionLogger(**kwargs).log(payload);
    kind guardlog: the call the real Guard made on its DecisionLogger, observed by check_guardlog); c["where"] is appended to
    every verdict text"""
    ck = max(150, -(-len(cases) // 8))          # the lines are independent: up to 8 runner processes side by side
    kw_noenvmax = [lib.model_call("redact.redacted", c["kwargs"], c["payload"]) for c in cases]
    red = [lib.dec(a) for a in lib.run_model("redact", kw_noenvmax, chunk=ck)]
    sizes = [json_size(r[1]) if r[0] == "ok" else None for r in red]
    ans = lib.run_model("redact", [lib.model_call("redact.log", c["kwargs"], c["payload"], float(c["u"]), sz)
                                   for c, sz in zip(cases, sizes)], chunk=ck)
    hyp = lib.run_model("redact", [lib.model_call("redact.hyp", c["kwargs"], c["payload"], c.get("secret", TOKEN)) for c in cases], chunk=ck)
    for c, a, h, r, sz in zip(cases, ans, hyp, red, sizes):
        m, h = lib.dec(a), lib.dec(h)
        chk.count("fam:" + c.get("fam", "?"))
        if m[0] == "ood":
            chk.count("skipped-out-of-domain:log")
            continue
        kw = c["kwargs"]
        as_json = bool(kw.get("as_json", False))
        in_place = bool(kw.get("redact_in_place", False))
        if as_json and m[0] == "emitted":
            try:
                json.dumps(m[2], ensure_ascii=False)
            except Exception:  # noqa: BLE001
                chk.count("skipped-out-of-domain:not-json-serialisable-with-as_json")
                continue
        got = impl_log(c, cap) if impl is None else impl(c, cap)
        where = c.get("where", "")
        token = c.get("secret", TOKEN)
        secret_in_env = text_occurs(token, c["payload"].get("env"))
        emitted = bool(got["msgs"])
        key = ("log", repr(kw), repr(c["payload"]), c["u"])
        if c.get("kind") == "guardlog":
            key += ("guard", repr(c["policy"]), c.get("api"), bool(c.get("cache")), c.get("site"), bool(c.get("strict")), c.get("level"))
        chk.mark(key, emitted and (secret_in_env or "max_env_bytes" in kw or in_place))
        chk.count("log:" + ("emitted" if emitted else "dropped") + (":json" if as_json else ":text"))
        chk.count("log:in_place=" + str(in_place))
        if kw.get("smart_sampling"):
            chk.count("log:smart")
        if m[0] == "emitted":
            menv = m[2].get("env")
            chk.count("log:env=" + ("truncated" if isinstance(menv, dict) and menv.get("_truncated") is True and "size_bytes" in menv and len(menv) == 2
                                    else "failed-marker" if m[5] else "full"))
            chk.count("log:secret_hyps=" + str(h) + (":secret-present" if secret_in_env else ":no-secret"))
            chk.count("log:env_depth=" + str(min(depth_of(c["payload"].get("env")), 8)))
        chk.sample({"kwargs": kw, "payload": c["payload"], "u": c["u"], "impl_msgs": got["msgs"], "model": m,
                    "secret_hyps": h, "caller_env_after": got["payload_after"].get("env")}, every=1499)
        if "raised" in got:
            chk.violation("DecisionLogger.log raised " + got["raised"] + where, c, impl=got["raised"], model=m)
            continue
        if len(got["msgs"]) > 1:
            chk.violation("more than one record emitted for one decision" + where, c, impl=got["msgs"], model=m)
            continue
        msg = got["msgs"][0] if emitted else None
        viol = None
        # ---- sampling clauses (rate as configured; draws in [0,1))
        if not kw.get("smart_sampling"):
            rate = _rate_view(kw)
            if rate <= 0 and emitted:
                viol = "sample_rate <= 0 but a record was emitted (c19_sampling_rate0)"
            if rate >= 1 and not emitted:
                viol = "sample_rate >= 1 but the decision was dropped (c19_sampling_rate1)"
        else:
            pl = c["payload"]
            deny = str(pl.get("decision", "")) == "deny" or not bool(pl.get("allowed", False))
            pwo = bool(pl.get("obligations") or [])
            cat = "deny" if deny else "permit_with_obligations" if pwo else "permit"
            default_rates = not kw.get("category_sampling_rates")
            strat = kw.get("category_sampling_rates") or {"deny": 1.0, "permit_with_obligations": 1.0}
            eff = float(strat.get(cat, kw.get("sample_rate", 1.0)))
            chk.count("log:smart:cat=" + cat + (":default-rates" if default_rates else ":given-rates"))
            if default_rates and cat != "permit" and not emitted:
                viol = "smart sampling with default rates dropped a deny / permit-with-obligations (c19_sampling_smart_default)"
            elif eff >= 1 and not emitted:
                viol = "smart sampling: the category's rate is >= 1 but the decision was dropped (c19_sampling_smart_rate1)"
            elif eff <= 0 and emitted:
                viol = "smart sampling: the category's rate is <= 0 but a record was emitted (c19_sampling_smart_rate0)"
        # ---- caller's env object
        env_before = c["payload"].get("env")
        env_after = got["payload_after"].get("env")
        if viol is None and not in_place and not same(env_after, env_before):
            viol = "redact_in_place=False but the caller's env was modified (c19_caller_env_untouched)"
        if viol is None and [k for k in got["payload_after"]] != [k for k in c["payload"]]:
            viol = "the caller's payload dict was modified"
        if viol is None and any(not same(got["payload_after"][k], c["payload"][k]) for k in c["payload"] if k != "env"):
            viol = "the caller's payload dict was modified"
        # ---- record content
        if viol is None and emitted:
            if h is True and token in msg:
                viol = ("the secret occurs only at configured well-formed paths (Redact.secret_hyps holds) but appears in the "
                        "emitted record (c19_secret_gone)")
            rec_env = None
            if as_json:
                try:
                    rec_env = json.loads(msg).get("env")
                except Exception:  # noqa: BLE001
                    viol = viol or "as_json=True but the message is not JSON"
            if viol is None and m[0] == "emitted" and kw.get("max_env_bytes") is not None and r[0] == "ok" and sz is not None \
                    and isinstance(kw["max_env_bytes"], int) and not isinstance(kw["max_env_bytes"], bool) and kw["max_env_bytes"] > 0:
                bound = kw["max_env_bytes"]
                mark = {"_truncated": True, "size_bytes": sz}
                full = render({"env": r[1]}, as_json)
                trunc = render({"env": mark}, as_json)
                inner_full, inner_trunc = full[full.index("env") + 3:-1], trunc[trunc.index("env") + 3:-1]
                if sz > bound and inner_trunc not in msg:
                    viol = "serialised UTF-8 size %d exceeds max_env_bytes=%d but no truncation marker with that size was emitted (c19_size_bound)" % (sz, bound)
                elif sz <= bound and inner_full not in msg:
                    viol = "serialised UTF-8 size %d is within max_env_bytes=%d but the (redacted) env was not emitted in full (c19_size_bound)" % (sz, bound)
            if viol is None and kw.get("redactions", "absent") == [] and m[0] == "emitted" and kw.get("max_env_bytes") is None:
                want = render({"env": env_before if isinstance(env_before, dict) else {}}, as_json)
                if want[want.index("env") + 3:-1] not in msg:
                    viol = "redactions=[] was given but the env was not emitted unchanged (c19_priority)"
        if viol:
            chk.violation(viol + where, c, impl={"msgs": got["msgs"], "env_after": env_after, "draws": got["draws"]}, model=m)
            continue
        # ---- correspondence with the model on every observable
        diff = None
        if m[0] == "dropped":
            if emitted:
                diff = "model: dropped, implementation: emitted"
            elif got["draws"] != m[1]:
                diff = "number of random draws consumed"
        else:
            want = render(m[2], as_json)
            if not emitted:
                diff = "model: emitted, implementation: dropped"
            elif got["draws"] != m[1]:
                diff = "number of random draws consumed"
            elif msg != want:
                diff = "emitted message differs from the rendering of the model's record"
            elif bool(got["debug"]) != m[5]:
                diff = "fallback branch (debug trace) taken/not taken"
            elif m[3] != ("env" in got["payload_after"]) or (m[3] and not same(env_after, m[4])):
                diff = "caller's env object after the call (aliasing account)"
            elif got["env_same_object"] is not True or got["top_ids_same"] is not True:
                diff = "caller's payload['env'] / its top-level children were rebound"
        if diff:
            chk.corr_break("DecisionLogger.log vs Redact.log: " + diff + where, c,
                           impl={"msgs": got["msgs"], "draws": got["draws"], "debug": got["debug"], "env_after": env_after},
                           model=m, theorems=["c19_secret_gone", "c19_caller_env_untouched", "c19_inplace_caller_account", "c19_priority",
                                              "c19_sampling_rate0", "c19_sampling_rate1", "c19_sampling_smart_default", "c19_size_bound"])


def check_deep(chk, cases, cap):
    for c in cases:
        c2 = {"kwargs": c["kwargs"], "payload": build_deep(c), "u": c["u"]}
        got = impl_log(c2, cap, fresh_payload=build_deep(c))
        chk.mark(("deep", c["depth"], repr(c["kwargs"])), True)
        chk.count("deep:" + ("raised" if "raised" in got else "emitted" if got["msgs"] else "dropped"))
        chk.count("fam:deep")
        if any(c["secret"] in mm for mm in got["msgs"]):
            chk.violation("env nested %d deep: redaction failed (recursion limit) and the secret was emitted (F21)" % c["depth"], c,
                          impl=[mm[:200] for mm in got["msgs"]], model="secret absent from the record")
        elif "raised" not in got:
            # iterative comparison (the harness must not recurse 1200 deep itself)
            env = got["payload_after"].get("env", {})
            ok = env.get("subject") == {"attrs": {"password": c["secret"]}} and list(env) == ["subject", "context"]
            d, n = env.get("context", {}).get("body"), 0
            while isinstance(d, dict) and list(d) == ["n"]:
                d, n = d["n"], n + 1
            if not (ok and n == c["depth"] and d == {"leaf": 1}):
                chk.violation("env nested %d deep: caller's payload modified with redact_in_place=False" % c["depth"], c)


def check_defaults(chk):
    import rbacx.logging.decision_logger as dlmod

    m = lib.dec(lib.run_model("redact", [lib.model_call("redact.defaults")])[0])
    chk.mark(("defaults",), True)
    if not same(m, dlmod._DEFAULT_REDACTIONS):
        chk.corr_break("_DEFAULT_REDACTIONS differs from model default_redactions", {"kind": "defaults"},
                       impl=dlmod._DEFAULT_REDACTIONS, model=m, theorems=["c19_priority", "c19_default_set_redacts"])


# --------------------------------------------------------------------------
# kind "conc": ONE DecisionLogger used by several threads at once / re-entered from its own handler
# --------------------------------------------------------------------------
# The model's log is a function of (configuration, payload, draw) alone: no state is carried from one call to the
# next.  So for a SET of calls -- whichever threads make them, however their emissions overlap, whether a call is
# made from inside the handler that is emitting another record -- the records that reach the destination logger must
# be, as a multiset, exactly the model's records of the calls the sampling rule selects: each once.  The collaborator
# (handler / filter attached to the audit logger) is a slow sink the harness can park with gates; no sleeps.
WATCHDOG = 60.0          # seconds; running into it is harness trouble (or a hang, which is C14's), never a verdict
_CONC_LOGGER = "rbacx.audit.c19conc"
PARKS = ["emit-nolock", "emit-lock", "hfilter", "lfilter"]
#   emit-nolock  a handler without a handler-level lock parks inside emit()
#   emit-lock    a handler with the usual re-entrant handler lock parks inside emit() holding it (others queue on the lock)
#   hfilter      a handler-level filter parks (before the handler lock is taken)
#   lfilter      a logger-level filter parks (before any handler is called)
CONC_POLICY = {"algorithm": "deny-overrides", "rules": [
    {"id": "r-read", "effect": "permit", "actions": ["read"], "resource": {"type": "doc"}},
    {"id": "r-del", "effect": "deny", "actions": ["delete"], "resource": {"type": "doc"}},
    {"id": "r-edit", "effect": "permit", "actions": ["edit"], "resource": {"type": "doc"}, "obligations": [{"type": "audit_note"}]},
    {"id": "r-sign", "effect": "permit", "actions": ["sign"], "resource": {"type": "doc"}, "obligations": [{"type": "require_mfa"}]},
]}


class _Conductor:
    """call i runs on thread i; states new -> running -> (parked | blocked)* -> done, all changes under one condition"""

    def __init__(self, n):
        self.cv = threading.Condition()
        self.state = ["new"] * n
        self.gate = [False] * n
        self.depth = [0] * n
        self.idx = {}            # thread ident -> call index (scheduled threads only, while they run)
        self.trouble = None
        self.on_hook = None

    def current(self):
        return self.idx.get(threading.get_ident())

    def set_state(self, i, s):
        with self.cv:
            self.state[i] = s
            self.cv.notify_all()

    def fail(self, what):
        with self.cv:
            if self.trouble is None:
                self.trouble = what
            self.gate = [True] * len(self.gate)
            self.cv.notify_all()

    def wait_state(self, i, states):
        with self.cv:
            ok = self.cv.wait_for(lambda: self.state[i] in states or self.trouble is not None, WATCHDOG)
        if not ok:
            self.fail("call %d did not reach %s within %.0f s (state %s)" % (i, "/".join(states), WATCHDOG, self.state[i]))
        return self.trouble is None

    def open(self, i):
        with self.cv:
            self.gate[i] = True
            self.cv.notify_all()

    def hook(self, i):
        """the collaborator's slow spot: nested calls of call i first, then park until the gate of call i opens"""
        if i is None or self.depth[i]:
            return               # a helper thread of the library, or the record of a nested call on this thread
        self.depth[i] += 1
        try:
            if self.on_hook is not None:
                self.on_hook(i)
            with self.cv:
                if not self.gate[i]:
                    self.state[i] = "parked"
                    self.cv.notify_all()
                    ok = self.cv.wait_for(lambda: self.gate[i], WATCHDOG)
                    self.state[i] = "running"
                    self.cv.notify_all()
                    if not ok:
                        self.fail("call %d parked for more than %.0f s" % (i, WATCHDOG))
        finally:
            self.depth[i] -= 1


class _ObsLock:
    """re-entrant handler lock that tells the conductor when a scheduled thread has to queue on it"""

    def __init__(self, cond):
        self.cond, self._l = cond, threading.RLock()

    def acquire(self, *a, **k):
        if self._l.acquire(False):
            return True
        i = self.cond.current()
        if i is not None:
            self.cond.set_state(i, "blocked")
        ok = self._l.acquire(True, WATCHDOG)
        if i is not None:
            self.cond.set_state(i, "running")
        if not ok:
            self.cond.fail("handler lock not obtained within %.0f s" % WATCHDOG)
        return ok

    def release(self):
        try:
            self._l.release()
        except RuntimeError:
            pass

    __enter__ = acquire

    def __exit__(self, *a):
        self.release()


class _ConcHandler(logging.Handler):
    def __init__(self, cond, mode):
        self.cond, self.mode = cond, mode
        self.records = []        # (call index of the emitting thread or None, levelno, message)
        super().__init__(level=1)

    def createLock(self):
        if self.mode == "emit-nolock":
            self.lock = None
        elif self.mode == "emit-lock":
            self.lock = _ObsLock(self.cond)
        else:
            super().createLock()

    def filter(self, record):
        if self.mode == "hfilter" and record.levelno == logging.INFO:
            self.cond.hook(self.cond.current())
        return True

    def emit(self, record):
        i = self.cond.current()
        self.records.append((i, record.levelno, record.getMessage()))
        if self.mode in ("emit-nolock", "emit-lock") and record.levelno == logging.INFO:
            self.cond.hook(i)


class _ConcFilter:
    def __init__(self, cond):
        self.cond = cond

    def filter(self, record):
        if record.levelno == logging.INFO:
            self.cond.hook(self.cond.current())
        return True


class _ThreadRandom:
    """stands in for the `random` module inside decision_logger: the draw of the call the current thread is making"""

    def __init__(self, default=None):
        self.by, self.default = {}, default
        self.calls, self.unscripted = 0, 0
        self._l = threading.Lock()

    def random(self):
        st = self.by.get(threading.get_ident())
        u = st[-1] if st else self.default
        with self._l:
            self.calls += 1
            if u is None:
                self.unscripted += 1
        return 0.5 if u is None else u


class _Recorder:
    def __init__(self):
        self.payloads = []

    def log(self, payload):
        self.payloads.append(copy.deepcopy(payload))


def _req_objs(req):
    from rbacx import Action, Context, Resource, Subject

    return (Subject(id=req["sub"], roles=list(req.get("roles", [])), attrs=copy.deepcopy(req.get("attrs", {}))),
            Action(req["action"]), Resource(type=req.get("rtype", "doc"), id=req.get("rid"), attrs=copy.deepcopy(req.get("rattrs", {}))),
            Context(attrs=copy.deepcopy(req.get("ctx", {}))))


_REF_CACHE = {}


def guard_payload(policy, req):
    """what the Guard hands to its sink for this request (sequential run with a recording sink; C11 judges that payload)"""
    key = json.dumps([policy, req], sort_keys=True, default=str)
    if key not in _REF_CACHE:
        from rbacx import Guard

        rec = _Recorder()
        Guard(copy.deepcopy(policy), logger_sink=rec).evaluate_sync(*_req_objs(req))
        _REF_CACHE[key] = rec.payloads[0] if len(rec.payloads) == 1 else None
    return copy.deepcopy(_REF_CACHE[key])


def conc_calls(case):
    """flat list of the calls of a case: (label, spec, u); nested calls follow their outer call"""
    out = []
    for i, cl in enumerate(case["calls"]):
        out.append(("c%d" % i, cl, cl["u"]))
        for k, nc in enumerate(cl.get("nested", [])):
            out.append(("c%dn%d" % (i, k), nc, case["nested_u"] if case["via"] == "guard" else nc["u"]))
    return out


def impl_conc(case):
    import rbacx.logging.decision_logger as dlmod

    calls, via = case["calls"], case["via"]
    n = len(calls)
    cond = _Conductor(n)
    rnd = _ThreadRandom(case.get("nested_u") if via == "guard" else None)
    lg = logging.getLogger(_CONC_LOGGER)
    lg.setLevel(1)
    lg.propagate = False
    h = _ConcHandler(cond, case["park"])
    lg.handlers[:] = [h]
    lg.filters[:] = [_ConcFilter(cond)] if case["park"] == "lfilter" else []
    eng = logging.getLogger("rbacx.engine")
    eng_saved = (eng.handlers[:], eng.propagate)
    eng_cap = _Capture()
    eng.handlers[:] = [eng_cap]
    eng.propagate = False
    real = dlmod.random
    dlmod.random = rnd
    out = {"raised": {}, "results": {}, "made": []}
    payloads = {}
    try:
        dl = dlmod.DecisionLogger(logger_name=_CONC_LOGGER, level=logging.INFO, **copy.deepcopy(case["kwargs"]))
        guard = None
        if via == "guard":
            from rbacx import Guard

            guard = Guard(copy.deepcopy(case["policy"]), logger_sink=dl)
        for label, spec, _u in conc_calls(case):
            if via == "direct":
                payloads[label] = copy.deepcopy(spec["payload"])

        def do_call(label, spec):
            out["made"].append(label)
            try:
                if via == "direct":
                    dl.log(payloads[label])
                else:
                    d = guard.evaluate_sync(*_req_objs(spec["req"]))
                    out["results"][label] = [bool(d.allowed), d.effect]
            except BaseException as e:  # noqa: BLE001
                out["raised"][label] = type(e).__name__ + ": " + str(e)[:80]

        def on_hook(i):
            st = rnd.by.get(threading.get_ident())
            for k, nc in enumerate(calls[i].get("nested", [])):
                if st is not None:
                    st.append(nc["u"] if via == "direct" else case["nested_u"])
                try:
                    do_call("c%dn%d" % (i, k), nc)
                finally:
                    if st is not None:
                        st.pop()

        cond.on_hook = on_hook

        def body(i):
            me = threading.get_ident()
            cond.idx[me] = i
            rnd.by[me] = [calls[i]["u"]]
            cond.set_state(i, "running")
            try:
                do_call("c%d" % i, calls[i])
            finally:
                cond.idx.pop(me, None)      # idents are reused: a later helper thread must not be taken for call i
                rnd.by.pop(me, None)
                cond.set_state(i, "done")

        threads = [threading.Thread(target=body, args=(i,), daemon=True, name="c19-conc-%d" % i) for i in range(n)]
        for ev, i in case["schedule"]:
            if cond.trouble is not None:
                break
            if ev == "s":
                threads[i].start()
                cond.wait_state(i, ("parked", "blocked", "done"))
            else:
                cond.open(i)
                cond.wait_state(i, ("blocked", "done"))
        for i in range(n):
            cond.open(i)
        for i, t in enumerate(threads):
            if t.ident is None:
                if cond.trouble is None:
                    cond.fail("schedule never starts call %d" % i)
                continue
            t.join(WATCHDOG)
            if t.is_alive():
                cond.fail("call %d still running %.0f s after every gate was opened" % (i, WATCHDOG))
    finally:
        dlmod.random = real
        lg.handlers[:] = []
        lg.filters[:] = []
        eng.handlers[:], eng.propagate = eng_saved
    recs = list(h.records)
    out.update(trouble=cond.trouble, msgs=[m for _i, lv, m in recs if lv == logging.INFO],
               by_thread=[[i, m] for i, lv, m in recs if lv == logging.INFO],
               debug=[m for _i, lv, m in recs if lv == logging.DEBUG], draws=rnd.calls, unscripted_draws=rnd.unscripted,
               engine_errors=[m for _lv, m in eng_cap.records], payloads_after=payloads)
    return out


def sampling_clause(kw, pl, emitted):
    """the sampling clauses of the property for one decision (the judgement of check_log), None if they allow the outcome"""
    if not kw.get("smart_sampling"):
        rate = _rate_view(kw)
        if rate <= 0 and emitted:
            return "sample_rate <= 0 but a record was emitted (c19_sampling_rate0)"
        if rate >= 1 and not emitted:
            return "sample_rate >= 1 but the decision was dropped (c19_sampling_rate1)"
        return None
    deny = str(pl.get("decision", "")) == "deny" or not bool(pl.get("allowed", False))
    pwo = bool(pl.get("obligations") or [])
    cat = "deny" if deny else "permit_with_obligations" if pwo else "permit"
    default_rates = not kw.get("category_sampling_rates")
    strat = kw.get("category_sampling_rates") or {"deny": 1.0, "permit_with_obligations": 1.0}
    eff = float(strat.get(cat, kw.get("sample_rate", 1.0)))
    if default_rates and cat != "permit" and not emitted:
        return "smart sampling with default rates dropped a deny / permit-with-obligations (c19_sampling_smart_default)"
    if eff >= 1 and not emitted:
        return "smart sampling: the category's rate is >= 1 but the decision was dropped (c19_sampling_smart_rate1)"
    if eff <= 0 and emitted:
        return "smart sampling: the category's rate is <= 0 but a record was emitted (c19_sampling_smart_rate0)"
    return None


def overlap_of(case):
    """does the schedule start a call while another one is parked"""
    open_, ov = set(), False
    for ev, i in case["schedule"]:
        if ev == "s":
            ov = ov or bool(open_)
            open_.add(i)
        else:
            open_.discard(i)
    return ov


_CONC_TROUBLES = [0]


def check_conc(chk, cases):
    # ---- the payload of every call (Guard: what a sequential Guard hands to a recording sink), then the model per call
    flat = []
    for ci, c in enumerate(cases):
        for label, spec, u in conc_calls(c):
            pl = copy.deepcopy(spec["payload"]) if c["via"] == "direct" else guard_payload(c["policy"], spec["req"])
            flat.append([ci, label, pl, u])
    usable = [f for f in flat if isinstance(f[2], dict)]
    red = [lib.dec(a) for a in lib.run_model("redact", [lib.model_call("redact.redacted", cases[ci]["kwargs"], pl) for ci, _l, pl, _u in usable])]
    sizes = [json_size(r[1]) if r[0] == "ok" else None for r in red]
    ans = lib.run_model("redact", [lib.model_call("redact.log", cases[f[0]]["kwargs"], f[2], float(f[3]), sz) for f, sz in zip(usable, sizes)])
    hyp = lib.run_model("redact", [lib.model_call("redact.hyp", cases[f[0]]["kwargs"], f[2], cases[f[0]].get("secret", TOKEN)) for f in usable])
    per = {}
    for f, a, h in zip(usable, ans, hyp):
        per.setdefault(f[0], []).append({"label": f[1], "payload": f[2], "u": f[3], "m": lib.dec(a), "h": lib.dec(h)})
    for ci, c in enumerate(cases):
        kw = c["kwargs"]
        as_json = bool(kw.get("as_json", False))
        in_place = bool(kw.get("redact_in_place", False))
        token = c.get("secret", TOKEN)
        ms = per.get(ci, [])
        nested = any(cl.get("nested") for cl in c["calls"])
        fam = c.get("fam", "conc")
        chk.count("fam:" + fam)
        if len(ms) != len(conc_calls(c)):
            chk.count("conc:skipped:no-reference-payload")     # the Guard did not hand exactly one payload to its sink: C11's matter
            continue
        if any(x["m"][0] == "ood" for x in ms):
            chk.count("skipped-out-of-domain:conc")
            continue
        if _CONC_TROUBLES[0] >= 2:
            chk.count("conc:skipped-after-harness-trouble")
            continue
        got = impl_conc(c)
        # the calls made: every top-level call; a nested call iff the record of its outer call reached the collaborator
        chk.count("conc:nested-calls-not-made", sum(1 for x in ms if x["label"] not in got["made"]))
        ms = [x for x in ms if x["label"] in got["made"]]
        want = {x["label"]: (render(x["m"][2], as_json) if x["m"][0] == "emitted" else None) for x in ms}
        exp = collections.Counter(w for w in want.values() if w is not None)
        obs = collections.Counter(got["msgs"])
        overl = overlap_of(c)
        chk.mark(("conc", c["via"], c["park"], repr(kw), repr(c["calls"]), repr(c["schedule"]), c.get("nested_u")),
                 (overl or nested) and sum(exp.values()) >= 2)
        chk.count("conc:via=" + c["via"] + ":park=" + c["park"])
        chk.count("conc:threads=%d" % len(c["calls"]) + (":nested" if nested else "") + (":overlap" if overl else ":sequential"))
        chk.count("conc:expected-records=%d" % min(sum(exp.values()), 6))
        chk.sample({"conc": {k: c[k] for k in ("via", "park", "kwargs", "calls", "schedule")}, "impl_msgs": got["msgs"],
                    "model": sorted(exp.elements())}, every=997)
        if got["trouble"] is not None:
            _CONC_TROUBLES[0] += 1
            chk.count("conc:harness-trouble")
            chk.notes.append("C19 overlap scenario not judged (harness trouble, not a verdict): " + str(got["trouble"]) + " :: "
                             + json.dumps(lib.jsonable({k: c[k] for k in ("via", "park", "kwargs", "schedule")}))[:400])
            continue
        impl_view = {"msgs": got["by_thread"], "draws": got["draws"], "raised": got["raised"], "engine_errors": got["engine_errors"][:3]}
        model_view = {"records": want, "draws": sum(x["m"][1] for x in ms)}
        where = (" [one DecisionLogger, %d thread(s), %s, park=%s, schedule %s]"
                 % (len(c["calls"]), "nested calls from the handler" if nested else "overlapping calls" if overl else "sequential calls",
                    c["park"], " ".join(e + str(i) for e, i in c["schedule"])))
        viol = None
        if got["raised"] or any("decision logging failed" in e for e in got["engine_errors"]):
            viol = "DecisionLogger.log raised " + (sorted(got["raised"].values()) + ["(swallowed by the Guard: 'decision logging failed')"])[0]
        if viol is None and all(x["h"] is True for x in ms) and any(token in m for m in got["msgs"]):
            viol = ("the secret occurs only at configured well-formed paths (Redact.secret_hyps holds for every call) but appears in "
                    "an emitted record (c19_secret_gone)")
        if viol is None:
            dup = [m for m in obs if exp.get(m, 0) >= 1 and obs[m] > exp[m]]
            if dup:
                viol = "more than one record emitted for one decision"
        def marker(x):
            # what identifies the call in its record, outside the redacted part (direct: payload["trace"]; Guard: resource id)
            mk = x["payload"].get("trace") if c["via"] == "direct" else ((x["payload"].get("env") or {}).get("resource") or {}).get("id")
            return mk if isinstance(mk, str) and mk else None

        differing = []           # calls whose record was emitted, but not as the model's record
        if viol is None:
            # a call whose model record is absent has either a record of different content (paired with a surplus record: by
            # its marker, else -- marker redacted / truncated away -- with any surplus record left) or no record at all: dropped
            missing, extra = exp - obs, list((obs - exp).elements())
            lacking = []
            for x in ms:
                w = want[x["label"]]
                if w is not None and missing.get(w, 0) > 0:
                    missing[w] -= 1
                    lacking.append(x)
            for x in list(lacking):
                hit = next((m for m in extra if marker(x) and marker(x) in m), None)
                if hit is not None:
                    extra.remove(hit)
                    lacking.remove(x)
                    differing.append(x["label"])
            # surplus records that carry the marker of a call the model drops belong to that call
            for x in ms:
                if want[x["label"]] is None and marker(x):
                    hit = next((m for m in extra if marker(x) in m), None)
                    if hit is not None:
                        extra.remove(hit)
                        cl = sampling_clause(kw, x["payload"], True)
                        if cl and viol is None:
                            viol = cl + ": call %s" % x["label"]
            anonymous = [m for m in extra if not any(marker(x) and marker(x) in m for x in ms)]
            while lacking and anonymous:
                anonymous.pop()
                differing.append(lacking.pop()["label"])
            if viol is None:
                for x in lacking:
                    cl = sampling_clause(kw, x["payload"], False)
                    if cl:
                        viol = cl + ": no record of call %s reached the destination logger" % x["label"]
                        break
        if viol is None and c["via"] == "direct" and not in_place:
            for x in ms:
                after, before = got["payloads_after"][x["label"]], x["payload"]
                if list(after) != list(before) or any(not same(after[k], before[k]) for k in before):
                    viol = "redact_in_place=False but the caller's payload / env was modified (c19_caller_env_untouched): call " + x["label"]
                    break
        if viol:
            chk.violation(viol + where, c, impl=impl_view, model=model_view)
            continue
        diff = None
        if obs != exp:
            diff = ("the multiset of emitted records differs from the model's records of the selected calls"
                    + (" (emitted with another content: %s)" % ", ".join(sorted(differing)) if differing else ""))
        elif got["draws"] != model_view["draws"] or got["unscripted_draws"]:
            diff = "number of random draws consumed"
        elif c["via"] == "direct" and any(x["m"][0] == "emitted" and x["m"][3] and not same(got["payloads_after"][x["label"]].get("env"), x["m"][4])
                                          for x in ms):
            diff = "caller's env object after the call (aliasing account)"
        elif c["via"] == "guard" and any(got["results"].get(x["label"]) != [bool(x["payload"].get("allowed")), x["payload"].get("decision")]
                                         for x in ms):
            chk.count("conc:guard-decision-differs-from-sequential-run(C09/C14 matter)")
        if diff:
            chk.corr_break("DecisionLogger.log vs Redact.log over a set of calls: " + diff + where, c, impl=impl_view, model=model_view,
                           theorems=["c19_sampling_rate1", "c19_sampling_smart_default", "c19_sampling_smart_rate1", "c19_sampling_rate0",
                                     "c19_secret_gone", "c19_size_bound", "c19_caller_env_untouched"])


def all_schedules(n):
    """every interleaving of start (s) / release (r) of n calls, starts in index order, a call released after its start"""
    out = []

    def rec(seq, started, released):
        if len(seq) == 2 * n:
            out.append(seq)
            return
        if started < n:
            rec(seq + [["s", started]], started + 1, released)
        for i in range(started):
            if i not in released:
                rec(seq + [["r", i]], started, released | {i})

    rec([], 0, frozenset())
    return out


CONC_SAMPLING_MUST = [   # every decision / every deny and permit-with-obligations must be emitted
    {"sample_rate": 1.0}, {}, {"smart_sampling": True, "sample_rate": 0.0}, {"sample_rate": 1}, {"smart_sampling": True, "sample_rate": 1.0},
    {"smart_sampling": True, "sample_rate": 0.0, "category_sampling_rates": {"deny": 1.0, "permit": 1, "permit_with_obligations": 2}},
    {"sample_rate": 2}, {"smart_sampling": True, "sample_rate": 0.3, "category_sampling_rates": None},
]
CONC_SAMPLING_MIXED = [
    {"sample_rate": 0.3}, {"sample_rate": 0.0}, {"smart_sampling": True, "sample_rate": 0.3},
    {"smart_sampling": True, "sample_rate": 1.0, "category_sampling_rates": {"deny": 0, "permit_with_obligations": 0.3}},
    {"smart_sampling": True, "sample_rate": 0.0, "category_sampling_rates": {"permit": 0.3}},
]
CONC_REDACT = [
    {}, {"use_default_redactions": True}, {"use_default_redactions": True, "redact_in_place": True},
    {"redactions": [{"type": "redact_fields", "fields": ["subject.attrs.password", "context.token"]}]},
    {"redactions": [{"type": "mask_fields", "fields": ["subject.attrs.password", "context.token", "subject.id"], "placeholder": "***"}],
     "redact_in_place": True},
    {"redactions": [{"type": "redact_fields", "fields": ["subject.attrs", "context"]}], "max_env_bytes": 120},
    {"redactions": []}, {"use_default_redactions": True, "max_env_bytes": 60},
]
CONC_DECISIONS = [
    {"decision": "deny", "allowed": False}, {"decision": "permit", "allowed": True},
    {"decision": "permit", "allowed": True, "obligations": [{"type": "require_mfa"}]},
    {"decision": "permit", "allowed": True, "obligations": [{"type": "http_challenge", "on": "deny"}]},
    {"decision": "deny", "allowed": False, "obligations": [{"type": "x"}]}, {"decision": "permit", "allowed": False},
]
CONC_ACTIONS = ["delete", "read", "edit", "sign", "zap"]


def gen_conc_cases(chk):
    rng = chk.rng
    thorough = chk.tier == "thorough"
    out = []

    def kwargs(i):
        samp = CONC_SAMPLING_MUST[i % len(CONC_SAMPLING_MUST)] if i % 3 != 2 else rng.choice(CONC_SAMPLING_MIXED)
        kw = {**samp, **copy.deepcopy(rng.choice(CONC_REDACT))}
        if rng.random() < 0.6:
            kw["as_json"] = rng.choice([True, True, False])
        return kw

    def direct_call(tag, token, with_secret):
        env = {"subject": {"id": "u-" + tag, "attrs": {"password": token, "n": rng.choice([1, "é", None])} if with_secret else {"n": 1}},
               "context": {"ip": "10.0.0." + str(rng.randint(1, 9)), **({"token": {"v": token}} if with_secret and rng.random() < 0.5 else {})}}
        return {"payload": {**copy.deepcopy(rng.choice(CONC_DECISIONS)), "env": env, "trace": "t-" + tag}, "u": rng.choice(DRAWS + [0.5])}

    def guard_call(tag, token, with_secret):
        act = rng.choice(CONC_ACTIONS)
        return {"req": {"sub": "u-" + tag, "roles": ["user"], "attrs": {"password": token} if with_secret else {}, "action": act,
                        "rid": "d-" + tag, "ctx": {"ip": "10.0.0.7", **({"mfa": True} if rng.random() < 0.5 else {})}},
                "u": rng.choice(DRAWS + [0.5])}

    def case(via, park, sched, i, nest):
        n = 1 + max(j for _e, j in sched)
        token = TOKEN + str(i % 7)
        mk = direct_call if via == "direct" else guard_call
        calls = [mk("%dx" % j, token, True) for j in range(n)]
        c = {"kind": "conc", "fam": "conc-" + via + ("-nested" if nest else ""), "via": via, "park": park, "kwargs": kwargs(i),
             "calls": calls, "schedule": sched, "secret": token}
        if nest:
            for j in range(n):
                if j == 0 or rng.random() < 0.5:
                    calls[j]["nested"] = [mk("%dn%dx" % (j, k), token, rng.random() < 0.5) for k in range(rng.choice([1, 1, 2]))]
            c["nested_u"] = rng.choice(DRAWS + [0.5])
        if via == "guard":
            c["policy"] = CONC_POLICY
        return c

    i = 0
    reps_direct, reps_guard = (36, 10) if thorough else (3, 1)
    scheds = all_schedules(2) + all_schedules(3)
    for park in PARKS:
        for sched in scheds:
            for _ in range(reps_direct):
                out.append(case("direct", park, sched, i, False))
                i += 1
            if not thorough and len(sched) == 6 and (scheds.index(sched) + PARKS.index(park)) % 3:
                continue             # quick: the Guard path (asyncio.run per call) takes a third of the 3-thread schedules per collaborator
            for _ in range(reps_guard):
                out.append(case("guard", park, sched, i, False))
                i += 1
    # re-entrant use: the collaborator itself logs (direct: on the same thread; Guard: evaluate_sync inside the running loop hands
    # the nested evaluation to a helper thread, which must not queue on a handler lock held by the waiting outer call)
    nscheds = all_schedules(1) + all_schedules(2) + (all_schedules(3) if thorough else [])
    for park in PARKS:
        for sched in nscheds:
            for _ in range(reps_direct):
                out.append(case("direct", park, sched, i, True))
                i += 1
            if park != "emit-lock":
                for _ in range(reps_guard):
                    out.append(case("guard", park, sched, i, True))
                    i += 1
    return out


# --------------------------------------------------------------------------
# kind "guardlog": a Guard whose logger_sink is a DecisionLogger -- the C11 x C19 composition (coq/theories/AuditRedact.v)
# --------------------------------------------------------------------------
# AuditRedact.eval_logged = (answer of Engine.guard_eval, Redact.log c (audit_fields env d) u size): ONE sequential evaluation of
# the real Guard(policy, logger_sink=DecisionLogger(**kwargs)) per site (cold; with a decision cache also the hit), through
# evaluate_sync / evaluate_async / evaluate_sync under a running loop.  The sink IS a DecisionLogger; its bound `log` is wrapped
# on the instance by a recorder that copies the payload the Guard hands over, delegates to the real method and notes the draws
# and the records that reached the destination `logging` logger meanwhile.  Judged:
#   (i)   the Decision: vs Engine.guard_eval (engine.eval) -> corr_break (C11 / C01 own those verdicts); vs the same Guard
#         WITHOUT a sink -> violation (c19_logging_inert);
#   (ii)  the payload handed over: its decision fields are the returned Decision's -> violation (c11_audit_agrees); it is
#         Engine.audit_payload (build_env req) (guard_eval ...) -> corr_break (the bridge, c19_bridge_payload_is_log_argument);
#         that payload then goes to Redact.log exactly as in the direct family (check_log: same configuration encoding, scripted
#         draw, Python-supplied size) and the record / drop / draws / caller-env effect are judged by the clauses of check_log;
#   (iii) the record: its decision fields are the returned Decision's, same keys as the payload -> violation
#         (c19_logged_record_agrees_and_is_redacted, c11_logged_rule_id_truthful); the default paths / pairwise parting explicit
#         paths read their placeholder in a record emitted in full -> violation (c19_logged_default_redactions,
#         c19_logged_placeholders_at_paths); in copy mode the application's request objects are what they were -> violation
#         (c19_caller_env_untouched_by_logging).
GL_FIELDS = ["decision", "allowed", "rule_id", "policy_id", "reason", "obligations"]
GL_THEOREMS = ["c19_logged_record_agrees_and_is_redacted", "c19_logging_inert", "c19_bridge_payload_is_log_argument",
               "c19_denies_and_obliged_permits_always_logged", "c19_caller_env_untouched_by_logging", "c11_logged_rule_id_truthful"]


def _gl_rule(rid, effect, action, obligations=None):
    r = {"id": rid, "effect": effect, "actions": [action], "resource": {"type": "doc"}}
    if obligations is not None:
        r["obligations"] = obligations
    return r


# AuditRedact.ar_policy
GL_AR_POLICY = {"id": "p1", "algorithm": "deny-overrides", "rules": [_gl_rule("r1", "permit", "read", [{"type": "require_mfa"}])]}
_GL_ON_DENY = [{"type": "http_challenge", "on": "deny", "attrs": {"scheme": "Basic"}}]
GL_DOC_POLICY = {"id": "docs", "algorithm": "deny-overrides", "rules": [
    _gl_rule("r-read", "permit", "read"), _gl_rule("r-del", "deny", "delete"),
    _gl_rule("r-edit", "permit", "edit", [{"type": "audit_note"}]), _gl_rule("r-sign", "permit", "sign", [{"type": "require_mfa"}]),
    _gl_rule("r-share", "permit", "share", _GL_ON_DENY), _gl_rule("r-pub", "permit", "publish", [{"type": "x", "on": "deny"}, {"on": "deny"}]),
    _gl_rule("r-purge", "deny", "purge", [{"type": "http_challenge", "on": "deny"}])]}
GL_SET_POLICY = {"id": "root", "algorithm": "deny-overrides", "policies": [
    {"id": "readers", "algorithm": "permit-overrides", "rules": [
        _gl_rule("rd-read", "permit", "read"), _gl_rule("rd-sign", "permit", "sign", [{"type": "require_mfa"}]),
        _gl_rule("rd-edit", "permit", "edit", [{"type": "audit_note"}])]},
    {"id": "guards", "algorithm": "first-applicable", "rules": [
        _gl_rule("gd-del", "deny", "delete"), _gl_rule("gd-share", "permit", "share", _GL_ON_DENY),
        _gl_rule("gd-purge", "deny", "purge", [{"type": "http_challenge", "on": "deny"}]),
        _gl_rule("gd-pub", "permit", "publish", [{"type": "x", "on": "deny"}, {"on": "deny"}])]}]}
GL_NESTED_POLICY = {"id": "top", "algorithm": "first-applicable", "policies": [
    {"id": "inner", "algorithm": "deny-overrides", "policies": [copy.deepcopy(GL_DOC_POLICY)]},
    {"id": "fallback", "algorithm": "deny-overrides", "rules": [_gl_rule("fb-zap", "deny", "zap")]}]}
# decision classes by (action, mfa): plain permit, explicit deny, permit + unknown obligation, permit + met MFA, refused MFA
# (obligation_failed), permit whose obligations all target deny (two shapes), deny with obligations, no rule
GL_CLASSES = [("read", True), ("delete", False), ("edit", False), ("sign", True), ("sign", False), ("share", True), ("publish", False),
              ("purge", True), ("none", False)]
GL_ON_DENY_ACTIONS = ("share", "publish")
GL_ELSEWHERE = ["context.headers.x-api-key", "context.body.card.number", "subject.attrs.ssn", "resource.attrs.owner.token",
                "context.session[0].jwt", "subject.attrs.keys[1]", "context.query.access_token"]
GL_REDACT = [
    {"use_default_redactions": True}, {"use_default_redactions": True, "redact_in_place": True}, {},
    {"redactions": None, "use_default_redactions": 1}, {"redactions": [], "use_default_redactions": True},
    {"use_default_redactions": True, "as_json": True}, {"use_default_redactions": True, "redact_in_place": True, "as_json": True},
    {"redactions": [{"type": "redact_fields", "fields": ["context.headers.authorization", "subject.attrs.password", "context.cookies"]}]},
    {"redactions": [{"type": "mask_fields", "fields": ["context.headers", "subject.attrs", "resource.attrs", "context.ip"], "placeholder": "█"}],
     "redact_in_place": True, "as_json": True},
    {"redactions": [{"type": "redact_fields", "fields": ["subject", "context", "resource.attrs.secret"]}], "as_json": True},
]
_GL_DEFAULTS = []


def gl_default_ops():
    """[(path, placeholder)] of the default redaction set, read from the model (check_defaults ties it to the implementation's)"""
    if not _GL_DEFAULTS:
        m = lib.dec(lib.run_model("redact", [lib.model_call("redact.defaults")])[0])
        for ob in m:
            for p in ob["fields"]:
                _GL_DEFAULTS.append((p, ob.get("placeholder", "***") if ob["type"] == "mask_fields" else "[REDACTED]"))
    return list(_GL_DEFAULTS)


def gl_req(action, mfa=False, rid="1"):
    return {"subject": {"id": "u1", "roles": ["staff"], "attrs": {"dept": "eng"}}, "action": action,
            "resource": {"type": "doc", "id": rid, "attrs": {"k": 1}}, "context": {"mfa": True} if mfa else {}}


def gl_canon_req(req):
    """the request as the application's objects hold it (Subject / Action / Resource / Context)"""
    s, r = req.get("subject") or {}, req.get("resource") or {}
    return {"subject": {"id": s.get("id"), "roles": list(s.get("roles") or []), "attrs": s.get("attrs") or {}}, "action": req.get("action"),
            "resource": {"type": r.get("type"), "id": r.get("id"), "attrs": r.get("attrs") or {}}, "context": req.get("context") or {}}


def _gl_req_set(req, path, value):
    """write value at an env path of the request (subject.attrs.*, resource.attrs.*, context.*): keys and name[i] segments"""
    cur = req
    parts = path.split(".")
    for i, p in enumerate(parts):
        last = i == len(parts) - 1
        if p.endswith("]") and "[" in p:
            k, ix = p[:-1].split("[", 1)
            ix = int(ix)
            if not isinstance(cur.get(k), list):
                cur[k] = []
            while len(cur[k]) <= ix:
                cur[k].append({})
            if last:
                cur[k][ix] = value
                return
            if not isinstance(cur[k][ix], dict):
                cur[k][ix] = {}
            cur = cur[k][ix]
        else:
            if last:
                cur[p] = value
                return
            if not isinstance(cur.get(p), dict):
                cur[p] = {}
            cur = cur[p]


def gl_secret_value(rng, token):
    form = rng.choice(["str", "str", "bearer", "dict", "list", "nonascii"])
    return {"str": token, "bearer": "Bearer " + token, "dict": {"sid": token, "n": 1}, "list": [token, "x"],
            "nonascii": "clé " + token + " ✓"}[form]


def gl_decorate(rng, req, token, n_default, n_else=0):
    """the request with the secret at n_default of the default redaction paths and at n_else other places; returns (request,
    the other places)"""
    req = copy.deepcopy(req)
    for k in ("subject", "resource"):
        if not isinstance(req[k].get("attrs"), dict):
            req[k]["attrs"] = {}
    if not isinstance(req.get("context"), dict):
        req["context"] = {}
    dpaths = [p for p, _ph in gl_default_ops()]
    for p in rng.sample(dpaths, min(n_default, len(dpaths))):
        _gl_req_set(req, p, gl_secret_value(rng, token))
        if p == "context.headers.authorization":
            req["context"]["headers"].setdefault("accept", "text/html")
    others = rng.sample(GL_ELSEWHERE, n_else)
    for p in others:
        _gl_req_set(req, p, gl_secret_value(rng, token))
    return req, others


def gen_guardlog_cases(chk):
    import enggen
    import polgen

    rng = chk.rng
    thorough = chk.tier == "thorough"
    out = []

    def add(fam, policy, req, kwargs, token, **extra):
        i = len(out)
        c = {"kind": "guardlog", "fam": "guardlog-" + fam, "policy": policy, "req": req, "strict": False, "kwargs": kwargs,
             "u": rng.choice(DRAWS + [0.5]), "api": "sync-in-loop" if i % 7 == 6 else ("async" if i % 2 else "sync"),
             "cache": bool((i // 2) % 2), "secret": token}
        if i % 11 == 5:
            c["level"] = logging.WARNING
        elif i % 11 == 6:
            c["level"] = 25
        c.update(extra)
        out.append(c)
        return c

    # ---- (a) decision classes x the sampling grid (the direct family's (A)), secrets at the default paths
    #      (a few requests per class, shared by the configurations: the sink-less reference run is shared too)
    i = 0
    for pol in (GL_DOC_POLICY, GL_SET_POLICY, GL_NESTED_POLICY):
        for action, mfa in GL_CLASSES:
            i += 1
            token = TOKEN + str(i % 7)
            variants = [gl_decorate(rng, gl_req(action, mfa, rid=rng.choice(["1", "d-7"])), token, rng.choice([1, 2, 3]))[0]
                        for _ in range(4 if thorough else 2)]
            for cfg in RATE_CFGS + SMART_CFGS:
                i += 1
                smart_default = bool(cfg.get("smart_sampling")) and not cfg.get("category_sampling_rates")
                if not thorough and pol is GL_NESTED_POLICY and not (action in GL_ON_DENY_ACTIONS and smart_default):
                    continue
                if not thorough and not (action in GL_ON_DENY_ACTIONS and smart_default) and i % 4 != chk.seed % 4:
                    continue
                for _ in range(3 if thorough else 1):
                    req = copy.deepcopy(rng.choice(variants))
                    red = rng.choice(GL_REDACT[:2] + GL_REDACT[5:7]) if rng.random() < 0.6 else rng.choice(GL_REDACT)
                    add("sampling", pol, req, {**copy.deepcopy(cfg), **copy.deepcopy(red)}, token)
    # ---- (a') decision classes x the cross product of the sampling arguments (the direct family's (A')): above all smart
    #      sampling off / omitted while category_sampling_rates is supplied (legacy mode: the rates must be ignored)
    for pol in (GL_DOC_POLICY, GL_SET_POLICY) + ((GL_NESTED_POLICY,) if thorough else ()):
        for action, mfa in GL_CLASSES:
            i += 1
            token = TOKEN + str(i % 7)
            variants = [gl_decorate(rng, gl_req(action, mfa, rid=rng.choice(["1", "d-7"])), token, rng.choice([1, 2]))[0] for _ in range(2)]
            for cfg in CROSS_CFGS + (CROSS_CFGS_T if thorough else []):
                i += 1
                legacy_with_rates = not cfg.get("smart_sampling") and bool(cfg.get("category_sampling_rates"))
                if not thorough and i % (4 if legacy_with_rates else 12) != chk.seed % 4:
                    continue
                red = rng.choice(GL_REDACT[:2] + GL_REDACT[5:7])
                add("sampling-cross", pol, copy.deepcopy(rng.choice(variants)), {**copy.deepcopy(cfg), **copy.deepcopy(red)}, token,
                    u=rng.choice(CROSS_DRAWS))
    # ---- (b) the priority grid (the direct family's (B)) on the request of AuditRedact.ar_example and on a set
    n = 0
    for red in ["omit", None, [], [{"type": "mask_fields", "fields": ["subject.id"]}],
                [{"type": "redact_fields", "fields": ["subject.attrs.password"]}], [{"type": "nothing"}]]:
        for usedef in ["omit", False, True, 1, 0]:
            for ip in [False, True]:
                for asj in [False, True]:
                    n += 1
                    if not thorough and n % 3 != chk.seed % 3:
                        continue
                    kw = {"as_json": asj, "redact_in_place": ip}
                    if red != "omit":
                        kw["redactions"] = copy.deepcopy(red)
                    if usedef != "omit":
                        kw["use_default_redactions"] = usedef
                    for pol, act in ([(GL_AR_POLICY, "read"), (GL_SET_POLICY, "delete")] if thorough else [(GL_AR_POLICY, "read") if n % 2 else (GL_SET_POLICY, "sign")]):
                        req = gl_req(act, mfa=bool(n % 4))
                        req["subject"]["attrs"].update({"password": TOKEN, "email": "e@x"})
                        req["context"].update({"headers": {"authorization": "Bearer " + TOKEN, "accept": "text/html"}, "ip": "10.0.0.1",
                                               "cookies": {"s": TOKEN}})
                        req["resource"]["attrs"]["secret"] = [TOKEN]
                        add("priority", pol, req, kw, TOKEN, u=0.0)
    # ---- (c) size bounds around the exact size of the redacted env (the direct family's (D)), ASCII and non-ASCII requests
    size_reqs = []
    for attrs, ctx in [({"dept": "eng"}, {"mfa": True}), ({"name": "é" * 12, "password": "p" * 30}, {"note": "日本語", "mfa": True}),
                       ({}, {}), ({"ключ": "значение", "e": "\U0001f600"}, {"headers": {"authorization": "Bearer " + TOKEN}, "ip": "::1"})]:
        r = gl_req("sign", mfa=bool(ctx.get("mfa")))
        r["subject"]["attrs"], r["context"] = attrs, ctx
        size_reqs.append(r)
    n = 0
    for r in size_reqs:
        for delta in [-2, -1, 0, 1, 2]:
            for red in [None, "default", [{"type": "redact_fields", "fields": ["subject.attrs.password", "context.headers.authorization"]}]]:
                for asj in [False, True]:
                    n += 1
                    if not thorough and n % 2 != chk.seed % 2:
                        continue
                    kw = {"as_json": asj, "redact_in_place": bool(n % 3 == 0)}
                    if red == "default":
                        kw["use_default_redactions"] = True
                    elif red is not None:
                        kw["redactions"] = copy.deepcopy(red)
                    add("size", GL_DOC_POLICY if n % 2 else GL_SET_POLICY, copy.deepcopy(r), kw, TOKEN, bound_delta=delta, u=0.5)
    for mb in [0, -1, None, True, 1.0, "10", 10**6, 1]:
        add("size-arg", GL_AR_POLICY, gl_decorate(rng, gl_req("read", True), TOKEN, 2)[0], {"max_env_bytes": mb, "as_json": True,
                                                                                             "use_default_redactions": True}, TOKEN, u=0.5)
    # ---- (d) ill-typed specs: the fail-closed branch under a Guard (the direct family's (E))
    for k, spec in enumerate(BAD_SPECS):
        for ip in [False, True]:
            kw = {"redactions": copy.deepcopy(spec), "redact_in_place": ip, "as_json": bool((k + ip) % 2)}
            if k % 3 == 0:
                kw["max_env_bytes"] = 5
            req = gl_req(GL_CLASSES[k % len(GL_CLASSES)][0], True)
            req["context"].update({"a": TOKEN, "b": {"c": "x" + TOKEN, "d": 1}})
            add("illtyped-spec", GL_DOC_POLICY, req, kw, TOKEN, u=0.1)
    # ---- (e) random: enggen / polgen policies and requests, secrets at default paths and elsewhere, specs / flags / sampling / bounds
    pool = [p for _n, p in polgen.child_pool()]
    pats = [p for p in polgen.all_patterns(2)]
    for k in range(5000 if thorough else 210):
        token = TOKEN + str(k % 7)
        r = rng.random()
        if r < 0.35:
            pol = enggen.rich_policy(rng)
        elif r < 0.55:
            pol = {"id": "set%d" % k, "policies": [copy.deepcopy(rng.choice(pool)) for _ in range(rng.choice([1, 2, 2, 3]))],
                   "algorithm": rng.choice(polgen.ALGOS)}
        elif r < 0.75:
            pol = polgen.pattern_policy(rng.choice(pats), rng.choice(polgen.ALGOS), with_obl=rng.random() < 0.6)
            pol["id"] = "pat%d" % k
        else:
            pol = copy.deepcopy(rng.choice([GL_DOC_POLICY, GL_SET_POLICY, GL_NESTED_POLICY, GL_AR_POLICY]))
        if r < 0.75:
            base = enggen.requests(rng, 1)[0] if rng.random() < 0.5 else copy.deepcopy(polgen.BASE_REQ)
            if any(isinstance(v, _datetime) for v in (base.get("context") or {}).values()) and rng.random() < 0.7:
                base["context"] = {"mfa": True, "n": 5}
        else:
            base = gl_req(*rng.choice(GL_CLASSES))
        req, others = gl_decorate(rng, base, token, rng.choice([0, 1, 1, 2, 4]), rng.choice([0, 0, 1, 2]))
        env = polgen.env_of_req(req)
        covers = list(others)
        if rng.random() < 0.3:       # a planted secret of the direct family's shapes under the context
            full, cov = plant(rng, req["context"], token)
            covers.append("context." + cov)
            env = polgen.env_of_req(req)
        noise = [gen_path(rng, env) for _ in range(rng.choice([0, 1, 2]))]
        mode = rng.random()
        kw = {}
        if mode < 0.45:
            kw["use_default_redactions"] = rng.choice([True, True, True, 1])
        elif mode < 0.8:
            dflt = [p for p, _ph in gl_default_ops()]
            kw["redactions"] = gen_specs(rng, covers + (rng.sample(dflt, rng.randint(1, len(dflt))) if rng.random() < 0.7 else []), noise)
            if rng.random() < 0.3:
                kw["use_default_redactions"] = True
        elif mode < 0.88:
            kw["redactions"] = []
        if rng.random() < 0.5:
            kw["redact_in_place"] = rng.choice([True, True, False, 1])
        if rng.random() < 0.6:
            kw["as_json"] = rng.choice([True, True, False])
        kw.update(copy.deepcopy(sampling_kwargs(rng, rng.choice(["omit", 1.0, 1, 0.3, "smart", "smart", "smart", 0.999999, 0]))))
        c = add("random", pol, req, kw, token, strict=rng.random() < 0.2)
        if rng.random() < 0.3:
            c["bound_delta"] = rng.choice([-3, -1, 0, 0, 1, 5, -10**6, 10**6])
    return out


_GL_CACHE_CLS = []


def _gl_cache():
    if not _GL_CACHE_CLS:
        from rbacx.core.cache import DefaultInMemoryCache

        class _CountingCache(DefaultInMemoryCache):
            hits = 0

            def get(self, key):
                v = super().get(key)
                if v is not None:
                    self.hits += 1
                return v

        _GL_CACHE_CLS.append(_CountingCache)
    return _GL_CACHE_CLS[0](64)


def impl_guardlog(case, cap, with_logger=True):
    """the real Guard (cold, and once more when it has a cache) through the API of the case; with_logger: its sink is a real
    DecisionLogger whose bound log is recorded"""
    import asyncio

    import rbacx.logging.decision_logger as dlmod
    from rbacx.core.engine import Guard
    from rbacx.core.model import Action, Context, Resource, Subject

    level = case.get("level", logging.INFO)
    fake = _ScriptedRandom(case["u"])
    calls = []
    out = {"evals": [], "engine_errors": [], "hits": 0}
    eng = logging.getLogger("rbacx.engine")
    eng_saved = (eng.handlers[:], eng.propagate)
    eng_cap = _Capture()
    eng.handlers[:] = [eng_cap]
    eng.propagate = False
    real = dlmod.random
    dlmod.random = fake
    cap.records.clear()
    try:
        kw = {}
        if case.get("cache"):
            kw["cache"] = _gl_cache()
        if case.get("strict"):
            kw["strict_types"] = True
        if with_logger:
            try:
                dl = dlmod.DecisionLogger(logger_name=_LOGGER_NAME, level=level, **copy.deepcopy(case["kwargs"]))
            except Exception as e:  # noqa: BLE001
                out["ctor_raised"] = type(e).__name__ + ": " + str(e)[:80]
                return out
            inner = dl.log

            def recording_log(payload):
                env_obj = payload.get("env") if isinstance(payload, dict) else None
                ent = {"before": copy.deepcopy(payload), "obj": payload, "env_obj": env_obj, "ids": _ids(env_obj),
                       "d0": fake.calls, "n0": len(cap.records)}
                calls.append(ent)
                try:
                    return inner(payload)
                except RecursionError as e:
                    ent["raised"] = type(e).__name__
                    raise
                except Exception as e:  # noqa: BLE001
                    ent["raised"] = type(e).__name__ + ": " + str(e)[:80]
                    raise
                finally:
                    ent["draws"] = fake.calls - ent["d0"]
                    ent["records"] = list(cap.records[ent["n0"]:])

            dl.log = recording_log          # the sink IS the DecisionLogger; the Guard looks `log` up on it
            kw["logger_sink"] = dl
        g = Guard(copy.deepcopy(case["policy"]), **kw)

        def objs():
            r = gl_canon_req(copy.deepcopy(case["req"]))
            return (Subject(id=r["subject"]["id"], roles=r["subject"]["roles"], attrs=r["subject"]["attrs"]), Action(r["action"]),
                    Resource(type=r["resource"]["type"], id=r["resource"]["id"], attrs=r["resource"]["attrs"]), Context(attrs=r["context"]))

        def view(o):
            s, a, r, c = o
            return {"subject": {"id": s.id, "roles": s.roles, "attrs": s.attrs}, "action": a.name,
                    "resource": {"type": r.type, "id": r.id, "attrs": r.attrs}, "context": c.attrs}

        def dec(d):
            return {"allowed": d.allowed, "effect": d.effect, "obligations": d.obligations, "challenge": d.challenge,
                    "rule_id": d.rule_id, "policy_id": d.policy_id, "reason": d.reason}

        api = case.get("api", "sync")
        n = 2 if case.get("cache") else 1

        def done(o, k0, d):
            out["evals"].append({"decision": d, "req_after": view(o), "calls": calls[k0:]})

        async def go():
            for _ in range(n):
                o, k0 = objs(), len(calls)
                try:
                    # async: awaited in this loop; sync-in-loop: evaluate_sync called while this loop runs (helper thread)
                    d = dec(await g.evaluate_async(*o)) if api == "async" else dec(g.evaluate_sync(*o))
                except Exception as e:  # noqa: BLE001
                    d = ["Raise", type(e).__name__]
                done(o, k0, d)

        if api == "sync":
            for _ in range(n):
                o, k0 = objs(), len(calls)
                try:
                    d = dec(g.evaluate_sync(*o))
                except Exception as e:  # noqa: BLE001
                    d = ["Raise", type(e).__name__]
                done(o, k0, d)
        else:
            asyncio.run(go())
        out["hits"] = getattr(kw.get("cache"), "hits", 0)
    finally:
        dlmod.random = real
        eng.handlers[:], eng.propagate = eng_saved
    out["engine_errors"] = [m for _lv, m in eng_cap.records]
    return out


_GL_BASE = {}


def gl_baseline(case, cap):
    """the Decisions of the same Guard without a sink (same policy, request, type mode, cache, API)"""
    key = repr((case["policy"], case["req"], bool(case.get("strict")), bool(case.get("cache")), case.get("api", "sync")))
    if key not in _GL_BASE:
        if len(_GL_BASE) > 20000:
            _GL_BASE.clear()
        _GL_BASE[key] = [e["decision"] for e in impl_guardlog(case, cap, with_logger=False)["evals"]]
    return _GL_BASE[key]


def gl_model_payload(case, d):
    """Engine.audit_payload (build_env strict req None) d, transcribed (EngineProofs.v:717, Engine.v build_env = polgen.env_of_req)"""
    import polgen

    if not isinstance(d, dict):
        return None
    return {"env": polgen.env_of_req(case["req"], bool(case.get("strict"))), "decision": d["effect"], "allowed": d["allowed"],
            "rule_id": d["rule_id"], "policy_id": d["policy_id"], "reason": d["reason"], "obligations": d["obligations"]}


def gl_fields_of(d):
    return {"decision": d["effect"], "allowed": d["allowed"], "rule_id": d["rule_id"], "policy_id": d["policy_id"],
            "reason": d["reason"], "obligations": d["obligations"]}


def gl_parse_record(msg, as_json):
    """the emitted record as a dict, None when the rendering cannot be read back (text rendering of non-literal values)"""
    try:
        if as_json:
            rec = json.loads(msg)
        else:
            import ast

            if not msg.startswith("decision "):
                return None
            rec = ast.literal_eval(msg[len("decision "):])
    except Exception:  # noqa: BLE001
        return None
    return rec if isinstance(rec, dict) else None


def gl_simple_ops(specs):
    """[(keys, placeholder)] when the explicit specs are well typed, their paths plain dotted keys that pairwise part at a dict key
    (a transcription of AuditRedact.paths_disjoint restricted to key-only paths); None otherwise"""
    ops = []
    for ob in specs:
        if not isinstance(ob, dict):
            return None
        t = ob.get("type")
        if t not in ("mask_fields", "redact_fields"):
            if isinstance(t, (str, type(None))):
                continue
            return None
        fields = ob.get("fields", [])
        if not isinstance(fields, list):
            return None
        ph = ob.get("placeholder", "***") if t == "mask_fields" else "[REDACTED]"
        if isinstance(ph, (list, dict)):
            return None
        for p in fields:
            if not isinstance(p, str) or not p or any((not s) or "[" in s or "]" in s or s != s.strip() for s in p.split(".")):
                return None
            ops.append((p.split("."), ph))
    for a in range(len(ops)):
        for b in range(a + 1, len(ops)):
            p, q = ops[a][0], ops[b][0]
            if not any(x != y for x, y in zip(p, q)):
                return None          # one a prefix of (or equal to) the other: outside c19_logged_placeholders_at_paths
    return ops


def _gl_get(obj, keys):
    cur = obj
    for k in keys:
        if not isinstance(cur, dict) or k not in cur:
            return ("miss",)
        cur = cur[k]
    return ("at", cur)


def check_guardlog(chk, cases, cap):
    if not cases:
        return
    md = [lib.dec(a) for a in lib.run_model("engine", [lib.model_call("engine.eval", bool(c.get("strict")), c["policy"], c["req"], None, None)
                                                         for c in cases], chunk=max(100, -(-len(cases) // 8)))]
    mps = [gl_model_payload(c, d) for c, d in zip(cases, md)]
    # size bounds relative to the exact size of the model's redacted env of the model's payload
    tmp = []
    for c, mp in zip(cases, mps):
        if "bound_delta" in c:
            delta = c.pop("bound_delta")
            if mp is not None:
                tmp.append({"kind": "log", "kwargs": c["kwargs"], "payload": mp, "bound_delta": delta})   # kwargs shared: lands in the case
    resolve_bounds(tmp)
    views, store = [], {}
    for c, d_m, mp in zip(cases, md, mps):
        kw = c["kwargs"]
        as_json = bool(kw.get("as_json", False))
        in_place = bool(kw.get("redact_in_place", False))
        level = c.get("level", logging.INFO)
        api = c.get("api", "sync")
        chk.count("guardlog:cases")
        if d_m in (["Ood"], ["UnknownRelQuery"]) or (isinstance(d_m, list) and d_m and d_m[0] not in ("Raise",)):
            chk.count("skipped-out-of-domain:guardlog:engine-model")
            continue
        got = impl_guardlog(c, cap)
        if "ctor_raised" in got:
            chk.count("guardlog:skipped:DecisionLogger-constructor-raised")
            continue
        base = gl_baseline(c, cap)
        chk.count("guardlog:api=" + api + (":cache" if c.get("cache") else ":no-cache"))
        chk.count("guardlog:policy=" + ("set" if "policies" in c["policy"] else "single"))
        if c.get("cache"):
            chk.count("guardlog:cache-hit-observed" if got["hits"] else "guardlog:cache-configured-but-no-hit")
        reported = False
        for k, e in enumerate(got["evals"]):
            site = "cold" if k == 0 else "cache hit"
            where = " [Guard.%s, %s, logger_sink=DecisionLogger]" % (
                {"sync": "evaluate_sync", "async": "evaluate_async", "sync-in-loop": "evaluate_sync under a running loop"}[api], site)
            d = e["decision"]
            case_v = {**c, "site": site}
            # ---- (i) the Decision: the logger is inert; the engine model
            if k >= len(base) or not same(base[k], d):
                chk.violation("the Decision of a Guard with a DecisionLogger attached differs from the Decision of the same Guard without "
                              "a sink (c19_logging_inert)" + where, case_v, impl={"with_logger": d, "without": base[k] if k < len(base) else None},
                              model=d_m)
                reported = True
                continue
            dm = d_m if isinstance(d_m, dict) else ["Raise"]
            dd = d if isinstance(d, dict) else ["Raise"]
            if not same(dd, dm):
                if not reported:
                    chk.corr_break("Decision differs from the model Engine.guard_eval" + where, case_v, impl=d, model=d_m,
                                   theorems=["c11_rule_id_truthful", "c11_no_rule", "c19_logged_record_agrees_and_is_redacted"])
                reported = True
            if not isinstance(d, dict):
                chk.mark(("guardlog", repr(c["policy"]), repr(c["req"]), api, site, "raise"), False)
                chk.count("guardlog:decision=raise")
                continue
            chk.count("guardlog:decision=%s/%s%s" % (d["effect"], d["reason"], "+obligations" if d["obligations"] else ""))
            # ---- (ii) exactly one payload handed over, agreeing with the Decision; the bridge
            if len(e["calls"]) != 1:
                chk.violation("the Guard did not hand exactly one payload to its DecisionLogger for one evaluation (c11_audit_agrees, "
                              "c19_bridge_payload_is_log_argument)" + where, case_v, impl={"calls": len(e["calls"]), "decision": d}, model=mp)
                reported = True
                continue
            ent = e["calls"][0]
            pl = ent["before"]
            want = gl_fields_of(d)
            if not isinstance(pl, dict) or any(f not in pl or not same(pl[f], want[f]) for f in GL_FIELDS):
                chk.violation("the payload handed to the DecisionLogger disagrees with the returned Decision (c11_audit_agrees)" + where,
                              case_v, impl={"decision": d, "payload": pl}, model=mp)
                reported = True
                continue
            if not reported and mp is not None and not same(pl, mp):
                chk.corr_break("the payload the Guard hands to its sink differs from Engine.audit_payload (build_env req) (guard_eval ...)"
                               + where, case_v, impl=pl, model=mp,
                               theorems=["c19_bridge_payload_is_log_argument", "c19_audit_payload_fields", "c11_audit_agrees"])
                reported = True
            msgs = [m for lv, m in ent["records"] if lv == level]
            # ---- (iii) the record: the decision fields of the returned Decision, the keys of the payload; placeholders
            viol = None
            for msg in msgs[:1]:
                rec = gl_parse_record(msg, as_json)
                if rec is None:
                    chk.count("guardlog:record-not-read-back(judged by its rendered tail)")
                    try:
                        tail = render({"env": 0, **want}, as_json).split("0", 1)[1]
                    except Exception:  # noqa: BLE001
                        tail = None
                    if tail is not None and not msg.endswith(tail):
                        viol = ("the decision fields of the emitted record are not those of the returned Decision "
                                "(c19_logged_record_agrees_and_is_redacted, c11_logged_rule_id_truthful)")
                    continue
                if any(f not in rec or not same(rec[f], want[f]) for f in GL_FIELDS):
                    viol = ("the decision fields of the emitted record are not those of the returned Decision "
                            "(c19_logged_record_agrees_and_is_redacted, c11_logged_rule_id_truthful)")
                elif set(rec) != set(pl):
                    viol = "the emitted record does not carry exactly the keys of the audit payload (c19_logged_record_agrees_and_is_redacted)"
                renv = rec.get("env")
                full = isinstance(renv, dict) and not (renv.get("_truncated") is True and set(renv) == {"_truncated", "size_bytes"}) \
                    and renv != {"_redaction_failed": True}
                if viol is None and full:
                    if kw.get("redactions") is None and bool(kw.get("use_default_redactions")):
                        chk.count("guardlog:default-paths-judged")
                        for p, ph in gl_default_ops():
                            if _gl_get(renv, p.split(".")) != ("at", ph):
                                viol = ("use_default_redactions=True: the record's env does not read %r at %s (c19_logged_default_redactions)"
                                        % (ph, p))
                                break
                    elif kw.get("redactions"):
                        ops = gl_simple_ops(kw["redactions"])
                        if ops:
                            chk.count("guardlog:explicit-disjoint-paths-judged")
                            for keys, ph in ops:
                                at = _gl_get(renv, keys)
                                if at[0] != "at" or not same(at[1], ph):
                                    viol = ("the record's env does not read the placeholder at the configured path %s "
                                            "(c19_logged_placeholders_at_paths)" % ".".join(keys))
                                    break
                if viol is None and "expect_record" in c and msg != render(c["expect_record"], as_json):
                    chk.corr_break("the emitted record differs from the record computed inside Coq (AuditRedact.ar_record, vm_compute)" + where,
                                   case_v, impl=msg, model=render(c["expect_record"], as_json), theorems=["c19_audit_example"])
                    reported = True
            # ---- the application's request objects
            if viol is None and not same(e["req_after"], gl_canon_req(c["req"])):
                if in_place:
                    chk.count("guardlog:in-place:application-request-objects-rewritten(shared below the first level: F24's class, C14)")
                else:
                    viol = ("redact_in_place=False but the request objects of the application (Subject / Resource / Context attrs) were "
                            "modified by the audited evaluation (c19_caller_env_untouched_by_logging)")
            if viol:
                chk.violation(viol + where, case_v, impl={"decision": d, "msgs": msgs, "request_after": e["req_after"]},
                              model={"decision": d_m, "payload": mp})
                reported = True
                continue
            v = {**case_v, "payload": pl, "where": where}
            g = {"draws": ent["draws"], "msgs": msgs, "debug": [m for lv, m in ent["records"] if lv == logging.DEBUG], "payload_after": ent["obj"],
                 "env_same_object": isinstance(ent["obj"], dict) and ent["obj"].get("env") is ent["env_obj"],
                 "top_ids_same": isinstance(ent["obj"], dict) and _ids(ent["obj"].get("env")) == ent["ids"]}
            if "raised" in ent:
                g["raised"] = ent["raised"]
            views.append(v)
            store[id(v)] = g
    check_log(chk, views, cap, impl=lambda v, _cap: store[id(v)])


def check_cases(chk, cases, replay=False):
    cases = [copy.deepcopy(c) for c in cases]
    resolve_bounds(cases)
    by = {}
    for c in cases:
        by.setdefault(c.get("kind", "log"), []).append(c)
    if by.get("conc"):
        prev = logging.root.manager.disable
        logging.disable(logging.NOTSET)
        try:
            check_conc(chk, by["conc"])
        finally:
            logging.disable(prev)
    with _LoggingOn() as cap:
        if by.get("int"):
            check_int(chk, by["int"])
        if by.get("set"):
            check_set(chk, by["set"])
        if by.get("apply"):
            check_apply(chk, by["apply"])
        if by.get("log"):
            check_log(chk, by["log"], cap)
        if by.get("guardlog"):
            check_guardlog(chk, by["guardlog"], cap)
        if by.get("deep"):
            check_deep(chk, by["deep"], cap)
        if by.get("defaults") or not replay:
            check_defaults(chk)


def corpus_cases():
    out = []
    d = lib.VERIF / "corpus" / "C19"
    for f in sorted(d.glob("*.json")):
        data = json.loads(f.read_text())
        for e in data.get("cases", []):
            c = lib.unjson(e["case"])
            c["corpus"] = f.name
            out.append(c)
    return out


def run(chk):
    chk.rule = ("corpus witnesses first (F13, F14, F21 and minimised mutants); then complete families: every index text of length "
                "<= 3 (thorough 4) over a 14-letter alphabet against int(); every path of <= 3 segments over 9 (thorough 21) segment "
                "forms x 11 (15) small objects for _set_by_path; the sampling grid (13 legacy + 24 smart configurations x 10 draws x 7 "
                "decision shapes) and the cross product of the sampling arguments (smart_sampling omitted/off/on x sample_rate "
                "omitted/0/0.3/1 x category_sampling_rates omitted/None/empty/partial/full: 84 configurations x 4 draws x 5 "
                "decision classes, also under a Guard), the priority grid (6 redactions x 5 opt-in x in_place x as_json), env shapes, size bounds at "
                "exact size -2..+2 over ASCII/non-ASCII envs, ill-typed specs; then seeded random envs (depth <= 4, secret planted "
                "under object and list paths in 7 forms, specs over mask/redact/unknown types with noise paths: missing and "
                "non-object intermediates, indices beyond the list, negative and malformed indices) x in_place x as_json x "
                "rates x draws x bounds; then one DecisionLogger under concurrent and re-entrant use (kind conc): 2 and 3 threads "
                "calling log() directly / through Guard.evaluate_sync of one Guard, every interleaving of start and release of "
                "the calls (3 + 15 schedules) x 4 parking collaborators (handler without lock, handler holding its lock, handler "
                "filter, logger filter) x sampling (mostly must-emit classes) x redaction configurations, and calls made by the "
                "collaborator from inside the emission (same thread / Guard helper thread), judged on the multiset of emitted "
                "records; then the C11 x C19 composition (kind guardlog, AuditRedact.v): the real Guard(policy, logger_sink="
                "DecisionLogger(**kwargs)) evaluated sequentially through evaluate_sync / evaluate_async / evaluate_sync under a "
                "running loop, cold and (decision cache) as a hit: decision classes (plain permit, deny, permit with met / unknown "
                "/ deny-targeted obligations, refused obligation, deny with obligations, no rule; single policy, set, nested set) "
                "x the sampling grid, the priority grid, size bounds at exact size -2..+2, ill-typed specs, and random enggen / "
                "polgen policies and requests, with the secret at the default redaction paths (read from the model) and "
                "elsewhere; the Decision vs Engine.guard_eval and vs the same Guard without a sink, the payload handed over vs "
                "Engine.audit_payload, the record vs Redact.log of that payload and vs the returned Decision. "
                "non-trivial = a record was emitted and (the env held the secret, or a size bound, or "
                "in-place redaction was configured) / the write changed the object / (conc) at least two records are expected "
                "and the calls overlap or are nested; distinct = distinct input")
    chk.assumptions = [
        "env and payload are JSON-valued trees (no object reachable twice, no cycles); dict keys are str",
        "the UTF-8 size of json.dumps(redacted_env, ensure_ascii=False) is computed by Python on the model's redacted env and "
        "passed to the model; json.dumps/str() renderings are Python's (the model yields the record as a value; the harness "
        "renders it with the same functions and compares the strings)",
        "Python's recursion limit is outside the model (env depth <= ~400; deeper envs are checked property-only: kind 'deep')",
        "mask placeholder is not a list/dict (a shared mutable placeholder is outside the model); index text of a list segment "
        "is ASCII (Unicode digits are outside the model's int()); list indices <= %d in generated cases" % BIG_INDEX,
        "secret tokens are ASCII alphanumerics (no JSON/repr escaping can hide or forge them in the rendering)",
        "random.random() returns a float in [0,1) (scripted)",
        "kind conc: the model has no state between calls, so the expected records of a set of calls are the per-call records "
        "of Redact.log, as a multiset, whatever the interleaving; the payload of a Guard call is the one a sequential Guard "
        "hands to a recording sink (C11 judges it); the draw of a call is scripted per calling thread; each call has its own "
        "payload object; a hang (watchdog %.0f s) is reported as a note, not judged (deadlocks are C14's)" % WATCHDOG,
        "kind guardlog: no role resolver, no relationship checker, built-in obligation checker; top-level single policies name "
        "their algorithm (F12, judged by C17); the request objects are built afresh for every evaluation (in-place redaction "
        "writes through the nested objects the env shares with the application's attrs: F24's class, C14, counted, not judged); "
        "the sink is a real DecisionLogger whose bound log is wrapped on the instance by a recorder that delegates to it; "
        "audit_payload / build_env are transcribed in the harness (gl_model_payload, polgen.env_of_req) from the engine model's "
        "Decision and compared with the payload the Guard hands over before the latter is given to Redact.log",
    ]
    cases = corpus_cases()
    chk.extra["corpus_cases"] = len(cases)
    cases += gen_int_cases(chk)
    cases += gen_set_cases(chk)
    cases += gen_apply_cases(chk)
    cases += gen_log_cases(chk)
    cases += gen_deep_cases(chk)
    conc = gen_conc_cases(chk)
    chk.extra["conc_cases"] = len(conc)
    cases += conc
    gl = gen_guardlog_cases(chk)
    chk.extra["guardlog_cases"] = len(gl)
    cases += gl
    chk.exhaustive = True
    chk.notes.append("doc/code mismatch outside the statement: docs/logging.md and docs/audit_mode.md show "
                     "category_sampling_rates={'permit': 0.05} 'leaving deny/obligations at 1.0'; the code replaces the defaults by the "
                     "given dict, so deny falls back to sample_rate (lemma c19_partial_rates_drop_deny, case family sampling-grid)")
    check_cases(chk, cases)
