"""Policy / request generators shared by C01, C02, C03, C06, C07, C08, C11, C13, C20.

A rule is built from an *outcome kind* against the fixed base request
(action "read", resource doc/1 with attrs {"k": 1}):
  A applicable | a action mismatch | r resource mismatch | f condition false | t condition ill-typed
and an effect.  Enumerating all kind/effect sequences exercises every branch of
the combining loops; random generation adds wildcards, list types, obligations,
nested sets, rel conditions etc."""
import itertools

KINDS = "Aarft"
ALGOS = ["deny-overrides", "permit-overrides", "first-applicable"]

BASE_REQ = {"subject": {"id": "u1", "roles": ["staff"], "attrs": {"dept": "eng"}}, "action": "read",
            "resource": {"type": "doc", "id": "1", "attrs": {"k": 1}}, "context": {"mfa": True, "n": 5}}


def mk_rule(kind, effect, rid, obligations=None, variant=0):
    rule = {"id": rid, "effect": effect, "actions": ["read"], "resource": {"type": "doc"}}
    if kind == "a":
        rule["actions"] = [["write"], ["delete", "write"], ["Read"]][variant % 3]
    elif kind == "r":
        rule["resource"] = [{"type": "img"}, {"type": "doc", "id": "2"}, {"type": "doc", "attrs": {"k": 2}}][variant % 3]
    elif kind == "f":
        rule["condition"] = [{"==": [{"attr": "context.n"}, 6]}, {"<": [{"attr": "context.n"}, 5]}, False][variant % 3]
    elif kind == "t":
        rule["condition"] = [{"<": [{"attr": "subject.id"}, 5]}, {"startsWith": [{"attr": "context.n"}, "x"]},
                             {"hasAll": ["ab", ["a"]]}][variant % 3]
    elif kind == "A":
        v = variant % 4
        if v == 1:
            rule["condition"] = {"==": [{"attr": "context.n"}, 5]}
        elif v == 2:
            rule["actions"] = ["*"]
        elif v == 3:
            rule["resource"] = {"type": ["img", "doc"], "id": "1"}
    if obligations is not None:
        rule["obligations"] = obligations
    return rule


def pattern_policy(pattern, algo, with_obl=False):
    """pattern: sequence of (kind, effect) pairs."""
    rules = []
    for i, (k, e) in enumerate(pattern):
        obl = None
        if with_obl:
            obl = [{"type": "require_mfa", "tag": f"o{i}"}] if e == "permit" else [{"type": "http_challenge", "on": "deny", "tag": f"o{i}"}]
        rules.append(mk_rule(k, e, f"r{i}", obl, variant=i))
    pol = {"rules": rules}
    if algo is not None:
        pol["algorithm"] = algo
    return pol


def all_patterns(maxlen):
    cells = [(k, e) for k in KINDS for e in ("permit", "deny")]
    for n in range(maxlen + 1):
        yield from itertools.product(cells, repeat=n)


def env_of_req(req, strict=False, roles=None):
    env = {"subject": {"id": req["subject"].get("id"), "roles": list(roles if roles is not None else req["subject"].get("roles") or []),
                       "attrs": dict(req["subject"].get("attrs") or {})},
           "action": req.get("action"),
           "resource": {"type": req["resource"].get("type"), "id": req["resource"].get("id"),
                        "attrs": dict(req["resource"].get("attrs") or {})},
           "context": dict(req.get("context") or {})}
    if strict:
        env["__strict_types__"] = True
    return env


# a pool of small child policies for set enumeration: (name, policy)
def child_pool():
    P, D = "permit", "deny"
    pool = [
        ("permitA", pattern_policy([("A", P)], "deny-overrides")),
        ("denyA", pattern_policy([("A", D)], "deny-overrides")),
        ("none_a", pattern_policy([("a", P)], "deny-overrides")),
        ("none_t", pattern_policy([("t", D)], "permit-overrides")),
        ("empty", {"algorithm": "deny-overrides", "rules": []}),
        ("pd_do", pattern_policy([("A", P), ("A", D)], "deny-overrides")),
        ("pd_po", pattern_policy([("A", P), ("A", D)], "permit-overrides")),
        ("dp_fa", pattern_policy([("A", D), ("A", P)], "first-applicable")),
        ("pf_fa", pattern_policy([("f", D), ("A", P)], "first-applicable", with_obl=True)),
        ("noid", {"algorithm": "deny-overrides", "rules": [{"effect": "permit", "actions": ["read"], "resource": {"type": "doc"}}]}),
        ("emptyid", {"algorithm": "deny-overrides", "rules": [{"id": "", "effect": "deny", "actions": ["read"], "resource": {"type": "doc"}}]}),
        ("noalgo", pattern_policy([("A", P), ("A", D)], None)),
    ]
    out = []
    for name, pol in pool:
        pol = dict(pol)
        pol["id"] = name
        # make rule ids unique per child
        pol["rules"] = [dict(r, id=(f"{name}.{r['id']}" if r.get("id") else r.get("id"))) if "id" in r else dict(r)
                        for r in pol["rules"]]
        out.append((name, pol))
    return out
