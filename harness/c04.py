"""C04 — condition operators: documented meaning, no coercion, type mismatch = rule not applied.

Correspondence: rbacx.core.policy.eval_condition / resolve / evaluate against the
extracted Coq model (Cond.eval_cond, Policy.evaluate).  The theorems in props/C04.v
characterise the model operator by operator, so a case on which the implementation
returns a different boolean / type-mismatch / exception than the model is a case on
which the documented meaning fails: it is reported as a violation with that input.
Cases the model declares outside its domain (Ood) are counted and skipped."""
import itertools

import gen
import lib

RUNNER = "engine"


def impl_eval(cond, env):
    from rbacx.core.policy import ConditionTypeError, eval_condition

    try:
        r = eval_condition(cond, env)
        return bool(r) if isinstance(r, bool) else ["NonBool", repr(r)[:40]]
    except ConditionTypeError:
        return ["TypeErr"]
    except RecursionError:
        return ["Raise", "RecursionError"]
    except Exception as e:  # noqa: BLE001
        return ["Raise", type(e).__name__]


def norm_model(m):
    if isinstance(m, list) and m and m[0] == "Raise":
        return ["Raise"]
    return m


def norm_impl(i):
    if isinstance(i, list) and i and i[0] == "Raise":
        return ["Raise"]
    return i


def mk_env(a, b, strict, extra=None):
    env = {"subject": {"id": "u", "roles": [], "attrs": {}}, "action": "read",
           "resource": {"type": "doc", "id": "1", "attrs": {}},
           "context": {"a": gen.fresh(a), "b": gen.fresh(b)}}
    if extra:
        env["context"].update(extra)
    if strict:
        env["__strict_types__"] = True
    return env


def binop_cases(chk):
    vals = gen.VALUES
    cases = []
    quick = chk.tier == "quick"
    for op in gen.BINOPS:
        for (i, a), (j, b) in itertools.product(enumerate(vals), repeat=2):
            for strict in (False, True):
                # placements: attr/attr always; literal placements on a rotating subset in quick
                placements = ["aa", "ll", "al", "la"]
                if quick:
                    placements = ["aa"] + ([["ll", "al", "la"][(i + j) % 3]] if (i * 7 + j) % 2 == 0 else [])
                for pl in placements:
                    ta = {"attr": "context.a"} if pl[0] == "a" else gen.fresh(a)
                    tb = {"attr": "context.b"} if pl[1] == "a" else gen.fresh(b)
                    if pl[0] == "l" and isinstance(a, dict) and "attr" in a:
                        continue
                    cases.append({"fam": "binop", "cond": {op: [ta, tb]}, "env": mk_env(a, b, strict)})
    return cases


def time_cases(chk):
    cases = []
    pool = gen.TIME_STRINGS + gen.EPOCHS + gen.DATES + [None, [], {}, "x"]
    ref = ["2025-01-01T00:00:00Z", 1735689600, gen.DATES[0], gen.DATES[1], "2025-01-01T00:00:00.000001Z",
           "0001-01-01T00:00:00Z", "9999-12-31T23:59:59.999999Z", 253402300799, -62135596800, 1735689600.5]
    for x in pool:
        for y in ref:
            for strict in (False, True):
                for op in ("before", "after"):
                    cases.append({"fam": "time", "cond": {op: [{"attr": "context.a"}, {"attr": "context.b"}]},
                                  "env": mk_env(x, y, strict)})
                    cases.append({"fam": "time", "cond": {op: [{"attr": "context.b"}, {"attr": "context.a"}]},
                                  "env": mk_env(x, y, strict)})
    # between: inclusive bounds, malformed ranges
    pts = ["2025-01-01T00:00:00Z", "2025-01-01T00:00:00.000001Z", "2024-12-31T23:59:59.999999Z", 1735689600,
           1735689600.000001, gen.DATES[0], gen.DATES[1], "2025-06-01", "bad", None, 1e30, gen.NAN]
    for x in pts:
        for lo in pts[:8] + ["bad"]:
            for hi in pts[:8] + [None]:
                for strict in (False, True):
                    cases.append({"fam": "between", "cond": {"between": [{"attr": "context.a"}, [lo, hi]]},
                                  "env": mk_env(x, None, strict)})
        for rng in ([], [1], [1, 2, 3], "ab", None, {"a": 1}, {"attr": "context.b"}):
            cases.append({"fam": "between", "cond": {"between": [{"attr": "context.a"}, rng]},
                          "env": mk_env(x, ["2024-01-01", "2026-01-01"], False)})
    return cases


LEAVES = [True, False, {"==": [1, 1]}, {"==": [1, 2]}, {"<": ["a", 1]}, {">": [{"attr": "context.a"}, 0]},
          {"startsWith": [{"attr": "context.b"}, "x"]}, {"nosuchop": [1, 2]}, None, 0, "x", {}, []]


def trees(depth, rng, n):
    """random and/or/not trees over LEAVES"""
    out = []
    for _ in range(n):
        def build(d):
            r = rng.random()
            if d == 0 or r < 0.3:
                return gen.fresh(rng.choice(LEAVES))
            if r < 0.55:
                return {"and": [build(d - 1) for _ in range(rng.choice([0, 1, 2, 2, 3]))]}
            if r < 0.8:
                return {"or": [build(d - 1) for _ in range(rng.choice([0, 1, 2, 2, 3]))]}
            return {"not": build(d - 1)}
        out.append(build(depth))
    return out


def logic_cases(chk):
    cases = []
    # all trees with one connective over pairs/triples of leaves (short-circuit, error position)
    for op in ("and", "or"):
        for k in (0, 1, 2, 3):
            for ls in itertools.product(range(len(LEAVES)), repeat=k):
                if k == 3 and chk.tier == "quick" and sum(ls) % 3:
                    continue
                cases.append({"fam": "logic", "cond": {op: [gen.fresh(LEAVES[i]) for i in ls]},
                              "env": mk_env(1, "xy", False)})
        for sub in (None, 5, "ab", "", {"a": 1}, {"": 1}, {}, True, 1.5):
            cases.append({"fam": "logic", "cond": {op: sub}, "env": mk_env(1, "xy", False)})
    for leaf in LEAVES:
        cases.append({"fam": "logic", "cond": {"not": gen.fresh(leaf)}, "env": mk_env(1, "xy", False)})
        cases.append({"fam": "logic", "cond": {"not": {"not": gen.fresh(leaf)}}, "env": mk_env(-1, "q", False)})
    for t in trees(4, chk.rng, 3000 if chk.tier == "quick" else 40000):
        cases.append({"fam": "tree", "cond": t, "env": mk_env(chk.rng.choice([1, -1, "s", None]), chk.rng.choice(["xy", "q", 3]), False)})
    # several operator keys in one object: dispatch order
    keys = ["==", "!=", ">", "<", "contains", "in", "and", "or", "not", "startsWith", "rel", "zzz"]
    for k1, k2 in itertools.permutations(keys, 2):
        def operand(k):
            if k in ("and", "or"):
                return [True]
            if k == "not":
                return True
            if k == "rel":
                return ""
            return [1, 2]
        cases.append({"fam": "multikey", "cond": {k1: operand(k1), k2: operand(k2)}, "env": mk_env(1, 2, False)})
    return cases


def resolve_cases(chk):
    cases = []
    envs = [
        {"context": {"a": {"b": {"c": 5}}, "n": 5, "s": "str", "l": [1, 2], "none": None, "": {"": 7}, "t": True,
                     "f": 1.5, "d": gen.DATES[0]},
         "subject": {"id": "u", "roles": ["r"], "attrs": {"x": {"y": 1}}}, "action": "read",
         "resource": {"type": "doc", "id": "1", "attrs": {}}},
        # keys that contain dots / look like path remainders: a path follows the steps, it never joins them
        {"context": {"a.b": 5, "a": {"b.c": 5, "x": {"y.z": {"w": 5}}}, "a.b.c": 5, "n.real": 5, ".": 5, "a.": {"": 5}},
         "subject": {"id": "u", "roles": [], "attrs": {"custom.department": "str", "hr.clearance": 5, "x": {"y": 1}}},
         "action": "read", "resource": {"type": "doc", "id": "1", "attrs": {"q.r": 5}}},
    ]
    paths = ["subject.attrs.custom.department", "subject.attrs.hr.clearance", "context.a.x.y.z.w", "context.a.x.y.z", "resource.attrs.q.r",
             "context.a.b.c", "context.a.b", "context.a.x", "context.a.b.c.d", "context.n.real", "context.n.bit_length",
             "context.s.upper", "context.l.append", "context.none.x", "context..", "context.", ".", "", "context",
             "subject.roles", "subject.attrs.x.y", "resource.attrs.q", "nokey", "context.t.real", "context.f.real",
             "context.l.0", "context.a.b.c.real", "context.none", "context.s.__class__", "subject.id.x", "action.x",
             "context.d.year", "context.d"]
    for env in envs:
        for p in paths:
            for rhs in (5, None, "str", [1, 2], 7, True, 1.5):
                cases.append({"fam": "resolve", "cond": {"==": [{"attr": p}, rhs]}, "env": env})
        for attr in (5, None, True, ["a"], 1.5):   # non-string "attr" values: str() of them
            cases.append({"fam": "resolve", "cond": {"==": [{"attr": attr}, None]}, "env": env})
    return cases


def rule_cases(chk):
    """type mismatch never matches and never aborts the other rules (through evaluate)."""
    bad_conds = [{"<": ["a", 1]}, {"startsWith": [1, "a"]}, {"hasAll": ["ab", ["a"]]}, {"before": ["junk", 1]},
                 {"<": [10**400, 1]}, {"after": [1e30, 0]}, {"contains": [5, 5]}, {"and": 5},
                 {"between": [0, [1]]}, {"<": [True, 2]}]
    cases = []
    for algo in ("deny-overrides", "permit-overrides", "first-applicable"):
        for bc in bad_conds:
            for eff_bad in ("permit", "deny"):
                for others in ([], [("permit", None)], [("deny", None)], [("permit", {"==": [1, 2]})],
                               [("deny", None), ("permit", None)]):
                    for pos in range(len(others) + 1):
                        rules = [{"id": f"o{i}", "effect": e, "actions": ["read"], "resource": {"type": "doc"},
                                  **({"condition": c} if c is not None else {})} for i, (e, c) in enumerate(others)]
                        rules.insert(pos, {"id": "bad", "effect": eff_bad, "actions": ["read"],
                                           "resource": {"type": "doc"}, "condition": bc})
                        cases.append({"fam": "rule", "policy": {"algorithm": algo, "rules": rules},
                                      "env": mk_env(1, 2, False), "bad_pos": pos})
    return cases


def impl_evaluate(policy, env):
    from rbacx.core.policy import evaluate

    try:
        r = evaluate(policy, env)
        return {"decision": r.get("decision"), "reason": r.get("reason"),
                "rule_id": r.get("last_rule_id") or r.get("rule_id"), "obligations": r.get("obligations"),
                "policy_id": r.get("policy_id")}
    except Exception as e:  # noqa: BLE001
        return ["Raise", type(e).__name__]


def check_cases(chk, cases, replay=False):
    etm = [c for c in cases if c.get("kind") == "engine-time-mode"]
    if etm:
        engine_time_mode(chk, etm)
        cases = [c for c in cases if c.get("kind") != "engine-time-mode"]
        if not cases:
            return
    lines = []
    for c in cases:
        if "policy" in c:
            lines.append(lib.model_call("policy.evaluate", None, c["policy"], c["env"], None))
        else:
            lines.append(lib.model_call("cond.eval", c["cond"], c["env"], None))
    outs = [lib.dec(x) for x in lib.run_model(RUNNER, lines)]
    for c, m in zip(cases, outs):
        fam = c.get("fam", "?")
        chk.count("fam:" + fam)
        if "policy" in c:
            i = impl_evaluate(c["policy"], c["env"])
            chk.mark(("rule", repr(c["policy"])), True)
            if m == ["Ood"]:
                chk.count("ood")
                continue
            mm = m if isinstance(m, dict) else norm_model(m)
            ii = i if isinstance(i, dict) else norm_impl(i)
            # the property: the ill-typed rule is not applied (never the deciding rule) and does not abort
            if not isinstance(i, dict):
                chk.violation("a type mismatch in one rule aborted evaluation of the policy", c, impl=i, model=m)
            elif i.get("rule_id") == "bad":
                chk.violation("a rule whose condition is ill-typed was applied", c, impl=i, model=m)
            elif ii != mm:
                chk.violation("evaluate differs from the model (c04_type_error_skips_rule: an ill-typed rule is "
                              "skipped and the remaining rules decide)", c, impl=i, model=m)
            continue
        i = impl_eval(c["cond"], c["env"])
        op = next(iter(c["cond"])) if isinstance(c["cond"], dict) and c["cond"] else "-"
        chk.count("op:" + str(op))
        if m == ["Ood"]:
            chk.count("ood")
            chk.mark(("ood", repr(c["cond"]), repr(c["env"].get("context"))), False)
            continue
        ni, nm = norm_impl(i), norm_model(m)
        nontriv = isinstance(m, bool)
        chk.mark((repr(c["cond"]), repr(c["env"].get("context")), bool(c["env"].get("__strict_types__"))), nontriv)
        chk.count("result:" + (str(m) if isinstance(m, bool) else str(nm[0])))
        chk.sample({"cond": c["cond"], "context": c["env"].get("context"), "strict": bool(c["env"].get("__strict_types__")),
                    "impl": i, "model": m}, every=4999)
        if ni != nm:
            chk.violation(f"operator {op!r}: implementation {ni} but the documented meaning (model, props/C04.v) is {nm}",
                          c, impl=i, model=m)


def corpus_cases():
    import json
    out = []
    d = lib.VERIF / "corpus" / "C04"
    for f in sorted(d.glob("*.json")):
        data = json.loads(f.read_text())
        for c in data["cases"]:
            c = lib.unjson(c)
            c["fam"] = "corpus:" + f.stem
            out.append(c)
    return out


def run(chk):
    chk.rule = ("enumerated: every binary operator x every ordered pair from a pool of %d values of all JSON types "
                "(near-duplicates 1/1.0/True/'1', big ints, NaN/inf, date-like strings, containers, datetimes) x "
                "lax/strict x operand placement (attribute reference / literal); time operators over in-grammar and "
                "malformed ISO strings, epoch numbers incl. range edges and rounding ties; and/or/not over every "
                "tuple of <=3 leaves incl. ill-typed ones + random trees; resolve paths; multi-key objects; rule-level "
                "type-mismatch skipping under all algorithms. non-trivial = the model's answer is a boolean (not a "
                "type mismatch); distinct = distinct (condition, context, mode)" % len(gen.VALUES))
    chk.assumptions = [
        "ISO-8601 strings outside the modelled grammar YYYY-MM-DD[(T| )hh:mm[:ss[.f{1,6}]]][Z|+-hh:mm] are outside "
        "the model (counted as ood, skipped); Python 3.12 fromisoformat accepts more shapes",
        "NaN nested inside a container operand is outside the model (CPython's identity shortcut in container equality)",
        "datetime objects reached by an attribute path step are outside the model",
    ]
    cases = corpus_cases()
    cases += binop_cases(chk) + time_cases(chk) + logic_cases(chk) + resolve_cases(chk) + rule_cases(chk)
    check_cases(chk, cases)
    engine_time_mode(chk)
    chk.exhaustive = chk.tier == "thorough"


def engine_time_mode(chk, given=None):
    """the time operators through the engine (compiled path and sets), where the request values are what the caller
    handed to Subject/Resource/Context: a naive datetime / ISO text / epoch is a type mismatch in strict mode whatever
    the engine does to the request on the way in (same cases as the engine-level checks, judged here on the operator
    clause)."""
    import enggen

    cases = [dict(c, warm=False) for c in (given if given is not None else enggen.time_mode_cases())]
    impls = enggen.run_impl(cases)
    models = enggen.run_model(cases, impls, "engine.eval")
    for c, i, m in zip(cases, impls, models):
        d = i["decisions"][0]
        chk.count("fam:engine-time-mode")
        if m == ["Ood"] or not isinstance(m, dict):
            chk.count("ood")
            continue
        chk.mark(("engine-time", repr(c["policy"]), repr(c["req"]), c["strict"]), True)
        if not isinstance(d, dict) or (d["effect"], d["reason"]) != (m["effect"], m["reason"]):
            chk.violation("time operator through the engine (strict=%s): decision %s but the documented meaning of the "
                          "condition gives %s/%s (strict mode accepts timezone-aware datetimes only; a type mismatch makes "
                          "the rule not apply)" % (c["strict"], d if not isinstance(d, dict) else (d["effect"], d["reason"]),
                                                    m["effect"], m["reason"]),
                          {"kind": "engine-time-mode", **{k: c[k] for k in ("policy", "req", "strict")}}, impl=d, model=m)
