"""C04 — condition operators: documented meaning, no coercion, type mismatch = rule not applied.

Correspondence: rbacx.core.policy.eval_condition / resolve / evaluate against the
extracted Coq model (Cond.eval_cond, Policy.evaluate).  The theorems in props/C04.v
characterise the model operator by operator, so a case on which the implementation
returns a different boolean / type-mismatch / exception than the model is a case on
which the documented meaning fails: it is reported as a violation with that input.
Cases the model declares outside its domain (Ood) are counted and skipped."""
import itertools

import gen
import lib

RUNNER = "engine"


def impl_eval(cond, env):
    from rbacx.core.policy import ConditionTypeError, eval_condition

    try:
        r = eval_condition(cond, env)
        return bool(r) if isinstance(r, bool) else ["NonBool", repr(r)[:40]]
    except ConditionTypeError:
        return ["TypeErr"]
    except RecursionError:
        return ["Raise", "RecursionError"]
    except Exception as e:  # noqa: BLE001
        return ["Raise", type(e).__name__]


def norm_model(m):
    if isinstance(m, list) and m and m[0] == "Raise":
        return ["Raise"]
    return m


def norm_impl(i):
    if isinstance(i, list) and i and i[0] == "Raise":
        return ["Raise"]
    return i


def mk_env(a, b, strict, extra=None):
    env = {"subject": {"id": "u", "roles": [], "attrs": {}}, "action": "read",
           "resource": {"type": "doc", "id": "1", "attrs": {}},
           "context": {"a": gen.fresh(a), "b": gen.fresh(b)}}
    if extra:
        env["context"].update(extra)
    if strict:
        env["__strict_types__"] = True
    return env


def binop_cases(chk):
    vals = gen.VALUES
    cases = []
    quick = chk.tier == "quick"
    for op in gen.BINOPS:
        for (i, a), (j, b) in itertools.product(enumerate(vals), repeat=2):
            for strict in (False, True):
                # placements: attr/attr always; literal placements on a rotating subset in quick
                placements = ["aa", "ll", "al", "la"]
                if quick:
                    placements = ["aa"] + ([["ll", "al", "la"][(i + j) % 3]] if (i * 7 + j) % 2 == 0 else [])
                for pl in placements:
                    ta = {"attr": "context.a"} if pl[0] == "a" else gen.fresh(a)
                    tb = {"attr": "context.b"} if pl[1] == "a" else gen.fresh(b)
                    if pl[0] == "l" and isinstance(a, dict) and "attr" in a:
                        continue
                    cases.append({"fam": "binop", "cond": {op: [ta, tb]}, "env": mk_env(a, b, strict)})
    return cases


def time_cases(chk):
    cases = []
    pool = gen.TIME_STRINGS + gen.EPOCHS + gen.DATES + [None, [], {}, "x"]
    ref = ["2025-01-01T00:00:00Z", 1735689600, gen.DATES[0], gen.DATES[1], "2025-01-01T00:00:00.000001Z",
           "0001-01-01T00:00:00Z", "9999-12-31T23:59:59.999999Z", 253402300799, -62135596800, 1735689600.5]
    for x in pool:
        for y in ref:
            for strict in (False, True):
                for op in ("before", "after"):
                    cases.append({"fam": "time", "cond": {op: [{"attr": "context.a"}, {"attr": "context.b"}]},
                                  "env": mk_env(x, y, strict)})
                    cases.append({"fam": "time", "cond": {op: [{"attr": "context.b"}, {"attr": "context.a"}]},
                                  "env": mk_env(x, y, strict)})
    # between: inclusive bounds, malformed ranges
    pts = ["2025-01-01T00:00:00Z", "2025-01-01T00:00:00.000001Z", "2024-12-31T23:59:59.999999Z", 1735689600,
           1735689600.000001, gen.DATES[0], gen.DATES[1], "2025-06-01", "bad", None, 1e30, gen.NAN]
    for x in pts:
        for lo in pts[:8] + ["bad"]:
            for hi in pts[:8] + [None]:
                for strict in (False, True):
                    cases.append({"fam": "between", "cond": {"between": [{"attr": "context.a"}, [lo, hi]]},
                                  "env": mk_env(x, None, strict)})
        for rng in ([], [1], [1, 2, 3], "ab", None, {"a": 1}, {"attr": "context.b"}):
            cases.append({"fam": "between", "cond": {"between": [{"attr": "context.a"}, rng]},
                          "env": mk_env(x, ["2024-01-01", "2026-01-01"], False)})
    cases += between_ref_cases(chk, pts)
    return cases


BETWEEN_REF_RANGES = [           # the range operand; context.lo / context.hi / context.b / context.rng come from the request
    ("attr,attr", [{"attr": "context.lo"}, {"attr": "context.hi"}]),
    ("attr,lit", [{"attr": "context.lo"}, "<hi>"]),
    ("lit,attr", ["<lo>", {"attr": "context.hi"}]),
    ("attr,missing", [{"attr": "context.lo"}, {"attr": "context.nokey"}]),
    ("same attr twice", [{"attr": "context.lo"}, {"attr": "context.lo"}]),
    ("range is an attr -> pair", {"attr": "context.rng"}),
    ("range is an attr -> pair of attribute references", {"attr": "context.refs"}),
    ("range is an attr -> [reference, literal]", {"attr": "context.mixed"}),
]


def between_ref_cases(chk, pts):
    """`between` whose bounds are attribute references INSIDE the range pair (one, both, mixed with literals), or whose whole
    range is a reference resolving to a pair (of values, or of {"attr": ...} objects carried by the request): the model
    resolves the range and then each bound (Cond.v: lo' <- resolve lo env)"""
    cases = []
    bounds = [("2024-01-01T00:00:00Z", "2026-01-01T00:00:00Z"), ("2025-01-01T00:00:00Z", "2025-01-01T00:00:00Z"),
              (1735689600, "2025-06-01"), (gen.DATES[0], gen.DATES[2]), (gen.DATES[0], gen.DATES[1]), (gen.DATES[1], 1767225600),
              ("2026-01-01T00:00:00Z", "2024-01-01T00:00:00Z"), ("bad", "2026-01-01T00:00:00Z"), ("2024-01-01", None),
              ({"attr": "context.hi"}, "2026-01-01T00:00:00Z"), (1e30, gen.DATES[0])]
    k = 0
    for x in pts:
        for lo, hi in bounds:
            for name, rng in BETWEEN_REF_RANGES:
                k += 1
                if chk.tier == "quick" and k % 3 != chk.seed % 3 and not (name == "attr,attr" and k % 2):
                    continue
                r = gen.fresh(rng)
                if isinstance(r, list):
                    r = [lo if t == "<lo>" else hi if t == "<hi>" else t for t in r]
                    if any(isinstance(t, dict) and "attr" not in t for t in r):
                        continue
                extra = {"lo": gen.fresh(lo), "hi": gen.fresh(hi), "rng": [gen.fresh(lo), gen.fresh(hi)],
                         "refs": [{"attr": "context.lo"}, {"attr": "context.hi"}], "mixed": [{"attr": "context.lo"}, gen.fresh(hi)]}
                for strict in (False, True):
                    cases.append({"fam": "between-refs", "cond": {"between": [{"attr": "context.a"}, r]},
                                  "env": mk_env(x, None, strict, extra)})
    return cases


NESTED_MEMBERS = [[], ["legacy"], {"name": "ops"}, [[1]], {"k": [1, {"z": None}]}, [1.0], {}, ["doc", "read"], [True], {"name": "ops", "lvl": 2}]


def nested_collections():
    """collections holding a nested list / object as first, last, middle, only member, two nested members, plus flat ones"""
    out = [[], ["ops"], ["ops", "a"], [1], [None]]
    for n in NESTED_MEMBERS:
        out += [[n], [n, "ops"], ["ops", n], ["a", n, "ops"], [n, n]]
    out += [[[], {}], [{}, []], [[1], [1.0]], [{"name": "ops"}, ["legacy"], "ops"], [[1], 1], [["legacy"], ["doc", "read"]]]
    return [gen.fresh(x) for x in out]


def nested_member_cases(chk):
    """hasAll / hasAny / in / contains over collections with nested list / object members on either side (values of the
    request and literals of the policy): a nested member is a member like any other, compared structurally
    (py_in_list uses py_eq: [1] is in [[1.0]], {"name": "ops"} is in a list holding an equal object)"""
    cols = nested_collections()
    quick = chk.tier == "quick"
    cases = []
    k = 0
    for op in ("hasAll", "hasAny"):
        for i, a in enumerate(cols):
            for j, b in enumerate(cols):
                k += 1
                if quick and (i + 2 * j + chk.seed) % 6 and not (i == j or (len(a) == 1 and len(b) == 1)):
                    continue
                pl = "aa" if k % 4 else ("ll", "al", "la")[k // 4 % 3]
                ta = {"attr": "context.a"} if pl[0] == "a" else gen.fresh(a)
                tb = {"attr": "context.b"} if pl[1] == "a" else gen.fresh(b)
                cases.append({"fam": "nested-members", "cond": {op: [ta, tb]}, "env": mk_env(a, b, k % 7 == 0)})
    needles = NESTED_MEMBERS + ["ops", 1, None, [1], ["LEGACY"], {"name": "OPS"}, [[1.0]], {"lvl": 2, "name": "ops"}]
    for n in needles:
        for c in cols:
            k += 1
            if quick and (k + chk.seed) % 2 and len(c) != 1:
                continue
            pl = "aa" if k % 3 else ("ll", "al", "la")[k // 3 % 3]
            tn = {"attr": "context.a"} if pl[0] == "a" else gen.fresh(n)
            tc = {"attr": "context.b"} if pl[1] == "a" else gen.fresh(c)
            if isinstance(n, dict) and pl[0] == "l" and "attr" in n:
                continue
            cases.append({"fam": "nested-members", "cond": {"in": [tn, tc]}, "env": mk_env(n, c, False)})
            cases.append({"fam": "nested-members", "cond": {"contains": [tc, tn]}, "env": mk_env(n, c, False)})
    return cases


LEAVES = [True, False, {"==": [1, 1]}, {"==": [1, 2]}, {"<": ["a", 1]}, {">": [{"attr": "context.a"}, 0]},
          {"startsWith": [{"attr": "context.b"}, "x"]}, {"nosuchop": [1, 2]}, None, 0, "x", {}, []]


def trees(depth, rng, n):
    """random and/or/not trees over LEAVES"""
    out = []
    for _ in range(n):
        def build(d):
            r = rng.random()
            if d == 0 or r < 0.3:
                return gen.fresh(rng.choice(LEAVES))
            if r < 0.55:
                return {"and": [build(d - 1) for _ in range(rng.choice([0, 1, 2, 2, 3]))]}
            if r < 0.8:
                return {"or": [build(d - 1) for _ in range(rng.choice([0, 1, 2, 2, 3]))]}
            return {"not": build(d - 1)}
        out.append(build(depth))
    return out


def logic_cases(chk):
    cases = []
    # all trees with one connective over pairs/triples of leaves (short-circuit, error position)
    for op in ("and", "or"):
        for k in (0, 1, 2, 3):
            for ls in itertools.product(range(len(LEAVES)), repeat=k):
                if k == 3 and chk.tier == "quick" and sum(ls) % 3:
                    continue
                cases.append({"fam": "logic", "cond": {op: [gen.fresh(LEAVES[i]) for i in ls]},
                              "env": mk_env(1, "xy", False)})
        for sub in (None, 5, "ab", "", {"a": 1}, {"": 1}, {}, True, 1.5):
            cases.append({"fam": "logic", "cond": {op: sub}, "env": mk_env(1, "xy", False)})
    for leaf in LEAVES:
        cases.append({"fam": "logic", "cond": {"not": gen.fresh(leaf)}, "env": mk_env(1, "xy", False)})
        cases.append({"fam": "logic", "cond": {"not": {"not": gen.fresh(leaf)}}, "env": mk_env(-1, "q", False)})
    for t in trees(4, chk.rng, 3000 if chk.tier == "quick" else 40000):
        cases.append({"fam": "tree", "cond": t, "env": mk_env(chk.rng.choice([1, -1, "s", None]), chk.rng.choice(["xy", "q", 3]), False)})
    # several operator keys in one object: dispatch order
    keys = ["==", "!=", ">", "<", "contains", "in", "and", "or", "not", "startsWith", "rel", "zzz"]
    for k1, k2 in itertools.permutations(keys, 2):
        def operand(k):
            if k in ("and", "or"):
                return [True]
            if k == "not":
                return True
            if k == "rel":
                return ""
            return [1, 2]
        cases.append({"fam": "multikey", "cond": {k1: operand(k1), k2: operand(k2)}, "env": mk_env(1, 2, False)})
    return cases


def resolve_cases(chk):
    cases = []
    envs = [
        {"context": {"a": {"b": {"c": 5}}, "n": 5, "s": "str", "l": [1, 2], "none": None, "": {"": 7}, "t": True,
                     "f": 1.5, "d": gen.DATES[0]},
         "subject": {"id": "u", "roles": ["r"], "attrs": {"x": {"y": 1}}}, "action": "read",
         "resource": {"type": "doc", "id": "1", "attrs": {}}},
        # keys that contain dots / look like path remainders: a path follows the steps, it never joins them
        {"context": {"a.b": 5, "a": {"b.c": 5, "x": {"y.z": {"w": 5}}}, "a.b.c": 5, "n.real": 5, ".": 5, "a.": {"": 5}},
         "subject": {"id": "u", "roles": [], "attrs": {"custom.department": "str", "hr.clearance": 5, "x": {"y": 1}}},
         "action": "read", "resource": {"type": "doc", "id": "1", "attrs": {"q.r": 5}}},
    ]
    paths = ["subject.attrs.custom.department", "subject.attrs.hr.clearance", "context.a.x.y.z.w", "context.a.x.y.z", "resource.attrs.q.r",
             "context.a.b.c", "context.a.b", "context.a.x", "context.a.b.c.d", "context.n.real", "context.n.bit_length",
             "context.s.upper", "context.l.append", "context.none.x", "context..", "context.", ".", "", "context",
             "subject.roles", "subject.attrs.x.y", "resource.attrs.q", "nokey", "context.t.real", "context.f.real",
             "context.l.0", "context.a.b.c.real", "context.none", "context.s.__class__", "subject.id.x", "action.x",
             "context.d.year", "context.d"]
    for env in envs:
        for p in paths:
            for rhs in (5, None, "str", [1, 2], 7, True, 1.5):
                cases.append({"fam": "resolve", "cond": {"==": [{"attr": p}, rhs]}, "env": env})
        for attr in (5, None, True, ["a"], 1.5):   # non-string "attr" values: str() of them
            cases.append({"fam": "resolve", "cond": {"==": [{"attr": attr}, None]}, "env": env})
    return cases


def rule_cases(chk):
    """type mismatch never matches and never aborts the other rules (through evaluate)."""
    bad_conds = [{"<": ["a", 1]}, {"startsWith": [1, "a"]}, {"hasAll": ["ab", ["a"]]}, {"before": ["junk", 1]},
                 {"<": [10**400, 1]}, {"after": [1e30, 0]}, {"contains": [5, 5]}, {"and": 5},
                 {"between": [0, [1]]}, {"<": [True, 2]}]
    cases = []
    for algo in ("deny-overrides", "permit-overrides", "first-applicable"):
        for bc in bad_conds:
            for eff_bad in ("permit", "deny"):
                for others in ([], [("permit", None)], [("deny", None)], [("permit", {"==": [1, 2]})],
                               [("deny", None), ("permit", None)]):
                    for pos in range(len(others) + 1):
                        rules = [{"id": f"o{i}", "effect": e, "actions": ["read"], "resource": {"type": "doc"},
                                  **({"condition": c} if c is not None else {})} for i, (e, c) in enumerate(others)]
                        rules.insert(pos, {"id": "bad", "effect": eff_bad, "actions": ["read"],
                                           "resource": {"type": "doc"}, "condition": bc})
                        cases.append({"fam": "rule", "policy": {"algorithm": algo, "rules": rules},
                                      "env": mk_env(1, 2, False), "bad_pos": pos})
    return cases


def impl_evaluate(policy, env):
    from rbacx.core.policy import evaluate

    try:
        r = evaluate(policy, env)
        return {"decision": r.get("decision"), "reason": r.get("reason"),
                "rule_id": r.get("last_rule_id") or r.get("rule_id"), "obligations": r.get("obligations"),
                "policy_id": r.get("policy_id")}
    except Exception as e:  # noqa: BLE001
        return ["Raise", type(e).__name__]


def check_cases(chk, cases, replay=False):
    etm = [c for c in cases if c.get("kind") == "engine-time-mode"]
    if etm:
        engine_time_mode(chk, etm)
        cases = [c for c in cases if c.get("kind") != "engine-time-mode"]
        if not cases:
            return
    rmx = [c for c in cases if c.get("kind") == "relmix"]
    if rmx:
        cases = [c for c in cases if c.get("kind") != "relmix"]
        if cases:
            check_cases(chk, cases, replay)
        relmix_check(chk, rmx)          # after the operator cells, so that their (more specific) reports come first
        return
    lines = []
    for c in cases:
        if "policy" in c:
            lines.append(lib.model_call("policy.evaluate", None, c["policy"], c["env"], None))
        else:
            lines.append(lib.model_call("cond.eval", c["cond"], c["env"], None))
    outs = [lib.dec(x) for x in lib.run_model(RUNNER, lines)]
    for c, m in zip(cases, outs):
        fam = c.get("fam", "?")
        chk.count("fam:" + fam)
        if "policy" in c:
            i = impl_evaluate(c["policy"], c["env"])
            chk.mark(("rule", repr(c["policy"])), True)
            if m == ["Ood"]:
                chk.count("ood")
                continue
            mm = m if isinstance(m, dict) else norm_model(m)
            ii = i if isinstance(i, dict) else norm_impl(i)
            # the property: the ill-typed rule is not applied (never the deciding rule) and does not abort
            if not isinstance(i, dict):
                chk.violation("a type mismatch in one rule aborted evaluation of the policy", c, impl=i, model=m)
            elif i.get("rule_id") == "bad":
                chk.violation("a rule whose condition is ill-typed was applied", c, impl=i, model=m)
            elif ii != mm:
                chk.violation("evaluate differs from the model (c04_type_error_skips_rule: an ill-typed rule is "
                              "skipped and the remaining rules decide)", c, impl=i, model=m)
            continue
        i = impl_eval(c["cond"], c["env"])
        op = next(iter(c["cond"])) if isinstance(c["cond"], dict) and c["cond"] else "-"
        chk.count("op:" + str(op))
        if m == ["Ood"]:
            chk.count("ood")
            chk.mark(("ood", repr(c["cond"]), repr(c["env"].get("context"))), False)
            continue
        ni, nm = norm_impl(i), norm_model(m)
        nontriv = isinstance(m, bool)
        chk.mark((repr(c["cond"]), repr(c["env"].get("context")), bool(c["env"].get("__strict_types__"))), nontriv)
        chk.count("result:" + (str(m) if isinstance(m, bool) else str(nm[0])))
        chk.sample({"cond": c["cond"], "context": c["env"].get("context"), "strict": bool(c["env"].get("__strict_types__")),
                    "impl": i, "model": m}, every=4999)
        if ni != nm:
            chk.violation(f"operator {op!r}: implementation {ni} but the documented meaning (model, props/C04.v) is {nm}",
                          c, impl=i, model=m)


def corpus_cases():
    import json
    out = []
    d = lib.VERIF / "corpus" / "C04"
    for f in sorted(d.glob("*.json")):
        data = json.loads(f.read_text())
        for c in data["cases"]:
            c = lib.unjson(c)
            c["fam"] = "corpus:" + f.stem
            out.append(c)
    return out


def run(chk):
    chk.rule = ("enumerated: every binary operator x every ordered pair from a pool of %d values of all JSON types "
                "(near-duplicates 1/1.0/True/'1', big ints, NaN/inf, date-like strings, containers, datetimes) x "
                "lax/strict x operand placement (attribute reference / literal); time operators over in-grammar and "
                "malformed ISO strings, epoch numbers incl. range edges and rounding ties; between with attribute references "
                "inside the range pair / the range itself a reference (directly and through the engine); hasAll/hasAny/in/"
                "contains over collections with nested list / object members in every position; and/or/not over every "
                "tuple of <=3 leaves incl. ill-typed ones + random trees; resolve paths; multi-key objects; rule-level "
                "type-mismatch skipping under all algorithms; relmix: and/or/not trees (every shape with <=3 operands, one "
                "level of nesting, + random deeper ones) whose operands are `rel` lookups answered true/false by a "
                "configured checker (plain / async def) and comparisons that are true / false / ill-typed for the request, "
                "in every order, through eval_condition, evaluate, Guard (single policy, policy set), judged on result, "
                "reason and the ordered lookups. non-trivial = the model's answer is a boolean (not a "
                "type mismatch) [relmix: a lookup is made, or the condition holds, or the reason is not a plain mismatch]; "
                "distinct = distinct (condition, context, mode)" % len(gen.VALUES))
    chk.assumptions = [
        "ISO-8601 strings outside the modelled grammar YYYY-MM-DD[(T| )hh:mm[:ss[.f{1,6}]]][Z|+-hh:mm] are outside "
        "the model (counted as ood, skipped); Python 3.12 fromisoformat accepts more shapes",
        "NaN nested inside a container operand is outside the model (CPython's identity shortcut in container equality)",
        "datetime objects reached by an attribute path step are outside the model",
    ]
    cases = corpus_cases()
    cases += binop_cases(chk) + time_cases(chk) + nested_member_cases(chk) + logic_cases(chk) + resolve_cases(chk) + rule_cases(chk)
    cases += relmix_cases(chk)
    check_cases(chk, cases)
    engine_time_mode(chk)
    chk.exhaustive = chk.tier == "thorough"


def between_ref_engine_cases():
    """`between` whose bounds are attribute references inside the range pair (validity window carried by the resource),
    through the engine: single policy (compiled path) and set, lax and strict, the request carrying aware / naive
    datetimes, ISO text, epoch numbers or nothing"""
    import datetime as dt
    import polgen
    utc = dt.timezone.utc
    windows = [{"start": dt.datetime(2024, 1, 1, tzinfo=utc), "end": dt.datetime(2026, 1, 1, tzinfo=utc)},
               {"start": "2024-01-01T00:00:00Z", "end": "2026-01-01T00:00:00Z"},
               {"start": 1704067200, "end": dt.datetime(2026, 1, 1, tzinfo=utc)},
               {"start": dt.datetime(2024, 1, 1), "end": dt.datetime(2026, 1, 1, tzinfo=utc)},
               {"start": dt.datetime(2025, 1, 1, tzinfo=utc), "end": dt.datetime(2025, 1, 1, tzinfo=utc)},
               {"start": dt.datetime(2026, 1, 1, tzinfo=utc), "end": dt.datetime(2027, 1, 1, tzinfo=utc)},
               {"start": dt.datetime(2024, 1, 1, tzinfo=utc)},
               {"window": [dt.datetime(2024, 1, 1, tzinfo=utc), dt.datetime(2026, 1, 1, tzinfo=utc)]}]
    ranges = [[{"attr": "resource.attrs.start"}, {"attr": "resource.attrs.end"}],
              [{"attr": "resource.attrs.start"}, "2026-01-01T00:00:00Z"],
              ["2024-01-01T00:00:00Z", {"attr": "resource.attrs.end"}],
              [{"attr": "resource.attrs.start"}, enggen_dt_literal()],
              {"attr": "resource.attrs.window"}]
    out = []
    for ri, rng in enumerate(ranges):
        pol = {"id": "win%d" % ri, "algorithm": "deny-overrides", "rules": [
            {"id": "window", "effect": "permit", "actions": ["read"], "resource": {"type": "doc"},
             "condition": {"between": [{"attr": "context.now"}, rng]}}]}
        for wi, w in enumerate(windows):
            for now in (dt.datetime(2025, 1, 1, tzinfo=utc), "2025-01-01T00:00:00Z", 1735689600):
                req = {**polgen.BASE_REQ, "resource": {**polgen.BASE_REQ["resource"], "attrs": dict(w)}, "context": {"now": now}}
                for strict in (False, True):
                    shape = ("single", "set")[(ri + wi + strict) % 2] if isinstance(now, (str, int)) else None
                    for sh in ([shape] if shape else ["single", "set"]):
                        p2 = pol if sh == "single" else {"algorithm": "deny-overrides", "policies": [pol]}
                        out.append({"fam": "between_refs", "policy": p2, "req": req, "strict": strict})
    return out


def enggen_dt_literal():
    import enggen
    return enggen.DT_LITERAL


def engine_time_mode(chk, given=None):
    """the time operators through the engine (compiled path and sets), where the request values are what the caller
    handed to Subject/Resource/Context: a naive datetime / ISO text / epoch is a type mismatch in strict mode whatever
    the engine does to the request on the way in (same cases as the engine-level checks, judged here on the operator
    clause)."""
    import enggen

    cases = [dict(c, warm=False) for c in (given if given is not None else enggen.time_mode_cases() + between_ref_engine_cases())]
    impls = enggen.run_impl(cases)
    models = enggen.run_model(cases, impls, "engine.eval")
    for c, i, m in zip(cases, impls, models):
        d = i["decisions"][0]
        chk.count("fam:engine-time-mode")
        if m == ["Ood"] or not isinstance(m, dict):
            chk.count("ood")
            continue
        chk.mark(("engine-time", repr(c["policy"]), repr(c["req"]), c["strict"]), True)
        if not isinstance(d, dict) or (d["effect"], d["reason"]) != (m["effect"], m["reason"]):
            chk.violation("time operator through the engine (strict=%s): decision %s but the documented meaning of the "
                          "condition gives %s/%s (strict mode accepts timezone-aware datetimes only; a type mismatch makes "
                          "the rule not apply)" % (c["strict"], d if not isinstance(d, dict) else (d["effect"], d["reason"]),
                                                    m["effect"], m["reason"]),
                          {"kind": "engine-time-mode", **{k: c[k] for k in ("policy", "req", "strict")}}, impl=d, model=m)


# =================================================================================================
# relmix — and / or / not (nested) over `rel` operands MIXED with operands that are true / false / ill-typed for the
# request, in every order; the relationship checker answers true or false per triple (plain and `async def`).
# Evaluated (1) by policy.eval_condition directly, (2) by policy.evaluate on a policy wrapping the condition,
# (3) by Guard on that single policy (the compiled path), (4) by Guard on a policy set holding it — each compared
# with the model fed the same relationship table (runner `relcond`: value / decision AND the ordered lookups,
# which c04_and_short_circuit / c04_or_short_circuit fix as part of the final state; runner `engine` for evaluate).
# =================================================================================================
RM_ABSENT = "<absent>"
# (holder of the attribute, leaf over its path, values that make the leaf true / false / ill-typed)
RM_LOCAL = [
    ("subject", lambda p: {">=": [{"attr": p}, 3]}, {"T": [5, 3, 3.5], "F": [1, -2], "E": [RM_ABSENT, "5", True, None, [3]]}),
    ("subject", lambda p: {"startsWith": [{"attr": p}, "sec-"]}, {"T": ["sec-ops"], "F": ["ops", ""], "E": [42, RM_ABSENT, ["sec-"]]}),
    ("resource", lambda p: {"<": [{"attr": p}, 2]}, {"T": [1, 0.5], "F": [2, 7], "E": ["1", RM_ABSENT, False]}),
    ("context", lambda p: {"before": [{"attr": p}, "2999-01-01T00:00:00Z"]},
     {"T": ["2025-01-01T00:00:00Z", 1735689600], "F": ["3000-01-01T00:00:00Z"], "E": ["junk", RM_ABSENT, []]}),
    ("subject", lambda p: {"hasAny": [{"attr": p}, ["p", "q"]]}, {"T": [["p"], ["z", "q"]], "F": [["z"], []], "E": ["p", RM_ABSENT, 5]}),
    ("resource", lambda p: {"contains": [{"attr": p}, "x"]}, {"T": ["axb", ["x"]], "F": ["ab", []], "E": [5, RM_ABSENT, True]}),
    ("context", lambda p: {"not": {"<": [{"attr": p}, 18]}}, {"T": [18, 40.5], "F": [17], "E": ["17", RM_ABSENT]}),
]
RM_SUBJECT, RM_RESOURCE, RM_PARENT = "alice", ("doc", "7"), "folder:f1"


def rm_rel(i, salt):
    """the rel operand of slot i and the canonical query it stands for"""
    name = "r%d" % i
    k = (i + salt) % 4
    s, o = "user:" + RM_SUBJECT, "%s:%s" % RM_RESOURCE
    if k == 0:
        return {"rel": name}, [s, name, o, {}]
    if k == 1:
        return {"rel": {"relation": name, "resource": {"attr": "resource.attrs.parent"}}}, [s, name, RM_PARENT, {}]
    if k == 2:
        return {"rel": {"relation": name, "subject": "group:g1"}}, ["group:g1", name, o, {}]
    return {"rel": {"relation": name, "ctx": {"ip": "10.0.0.1"}}}, [s, name, o, {"ip": "10.0.0.1"}]


class _RmWorld:
    """request attributes and relationship answers collected while the leaves of one condition are made"""

    def __init__(self):
        self.attrs = {"subject": {}, "resource": {"parent": RM_PARENT}, "context": {}}
        self.answers = []
        self.n = 0

    def rel(self, salt, answer):
        leaf, q = rm_rel(self.n, salt)
        self.n += 1
        self.answers.append(q + [bool(answer)])
        return leaf

    def local(self, salt, state):
        i = self.n
        self.n += 1
        holder, mk, vals = RM_LOCAL[(i * 2 + salt) % len(RM_LOCAL)]
        pool = vals[state]
        v = pool[(salt // 3 + i) % len(pool)]
        if not (isinstance(v, str) and v == RM_ABSENT):
            self.attrs[holder]["a%d" % i] = gen.fresh(v)
        return mk(("context.a%d" if holder == "context" else holder + ".attrs.a%d") % i)

    def req(self):
        return {"subject": {"id": RM_SUBJECT, "roles": [], "attrs": self.attrs["subject"]}, "action": "read",
                "resource": {"type": RM_RESOURCE[0], "id": RM_RESOURCE[1], "attrs": self.attrs["resource"]},
                "context": self.attrs["context"]}


# how the condition is wrapped into a policy: (effect of the rule, algorithm, other rule or None, other rule first?)
RM_WRAPS = [("permit", "deny-overrides", None, False), ("deny", "deny-overrides", "permit", False),
            ("permit", "permit-overrides", "deny", True), ("permit", "first-applicable", "deny", False),
            ("deny", "first-applicable", "permit", False), ("deny", "permit-overrides", None, False)]


def rm_policy(cond, wrap):
    eff, algo, other, first = RM_WRAPS[wrap]
    rules = [{"id": "mix", "effect": eff, "actions": ["read"], "resource": {"type": "doc"}, "condition": cond}]
    if other:
        o = {"id": "other", "effect": other, "actions": ["read"], "resource": {"type": "doc"}}
        rules = [o] + rules if first else rules + [o]
    return {"id": "p", "algorithm": algo, "rules": rules}


def rm_set(pol, how):
    if how == "set":
        return {"id": "s", "algorithm": "deny-overrides", "policies": [pol]}
    return {"id": "t", "algorithm": "first-applicable", "policies": [
        {"id": "s", "algorithm": "permit-overrides", "policies": [pol]},
        {"id": "fallback", "algorithm": "permit-overrides", "rules": [
            {"id": "fb", "effect": "deny", "actions": ["read"], "resource": {}}]}]}


def rm_shapes():
    s = ["slot"]
    out = []
    for op in ("and", "or"):
        out += [[op, s, s], [op, s, s, s], ["not", [op, s, s]], [op, ["not", s], s], [op, s, ["not", s]]]
        for op2 in ("and", "or"):
            out += [[op, s, [op2, s, s]], [op, [op2, s, s], s]]
    return out


def rm_slots(t):
    return 1 if t[0] == "slot" else sum(rm_slots(x) for x in t[1:])


def rm_case(fam, cond, world, salt, strict, wraps, sets):
    return {"kind": "relmix", "fam": fam, "cond": cond, "req": world.req(), "answers": world.answers,
            "strict": bool(strict), "wraps": list(wraps), "sets": list(sets)}


def relmix_cases(chk):
    quick = chk.tier == "quick"
    cases = []
    salt = chk.seed * 7
    for shape in rm_shapes():
        n = rm_slots(shape)
        for kinds in itertools.product("RL", repeat=n):
            if "R" not in kinds:
                continue
            for outs in itertools.product(*[("t", "f") if k == "R" else ("T", "F", "E") for k in kinds]):
                salt += 1
                if quick and n == 3 and "E" not in outs and salt % 4 >= 2:
                    continue                      # quick: half of the all-well-typed three-operand cells
                w = _RmWorld()
                it = iter(zip(kinds, outs))

                def go(t):
                    if t[0] == "slot":
                        k, o = next(it)
                        return w.rel(salt, o == "t") if k == "R" else w.local(salt, o)
                    if t[0] == "not":
                        return {"not": go(t[1])}
                    return {t[0]: [go(x) for x in t[1:]]}
                cond = go(shape)
                # quick: one wrapping per cell (the bare permit rule, whose reason shows mismatch / type mismatch, every
                # other time; one of the five others in turn); thorough: all six
                wraps = [(0, 1 + (salt // 2) % 5)[salt % 2]] if quick else range(len(RM_WRAPS))
                sets = ["set"] if quick else ["set", "nested"]
                cases.append(rm_case("relmix", cond, w, salt, salt % 6 == 0, wraps, sets))
    rng = chk.rng
    for _ in range(200 if quick else 6000):
        salt += 1
        w = _RmWorld()
        made = []

        def leaf():
            r = rng.random()
            if made and r < 0.15:                 # the same operand again (same triple: the per-decision memo)
                return gen.fresh(rng.choice(made))
            if r < 0.25:
                return gen.fresh(rng.choice([True, False, {"<": ["a", 1]}, {"==": [1, 1]}, {"rel": ""}]))
            lf = w.rel(rng.randrange(99), rng.random() < 0.5) if rng.random() < 0.45 else w.local(rng.randrange(99), rng.choice("TFE"))
            made.append(lf)
            return lf

        def build(d):
            if d == 0 or rng.random() < 0.2:
                return leaf()
            op = rng.choice(["and", "or", "and", "or", "not"])
            if op == "not":
                return {"not": build(d - 1)}
            return {op: [build(d - 1) for _ in range(rng.choice([1, 2, 2, 3, 3, 4]))]}
        cond = build(rng.choice([2, 3, 3, 4]))
        cases.append(rm_case("relmix-random", cond, w, salt, rng.random() < 0.2, [rng.randrange(len(RM_WRAPS))],
                             [rng.choice(["set", "nested"])]))
    return cases


def rm_env(c):
    env = gen.fresh(c["req"])
    if c.get("strict"):
        env["__strict_types__"] = True
    return env


def _rm_checkers(answers):
    import asyncio
    import copy

    class Rel:
        def __init__(self):
            self.calls = []

        def _answer(self, s, r, o, ctx):
            self.calls.append([s, r, o, copy.deepcopy(ctx if ctx is not None else {})])     # at call time: the order asked
            for row in answers:
                if row[:3] == [s, r, o] and row[3] == (ctx or {}):
                    return row[4]
            return False

        def check(self, subject, relation, resource, *, context=None):
            return self._answer(subject, relation, resource, context)

        def batch_check(self, triples, *, context=None):
            return [self.check(*t, context=context) for t in triples]

    class ARel(Rel):
        async def check(self, subject, relation, resource, *, context=None):  # type: ignore[override]
            a = self._answer(subject, relation, resource, context)
            await asyncio.sleep(0)
            return a

        async def batch_check(self, triples, *, context=None):  # type: ignore[override]
            return [await self.check(*t, context=context) for t in triples]

    return {"sync": Rel, "async": ARel}


def rm_paths(c):
    """every (path, checker, wrap) evaluated for a case, in a fixed order"""
    out = [("cond", "sync", None), ("cond", "async", None)]
    for w in c["wraps"]:
        out.append(("evaluate", "sync", w))
        out.append(("guard", "sync", w))
        out.append(("guard", "async", w))
        for k, how in enumerate(c["sets"]):
            out.append(("guard:" + how, ("async", "sync")[(w + k) % 2], w))
    return out


async def _rm_run_path(c, path, ck, wrap):
    """one evaluation on the implementation: {"value" | "decision", "calls"}"""
    import asyncio
    import contextvars
    import copy

    from rbacx.core import policy as pol
    from rbacx.core.relctx import EVAL_LOOP, REL_CHECKER, REL_LOCAL_CACHE

    rec = _rm_checkers(c["answers"])[ck]()
    if path in ("cond", "evaluate"):
        env = rm_env(c)

        def body(loop):
            REL_CHECKER.set(rec)
            REL_LOCAL_CACHE.set(None)
            EVAL_LOOP.set(loop)
            if path == "cond":
                return impl_eval(copy.deepcopy(c["cond"]), env)
            return impl_evaluate(rm_policy(copy.deepcopy(c["cond"]), wrap), env)
        if ck == "async":       # an awaitable answer is resolved on the captured loop, from a worker thread
            v = await asyncio.to_thread(body, asyncio.get_running_loop())
        else:
            v = contextvars.copy_context().run(body, None)
        return {"value": v, "calls": rec.calls}
    from rbacx.core.engine import Guard
    from rbacx.core.model import Action, Context, Resource, Subject

    p = rm_policy(copy.deepcopy(c["cond"]), wrap)
    if path != "guard":
        p = rm_set(p, path.split(":")[1])
    req = gen.fresh(c["req"])
    g = Guard(p, relationship_checker=rec, **({"strict_types": True} if c.get("strict") else {}))
    try:
        d = await g.evaluate_async(Subject(id=req["subject"]["id"], roles=list(req["subject"]["roles"]), attrs=req["subject"]["attrs"]),
                                   Action(req["action"]),
                                   Resource(type=req["resource"]["type"], id=req["resource"]["id"], attrs=req["resource"]["attrs"]),
                                   Context(attrs=req["context"]))
        v = {"allowed": d.allowed, "effect": d.effect, "obligations": d.obligations, "challenge": d.challenge,
             "rule_id": d.rule_id, "policy_id": d.policy_id, "reason": d.reason}
    except Exception as e:  # noqa: BLE001
        v = ["Raise", type(e).__name__]
    return {"value": v, "calls": rec.calls}


def _rm_shard(cases):
    import asyncio

    async def go():
        return [[await _rm_run_path(c, *p) for p in rm_paths(c)] for c in cases]
    return asyncio.run(go())


def rm_run_impl(cases):
    import multiprocessing as mp

    n = min(12, max(1, len(cases) // 60))
    if n <= 1:
        return _rm_shard(cases)
    shards = [cases[i::n] for i in range(n)]
    with mp.get_context("fork").Pool(n) as pool:
        parts = pool.map(_rm_shard, shards)
    out = [None] * len(cases)
    for i, part in enumerate(parts):
        out[i::n] = part
    return out


def rm_run_model(cases):
    """per case, per path of rm_paths: {"value", "log"} (log None where the model entry does not give it)"""
    lines = {"engine": {}, "relcond": {}}          # runner -> line -> position (the two checkers share their lines)
    where = []
    for ci, c in enumerate(cases):
        rows = [r[:4] + [["ret", r[4]]] for r in c["answers"]]
        for pi, (path, _ck, wrap) in enumerate(rm_paths(c)):
            if path == "cond":
                tag, ln = "relcond", lib.model_call("relcond.cond", c["cond"], rm_env(c), rows, None, False)
            elif path == "evaluate":
                tag, ln = "engine", lib.model_call("policy.evaluate", None, rm_policy(c["cond"], wrap), rm_env(c), c["answers"])
            else:
                p = rm_policy(c["cond"], wrap)
                if path != "guard":
                    p = rm_set(p, path.split(":")[1])
                tag, ln = "relcond", lib.model_call("relcond.eval", bool(c.get("strict")), p, c["req"], None, rows, None)
            where.append((tag, lines[tag].setdefault(ln, len(lines[tag])), ci, pi))
    outs = {}
    for tag, d in lines.items():
        ls = list(d)
        outs[tag] = [lib.dec(x) for x in lib.run_model(tag, ls, chunk=max(50, min(4000, len(ls) // 10 + 1)), procs=10)]
    per = [[None] * len(rm_paths(c)) for c in cases]
    for tag, k, ci, pi in where:
        o = outs[tag][k]
        if tag == "engine":
            per[ci][pi] = {"value": o, "log": None, "unknown": 1 if o == ["UnknownRelQuery"] else 0}
        elif "decision" in o:
            per[ci][pi] = {"value": o["decision"], "log": o["log"], "unknown": o["unknown"]}
        else:
            per[ci][pi] = {"value": o["value"], "log": o["log"], "unknown": o["unknown"]}
    return per


RM_WHERE = {"cond": "policy.eval_condition called directly", "evaluate": "policy.evaluate called directly",
            "guard": "Guard on the single policy (compiled path)", "guard:set": "Guard on a policy set holding the policy",
            "guard:nested": "Guard on a nested policy set holding the policy"}


def _rm_differs(i, m):
    """(what differs, impl side, model side) or None"""
    iv, mv = i["value"], m["value"]
    if isinstance(mv, dict) and isinstance(iv, dict):
        keys = [k for k in mv if k in iv]
        if any(iv[k] != mv[k] for k in keys):
            return "result", {k: iv[k] for k in keys}, mv
    elif norm_impl(iv) != norm_model(mv):
        return "result", iv, mv
    if m["log"] is not None and i["calls"] != m["log"]:
        return "lookups", i["calls"], m["log"]
    return None


def relmix_check(chk, cases):
    import asyncio

    impls = rm_run_impl(cases)
    models = rm_run_model(cases)
    found = []                 # (rank, clause, case, impl, model): differences of the result before differences of the lookups
    confirmed = 0
    for c, ii, mm in zip(cases, impls, models):
        chk.count("fam:" + c.get("fam", "relmix"))
        for (path, ck, wrap), i, m in zip(rm_paths(c), ii, mm):
            chk.count("relmix-path:" + path)
            if m["value"] == ["Ood"] or m["value"] == ["UnknownRelQuery"] or m["unknown"]:
                chk.count("ood" if m["value"] == ["Ood"] else "relmix:query-outside-the-table")
                chk.mark(("relmix-ood", path, repr(c["cond"])), False)
                continue
            mv = m["value"]
            chk.mark(("relmix", path, ck, wrap, repr(c["cond"]), repr(c["req"]), repr(c["answers"]), c["strict"]),
                     bool(m["log"]) or mv is True or (isinstance(mv, dict) and mv.get("reason") != "condition_mismatch"))
            chk.count("relmix-result:" + (str(mv) if isinstance(mv, bool) else mv[0] if isinstance(mv, list)
                                          else str(mv.get("reason"))))
            diff = _rm_differs(i, m)
            if diff and ck == "async":
                # an awaited answer is given up on after a time-out: only a difference that shows again counts
                # (after a hundred confirmed ones the remaining differences of a broken tree are only counted)
                if confirmed >= 100:
                    chk.count("relmix:async-difference-not-re-run")
                    continue
                for _ in range(2):
                    i = asyncio.run(_rm_run_path(c, path, ck, wrap))
                    diff = _rm_differs(i, m)
                    if not diff:
                        break
                confirmed += 1 if diff else 0
            if not diff:
                continue
            what, iside, mside = diff
            one = dict(c, wraps=[wrap] if wrap is not None else c["wraps"][:1],
                       sets=[path.split(":")[1]] if ":" in path else c["sets"][:1])
            if what == "result":
                found.append((0, "and/or/not over `rel` operands and operands that may be ill-typed, %s (%s relationship checker): "
                              "implementation gives %s but composing the operands left to right with short-circuit "
                              "(c04_and, c04_or, c04_not, c04_and_short_circuit, c04_or_short_circuit; a type mismatch that is "
                              "reached makes the rule not apply, one that is not reached does not matter) gives %s"
                              % (RM_WHERE[path], ck, json_brief(iside), json_brief(mside)), one, i, m))
            else:
                found.append((1, "and/or/not over `rel` operands, %s (%s relationship checker): the lookups put to the checker are "
                              "%s but left-to-right evaluation with short-circuit asks %s (operands right of a deciding "
                              "operand are not evaluated: c04_and_short_circuit / c04_or_short_circuit fix the final state)"
                              % (RM_WHERE[path], ck, json_brief(iside), json_brief(mside)), one, i, m))
    found.sort(key=lambda f: f[0])
    for _rank, clause, one, i, m in found:
        chk.violation(clause, one, impl=i, model=m)


def json_brief(x):
    import json
    if isinstance(x, dict) and "reason" in x:
        x = {k: x.get(k) for k in ("decision", "effect", "reason", "rule_id") if k in x}
    return json.dumps(x, default=str)[:300]
