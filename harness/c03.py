"""C03 — compiled path = reference semantics on the most specific matching tier.

Three checks per case:
 (a) correspondence: rbacx.core.compiler.compile(policy)(env) and Guard's decision vs the
     extracted model Compiler.compiled_decide (the object of the theorems in props/C03.v);
 (b) the property judged directly: Guard's decision vs rbacx.core.policy.evaluate on the policy
     restricted to the most specific tier holding a target-matching rule — tiers computed here from
     the statement (declared shape), matching by the implementation's own match_actions/match_resource;
 (c) metamorphic: inserting rules whose action or resource target does not match, at any position,
     leaves Guard's decision unchanged;
 (d) history: the same request on a Guard / compiled function with a past (sibling requests; set_policy on a Guard
     created with another policy; requests whose evaluation fails, failing collaborators) is answered alike."""
import asyncio
import itertools

import lib
import polgen

RUNNER = "engine"

REQS = [
    {"type": "doc", "id": "1", "attrs": {"k": 1}},
    {"type": "doc", "id": "2", "attrs": {"k": 2}},
    {"type": "img", "id": "1", "attrs": {}},
    {"type": None, "id": "1", "attrs": {"k": 1}},
    {"type": "*", "id": "1", "attrs": {}},
    {"type": 1, "id": 1, "attrs": {"k": "1"}},
]


def rule_pool():
    pool = []
    acts = [["read"], ["*"], ["write"], ["write", "read"]]
    ress = [{"type": "doc"}, {"type": "img"}, {"type": "*"}, {}, {"type": ["doc", "img"]}, {"type": ["*"]},
            {"type": "doc", "id": "1"}, {"type": "doc", "id": "2"}, {"type": "*", "id": "1"}, {"id": "1"},
            {"type": "doc", "attrs": {"k": 1}}, {"type": "doc", "attrs": {"k": 2}}, {"type": "*", "attrs": {"k": 1}},
            {"type": "doc", "id": "1", "attrs": {"k": 1}}, {"type": ["img", "doc"], "id": "2"}, {"type": "1"},
            {"type": "1", "id": 1}, {"type": "doc", "attributes": {"k": 1}},
            {"type": ["doc", "*"]}, {"type": ["*", "img"], "id": "1"}, {"type": ["doc", "*"], "attrs": {"k": 1}},
            {"type": "doc", "attrs": {"k": [1, 2]}}, {"type": "img", "attrs": {"status": ["draft", "review"], "m": {"a": 1}}}]
    conds = [None, False, {"==": [{"attr": "resource.id"}, "1"]}]
    i = 0
    for a in acts:
        for r in ress:
            for e in ("permit", "deny"):
                for c in conds:
                    i += 1
                    rule = {"id": f"r{i}", "effect": e, "actions": a, "resource": r}
                    if c is not None:
                        rule["condition"] = c
                    pool.append(rule)
    return pool


def tier(rule, rt):
    """tier of a rule for a request whose type has string form rt (None = no type) — from the statement."""
    r = rule.get("resource") or {}
    t = r.get("type")
    names, wildcard = [], False
    if t is None:
        wildcard = True
    elif isinstance(t, str):
        wildcard = t == "*"
        names = [] if t == "*" else [t]
    elif isinstance(t, list):
        strs = [x for x in t if isinstance(x, str)]
        names = [x for x in strs if x != "*"]
        wildcard = ("*" in strs) or not strs
    else:
        wildcard = True
    if rt is not None and rt in names:
        if r.get("id") is not None:
            return 0
        attrs = r.get("attrs") or r.get("attributes") or {}
        if isinstance(attrs, dict) and attrs:
            return 1
        return 2
    return 3 if wildcard else None


def reference(policy, env):
    from rbacx.core.policy import _is_strict, evaluate, match_actions, match_resource

    if "policies" in policy:             # a policy set: the reference evaluation of the set itself
        from rbacx.core.policyset import decide as decide_set

        out = decide_set(policy, env)
        return {"decision": out["decision"], "rule_id": out.get("last_rule_id") or out.get("rule_id"),
                "obligations": out.get("obligations"), "reason": out.get("reason"), "policy_id": out.get("policy_id")}, []

    res = env.get("resource") or {}
    rt = None if res.get("type") is None else str(res.get("type"))
    strict = True if _is_strict(env) else None
    rules = policy.get("rules") or []
    tiers = []
    for r in rules:
        ti = tier(r, rt)
        m = ti is not None and match_actions(r, env.get("action") or "") and \
            match_resource(r.get("resource") or {}, res, strict=strict)
        tiers.append((ti, m))
    best = min([ti for ti, m in tiers if m], default=None)
    sel = [r for r, (ti, m) in zip(rules, tiers) if best is not None and ti == best]
    out = evaluate({"algorithm": policy["algorithm"], "rules": sel}, env)
    return {"decision": out["decision"], "rule_id": out.get("last_rule_id") or out.get("rule_id"),
            "obligations": out.get("obligations"), "reason": out.get("reason")}, sel


# ---- "engines with a past that includes failing evaluations" (added after round 5 of the seeded campaign) ----
# A request value whose use fails: a detached ORM row / lazily loaded object.  str(), ==, !=, hash() and every
# attribute access raise EXC.  A request carrying one is legitimate input; its own evaluation may raise to the caller
# (not judged) — the engine must answer every LATER request by the reference evaluation all the same.
PAST_EXC = ["RuntimeError", "KeyError", "ValueError", "TypeError", "OSError"]
PAST_SHAPES = ["type", "id", "attr", "lazy", "unhashable", "role"]


def _boom(exc_name):
    import builtins
    exc = getattr(builtins, exc_name)

    class Boom:
        __slots__ = ()

        def _fail(self, *a, **k):
            raise exc("lazy load failed: instance is not bound to a session")

        __str__ = __eq__ = __ne__ = __hash__ = _fail

        def __getattr__(self, name):
            raise exc("lazy load of %r failed" % name)

    return Boom()


def attr_keys(policy):
    """attribute names the policy's resource targets mention (where a raising attribute value is looked at)."""
    keys, todo = [], [policy]
    while todo:
        p = todo.pop()
        todo.extend(x for x in (p.get("policies") or []) if isinstance(x, dict))
        for r in p.get("rules") or []:
            rd = r.get("resource") or {}
            a = rd.get("attrs") or rd.get("attributes") or {}
            keys.extend(k for k in (a if isinstance(a, dict) else {}) if k not in keys)
    return keys or ["k"]


def failing_request(shape, exc_name, r, policy):
    """(subject kwargs, resource kwargs, context attrs) of a sibling of resource r with ONE failing value."""
    b = _boom(exc_name)
    sub = {"id": "u"}
    res = {"type": r["type"], "id": r["id"], "attrs": dict(r["attrs"])}
    ctx = {}
    if shape == "type":            # str(resource.type) fails
        res["type"] = b
    elif shape == "id":            # comparing / printing resource.id fails
        res["id"] = b
    elif shape == "attr":          # a resource attribute named by a rule target fails when compared / printed
        res["attrs"].update({k: b for k in attr_keys(policy)})
    elif shape == "lazy":          # conditions walking {"attr": "a.b.c"} into request objects hit a field that fails
        res["attrs"]["owner"] = b
        sub["attrs"] = {"team": b}
        ctx = {"session": b}
    elif shape == "unhashable":    # plain values: membership test of an unhashable value against a set
        ctx = {"tag": {"name": "a"}, "tags": frozenset(["a", "b"])}
    elif shape == "role":          # a role entry that fails when compared
        sub["roles"] = [b]
    return sub, res, ctx


class _Flaky:
    """role resolver + obligation checker + relationship checker + metrics sink + decision log sink that are neutral
    while `bad` is False and raise while it is True."""

    def __init__(self):
        from rbacx.core.obligations import BasicObligationChecker

        self.bad = False
        self._basic = BasicObligationChecker()
        outer = self

        class Rel:
            def check(self, subject, relation, resource, *, context=None):
                outer.trip("relationship checker")
                return False

        class Obl:
            def check(self, result, context):
                outer.trip("obligation checker")
                return outer._basic.check(result, context)

        self.rel, self.obl = Rel(), Obl()

    def trip(self, who):
        if self.bad:
            raise ConnectionError(who + " unavailable")

    def expand(self, roles):
        self.trip("role resolver")
        return list(roles or [])

    def inc(self, name, labels=None):
        self.trip("metrics")

    def log(self, payload):
        self.trip("log sink")


def walk_pool():
    """rules whose conditions walk attribute paths into request objects / test membership / ask the relationship
    checker — the places where a legitimate request value can make rule evaluation raise."""
    conds = [{"==": [{"attr": "resource.attrs.owner.team"}, {"attr": "subject.attrs.team"}]},
             {"!=": [{"attr": "context.session.user.id"}, "x"]},
             {"or": [{"==": [{"attr": "context.tag"}, None]}, {"in": [{"attr": "context.tag"}, {"attr": "context.tags"}]}]},
             {"not": {"hasAny": [{"attr": "subject.roles"}, ["banned"]]}},
             {"or": [{"rel": "viewer"}, {"==": [{"attr": "resource.attrs.owner.id"}, None]}]}]
    ress = [{"type": "doc", "id": "1"}, {"type": "doc", "attrs": {"k": 1}}, {"type": "doc"}, {"type": ["img", "doc"]},
            {"type": "*"}, {}]
    pool, i = [], 0
    for cnd in conds:
        for rd in ress:
            for e in ("permit", "deny"):
                i += 1
                pool.append({"id": "w%d" % i, "effect": e, "actions": ["read"] if i % 3 else ["*"], "resource": rd,
                             "condition": cnd})
    return pool


def gen_cases(chk):
    rng = chk.rng
    pool = rule_pool()
    cases = []
    n2 = 1500 if chk.tier == "quick" else 9000
    n34 = 1500 if chk.tier == "quick" else 9000
    # every single rule
    for r in pool:
        for algo in polgen.ALGOS:
            cases.append({"fam": "one", "policy": {"algorithm": algo, "rules": [r]}})
    for _ in range(n2):
        rs = [rng.choice(pool), rng.choice(pool)]
        cases.append({"fam": "two", "policy": {"algorithm": rng.choice(polgen.ALGOS), "rules": rs}})
    for _ in range(n34):
        rs = [rng.choice(pool) for _ in range(rng.choice([3, 4, 5]))]
        cases.append({"fam": "many", "policy": {"algorithm": rng.choice(polgen.ALGOS), "rules": rs}})
    # the same rule object listed twice, a rule listing an action twice, Algorithm spelling
    r0 = pool[0]
    cases.append({"fam": "dup", "policy": {"algorithm": "first-applicable", "rules": [r0, pool[7], r0]}})
    cases.append({"fam": "dup", "policy": {"algorithm": "Deny-Overrides",
                                           "rules": [{"id": "x", "effect": "deny", "actions": ["read", "read", "*"], "resource": {"type": "doc"}}, pool[3]]}})
    # policy sets: "for a policy set it [the engine's decision] equals the reference evaluation of the set"
    set_cases = []
    n_sets = 250 if chk.tier == "quick" else 3000
    for k in range(n_sets):
        kids = []
        for j in range(rng.choice([1, 2, 2, 3])):
            rs = [dict(rng.choice(pool), id="c%d_%s_%d" % (j, "r", i)) for i in range(rng.choice([1, 2, 3]))]
            kid = {"id": "kid%d" % j, "rules": rs}
            a = rng.choice(polgen.ALGOS + [None])
            if a:
                kid["algorithm"] = a
            if rng.random() < 0.2:
                kid = {"id": "inner%d" % j, "algorithm": rng.choice(polgen.ALGOS), "policies": [kid]}
            kids.append(kid)
        ps = {"policies": kids}
        a = rng.choice(polgen.ALGOS + [None])
        if a:
            ps["algorithm"] = a
        for ri, res in enumerate(REQS):
            if (ri + k) % 2:
                continue
            set_cases.append({"fam": "set", "policy": ps, "resource": res, "strict": bool(k % 2)})
    out = list(set_cases)
    # rules whose conditions walk into request objects / test membership / ask the relationship checker (walk_pool);
    # drawn last, so that the families above are what they were for a given seed
    wpool = walk_pool()
    for _ in range(60 if chk.tier == "quick" else 900):
        rs = [rng.choice(wpool) for _ in range(rng.choice([2, 3, 4]))]
        if rng.random() < 0.3:
            rs.insert(rng.randrange(len(rs) + 1), rng.choice(pool))
        cases.append({"fam": "walk", "policy": {"algorithm": rng.choice(polgen.ALGOS), "rules": rs}})
    for c in cases:
        # rules must be distinct objects with distinct ids
        pol = {"algorithm": c["policy"]["algorithm"],
               "rules": [dict(r, id="%s_%d" % (r["id"], i)) for i, r in enumerate(c["policy"]["rules"])]}
        for ri, res in enumerate(REQS):
            if chk.tier == "quick" and c["fam"] != "one" and (ri + len(out)) % 2:
                continue
            for strict in (False, True):
                out.append({"fam": c["fam"], "policy": pol, "resource": res, "strict": strict})
    # the failing past of the history stage: which failing requests (shape, exception) the engine has answered before
    # the judged one; rotated over the cases (quick: one shape on a pseudo-random half of the cases, every walk case;
    # thorough: two shapes on every case), a quarter of them also on a Guard whose collaborators (role resolver,
    # obligation / relationship checker, metrics, log sink) fail during that phase
    import zlib
    for i, c in enumerate(out):
        h = zlib.crc32(b"past%d" % i)
        shapes = PAST_SHAPES if c["fam"] == "walk" else PAST_SHAPES[:3]
        n = 2 if chk.tier != "quick" else 1 if (h % 2 == 0 or c["fam"] == "walk") else 0
        c["past"] = [[shapes[(i + j) % len(shapes)], PAST_EXC[(i // 3 + j) % len(PAST_EXC)]] for j in range(n)]
        c["past_collab"] = (h >> 1) % 4 == 0
    return out


def run_impl(cases):
    """sharded over processes (each shard runs one event loop)."""
    import multiprocessing as mp

    n = min(12, max(1, len(cases) // 400))
    if n <= 1:
        return _run_impl(cases)
    shards = [cases[i::n] for i in range(n)]
    with mp.get_context("fork").Pool(n) as pool:
        parts = pool.map(_run_impl, shards)
    out = [None] * len(cases)
    for i, part in enumerate(parts):
        out[i::n] = part
    return out


def _run_impl(cases):
    from rbacx.core.compiler import compile as compile_policy
    from rbacx.core.engine import Guard
    from rbacx.core.model import Action, Context, Resource, Subject

    res = []

    async def go():
        for c in cases:
            r = c["resource"]
            req = {"subject": {"id": "u", "roles": [], "attrs": {}}, "action": "read", "resource": r, "context": {}}
            env = polgen.env_of_req(req, strict=c["strict"])
            g = Guard(c["policy"], strict_types=c["strict"])
            try:
                d = await g.evaluate_async(Subject(id="u"), Action("read"),
                                           Resource(type=r["type"], id=r["id"], attrs=dict(r["attrs"])), Context({}))
                eng = {"decision": d.effect, "rule_id": d.rule_id, "obligations": d.obligations, "reason": d.reason}
            except Exception as e:  # noqa: BLE001
                eng = ["Raise", type(e).__name__]
            try:
                raw = compile_policy(c["policy"])(env)
                comp = {"decision": raw["decision"], "rule_id": raw.get("last_rule_id") or raw.get("rule_id"),
                        "obligations": raw.get("obligations"), "reason": raw.get("reason")}
            except Exception as e:  # noqa: BLE001
                comp = ["Raise", type(e).__name__]
            try:
                ref, sel = reference(c["policy"], env)
            except Exception as e:  # noqa: BLE001
                ref, sel = ["Raise", type(e).__name__], []
            # history: the same request on a Guard / compiled function that has already answered sibling requests
            # (every resource of REQS, and this resource with other attributes / another id) must be answered alike
            hist, pastinfo = None, []
            try:
                g2 = Guard(c["policy"], strict_types=c["strict"])
                fn2 = compile_policy(c["policy"])
                sibs = [dict(x) for x in REQS] + [{**r, "attrs": {"k": 2}}, {**r, "attrs": {}}, {**r, "attrs": {"k": 1}},
                                                  {**r, "id": "zz"}]
                for sres in sibs:
                    try:
                        await g2.evaluate_async(Subject(id="u"), Action("read"),
                                                Resource(type=sres["type"], id=sres["id"], attrs=dict(sres["attrs"])), Context({}))
                        fn2(polgen.env_of_req({**req, "resource": sres}, strict=c["strict"]))
                    except Exception:  # noqa: BLE001
                        pass
                d3 = await g2.evaluate_async(Subject(id="u"), Action("read"),
                                             Resource(type=r["type"], id=r["id"], attrs=dict(r["attrs"])), Context({}))
                eng3 = {"decision": d3.effect, "rule_id": d3.rule_id, "obligations": d3.obligations, "reason": d3.reason}
                raw3 = fn2(env)
                comp3 = {"decision": raw3["decision"], "rule_id": raw3.get("last_rule_id") or raw3.get("rule_id"),
                         "obligations": raw3.get("obligations"), "reason": raw3.get("reason")}
                if eng3 != eng or comp3 != comp:
                    hist = {"engine_after_history": eng3, "compiled_after_history": comp3}
                # ... and after requests whose evaluation FAILS (a request value that raises when looked at: in the
                # compiled function, in the interpreter, to the caller - none of that is judged): the request judged
                # above must afterwards be answered as before, by the Guard, by the compiled function, and by a Guard
                # whose collaborators failed as well
                if hist is None:
                    hist = await failing_past(g2, fn2, c, r, env, eng, comp, pastinfo)
                # ... and on a Guard that was created with another policy and then given this one by set_policy();
                # every 3rd case with policies that json.dumps cannot serialise (a datetime literal in a rule that
                # never matches), as Python-built policies may be
                if hist is None and "policies" not in c["policy"]:
                    import datetime as _dt
                    inert = [{"id": "zz_dt", "effect": "deny", "actions": ["purge"], "resource": {"type": "doc"},
                              "condition": {"after": [_dt.datetime(2999, 1, 1, tzinfo=_dt.timezone.utc), {"attr": "context.now"}]}}] \
                        if len(res) % 3 == 0 else []
                    target = {"algorithm": c["policy"]["algorithm"], "rules": list(c["policy"]["rules"]) + inert}
                    decoy = {"algorithm": "permit-overrides",
                             "rules": [{"id": "zz_decoy", "effect": "permit", "actions": ["*"], "resource": {}}] + inert}
                    g4 = Guard(decoy, strict_types=c["strict"])
                    await g4.evaluate_async(Subject(id="u"), Action("read"),
                                            Resource(type=r["type"], id=r["id"], attrs=dict(r["attrs"])), Context({}))
                    g4.set_policy(target)
                    d4 = await g4.evaluate_async(Subject(id="u"), Action("read"),
                                                 Resource(type=r["type"], id=r["id"], attrs=dict(r["attrs"])), Context({}))
                    eng4 = {"decision": d4.effect, "rule_id": d4.rule_id, "obligations": d4.obligations, "reason": d4.reason}
                    if proj(eng4) != proj(eng):
                        hist = {"engine_after_set_policy_on_a_guard_created_with_another_policy": eng4,
                                "policy_serialisable_by_json": not inert}
            except Exception as e:  # noqa: BLE001
                if isinstance(eng, dict):
                    hist = {"engine_after_history": ["Raise", type(e).__name__]}
            # metamorphic: insert non-matching rules (other action / other type / other id) at every position
            meta = []
            extra = [{"id": "zz_a", "effect": "deny", "actions": ["purge"], "resource": {"type": r["type"] if isinstance(r["type"], str) else "doc"}},
                     {"id": "zz_t", "effect": "deny", "actions": ["read"], "resource": {"type": "nomatch-type", "id": r["id"]}},
                     {"id": "zz_i", "effect": "permit", "actions": ["*"], "resource": {"type": "*", "id": "no-such-id"}}]
            for pos in range(len(c["policy"].get("rules") or []) + 1 if "policies" not in c["policy"] else 0):
                ex = extra[pos % 3]
                pol2 = {"algorithm": c["policy"]["algorithm"],
                        "rules": c["policy"]["rules"][:pos] + [ex] + c["policy"]["rules"][pos:]}
                try:
                    d2 = await Guard(pol2, strict_types=c["strict"]).evaluate_async(
                        Subject(id="u"), Action("read"),
                        Resource(type=r["type"], id=r["id"], attrs=dict(r["attrs"])), Context({}))
                    meta.append({"decision": d2.effect, "rule_id": d2.rule_id, "obligations": d2.obligations})
                except Exception as e:  # noqa: BLE001
                    meta.append(["Raise", type(e).__name__])
            res.append((env, eng, comp, ref, meta, hist, pastinfo))

    asyncio.run(go())
    return res


def default_past(c):
    """replayed / corpus cases without a recorded past: every shape."""
    return [[sh, PAST_EXC[i % len(PAST_EXC)]] for i, sh in enumerate(PAST_SHAPES)]


async def failing_past(g2, fn2, c, r, env, eng, comp, info):
    """None, or what the engine / compiled function answered for request r after a past of failing requests."""
    import logging

    from rbacx.core.engine import Guard
    from rbacx.core.model import Action, Context, Resource, Subject

    async def ask(g, sub, res, ctx):
        d = await g.evaluate_async(Subject(**sub), Action("read"), Resource(**res), Context(ctx))
        return {"decision": d.effect, "rule_id": d.rule_id, "obligations": d.obligations, "reason": d.reason}

    async def judged(g):
        try:
            return await ask(g, {"id": "u"}, {"type": r["type"], "id": r["id"], "attrs": dict(r["attrs"])}, {})
        except Exception as e:  # noqa: BLE001
            return ["Raise", type(e).__name__]

    def differs(a, b):
        """as judgement (b): decision, reported rule, obligations; the reason text only when a rule is reported."""
        if not (isinstance(a, dict) and isinstance(b, dict)):
            return a != b
        return proj(a) != proj(b) or (b["rule_id"] is not None and a["reason"] != b["reason"])

    past = c["past"] if "past" in c else default_past(c)
    collab = c.get("past_collab", True)
    if not past:
        return None
    prev = logging.root.manager.disable
    logging.disable(logging.CRITICAL)      # the engine logs a traceback per failing request
    try:
        g5 = fl = None
        if collab:
            fl = _Flaky()
            g5 = Guard(c["policy"], strict_types=c["strict"], role_resolver=fl, obligation_checker=fl.obl,
                       relationship_checker=fl.rel, metrics=fl, logger_sink=fl)
            first = await judged(g5)
            if differs(first, eng):
                return {"engine_with_neutral_collaborators": first}
        outcomes = []
        for k, (shape, exc_name) in enumerate(past):
            sub, res, ctx = failing_request(shape, exc_name, r, c["policy"])
            for g in (g2, g5):
                if g is None:
                    continue
                if g is g5:
                    fl.bad = True
                try:
                    await ask(g, sub, res, ctx)
                    outcomes.append("answered")
                except Exception as e:  # noqa: BLE001
                    outcomes.append(type(e).__name__)
                info.append("%s:%s:%s" % ("collab" if g is g5 else "plain", shape,
                                          "answered" if outcomes[-1] == "answered" else "raised"))
                if g is g5:    # ... and the judged request itself while the collaborators fail (answer not judged)
                    await judged(g5)
                    fl.bad = False
            try:
                fn2(polgen.env_of_req({"subject": {"roles": [], **sub}, "action": "read", "resource": res, "context": ctx},
                                      strict=c["strict"]))
            except Exception:  # noqa: BLE001
                pass
            after = await judged(g2)
            try:
                raw = fn2(env)
                comp_after = {"decision": raw["decision"], "rule_id": raw.get("last_rule_id") or raw.get("rule_id"),
                              "obligations": raw.get("obligations"), "reason": raw.get("reason")}
            except Exception as e:  # noqa: BLE001
                comp_after = ["Raise", type(e).__name__]
            bad = {}
            if differs(after, eng):
                bad["engine_after_failing_requests"] = after
            if differs(comp_after, comp):
                bad["compiled_after_failing_requests"] = comp_after
            if g5 is not None:
                after5 = await judged(g5)
                if differs(after5, eng):
                    bad["engine_after_failing_requests_and_failing_collaborators"] = after5
            if bad:
                return {**bad, "failing_past": [list(x) for x in past[:k + 1]], "failing_requests_ended": outcomes}
        return None
    finally:
        logging.disable(prev)


def proj(x):
    return {k: x[k] for k in ("decision", "rule_id", "obligations")} if isinstance(x, dict) else x


def check_cases(chk, cases, replay=False):
    impl = run_impl(cases)
    lines = [lib.model_call("compiler.decide", c["policy"], env, None) for c, (env, *_r) in zip(cases, impl)]
    outs = [lib.dec(x) for x in lib.run_model(RUNNER, lines)]
    for c, (env, eng, comp, ref, meta, hist, pastinfo), m in zip(cases, impl, outs):
        chk.count("fam:" + c["fam"])
        for x in pastinfo:
            chk.count("failing-past:" + x)
        if m == ["Ood"]:
            chk.count("ood")
            chk.mark(("ood", repr(c)), False)
            continue
        nontriv = isinstance(ref, dict) and ref.get("rule_id") not in (None, "")
        chk.mark(repr((c["policy"], c["resource"], c["strict"])), nontriv)
        chk.count("decision:" + (str(eng.get("decision")) if isinstance(eng, dict) else "raise"))
        chk.sample({"policy": c["policy"], "resource": c["resource"], "strict": c["strict"], "engine": eng,
                    "reference": ref, "model_compiled": m}, every=2503)
        # (b) the property itself
        if proj(eng) != proj(ref) or (isinstance(ref, dict) and ref["rule_id"] is not None and eng["reason"] != ref["reason"]):
            chk.violation("engine decision differs from the reference evaluation of the most specific matching tier",
                          c, impl={"engine": eng, "reference": ref}, model=m)
            continue
        if hist and "failing_past" in hist:
            chk.violation("the engine / compiled function answers this request differently after it has answered requests "
                          "whose evaluation failed (a request value that raises when looked at; failing collaborators): "
                          "its decision no longer equals the reference evaluation of the most specific matching tier for "
                          "every request", c,
                          impl={"fresh_engine": eng, "fresh_compiled": comp, **hist, "reference": ref}, model=m)
            continue
        if hist:
            chk.violation("the engine / compiled function answers this request differently after it has answered sibling "
                          "requests (other resources of the pool, this resource with other attributes or id): its decision "
                          "no longer equals the reference evaluation for every request", c,
                          impl={"fresh_engine": eng, "fresh_compiled": comp, **hist, "reference": ref}, model=m)
            continue
        # (c) metamorphic
        bad = [i for i, x in enumerate(meta) if proj(x) != proj(eng)]
        if bad:
            chk.violation("inserting a rule whose action/resource target does not match changed the decision "
                          "(c03_nonmatching_irrelevant)", {**c, "insert_pos": bad[0]}, impl={"engine": eng, "with_extra": meta[bad[0]]}, model=m)
            continue
        # (a) correspondence with the model of the compiled path
        mm = {"decision": m["decision"], "rule_id": m["rule_id"], "obligations": m["obligations"], "reason": m["reason"]} \
            if isinstance(m, dict) else ["Raise"]
        cc = comp if isinstance(comp, dict) else ["Raise"]
        if cc != mm:
            chk.corr_break("compile(policy)(env) differs from the model Compiler.compiled_decide", c, impl=comp, model=m,
                           theorems=["c03_compiled_eq_reference", "c03_nonmatching_irrelevant"])


def corpus_cases():
    import json
    out = []
    for f in sorted((lib.VERIF / "corpus" / "C03").glob("*.json")):
        for c in json.loads(f.read_text())["cases"]:
            out.append(lib.unjson(c))
    return out


def run(chk):
    chk.rule = ("policies over a pool of %d rule shapes (actions read/*/write/list x resource type doc/img/*/absent/"
                "lists x id x attrs/attributes x effect x condition): every single rule, seeded random pairs and 3-5 "
                "rule policies x 3 algorithms x 6 requests (type doc/img/None/'*'/int) x lax/strict; per case: engine vs "
                "reference on the tier-restricted policy, compiled function vs model, and insertion of non-matching "
                "rules at every position; history: the same request after 10 sibling requests, after set_policy on a "
                "Guard created with another policy, and after requests whose evaluation fails (a raising object as "
                "resource type / id / attribute, walked into by a condition, as a role; an unhashable member; a quarter "
                "of them also failing role resolver / obligation / relationship checker / metrics / log sink) - counts "
                "under failing-past:*; family walk: rules whose conditions walk attribute paths / test membership / "
                "ask the relationship checker. non-trivial = the reference reports a deciding rule; distinct = distinct "
                "(policy, request, mode)" % len(rule_pool()))
    cases = corpus_cases() + gen_cases(chk)
    check_cases(chk, cases)
