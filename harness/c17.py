"""C17 — One document, one meaning: formats, tools and default algorithm agree.

Four case families, every one judged directly on the implementation first (-> violation, or a
KNOWN-FINDING strictly inside the class of F12 / F23) and then compared with the Coq model
(-> correspondence break):

detect  every (format hint x content type x file name) combination through _detect_format and
        through parse_policy_text / parse_policy_bytes on two probe texts that reveal which parser ran;
        judged by the statement's priority rule (hint, content type, extension, JSON), compared with
        Format.detect_format (theorem c17_detect_format).
doc     schema-valid documents from the grammar generator and single-point schema-invalid mutations:
        rendered by json.dumps / yaml.safe_dump in several styles, delivered through
        parse_policy_text / parse_policy_bytes (sampled hint/content-type/name combinations selecting
        the fitting format), FilePolicySource (.json/.yaml/.yml temp files), HTTPPolicySource (fake
        `requests`: json body, yaml body + content type, header-less body + URL extension, bytes only)
        and S3PolicySource (fake client): parsed object = the document; decisions of Guard and of the
        reference evaluator on several requests identical for every delivery; validate_policy, the
        sources' validate_schema switch and rbacx.cli.main(validate|check|lint [--policyset] [--strict],
        file and stdin) accept exactly when jsonschema + the bundled schema accept (per child with
        --policyset); compared with Schema.schema_valid and the return-code model Format.cli_main.
noalgo  policies / sets / nested sets whose algorithm is absent, null or "" at any level, with every
        rule-outcome pattern (so an applicable permit and an applicable deny in both orders), on every
        path: policy.evaluate, policy.decide, policyset.decide, compile(policy), Guard.evaluate_sync, as a
        child of a set, inside a nested set, and the linter's overlap issues: same effect as with
        "deny-overrides" written out at every unnamed level, and "any applicable deny wins".
cli     parse failures and a missing jsonschema through the CLI (exception / EXIT_ENV).
"""
import asyncio
import contextlib
import copy
import io
import itertools
import json
import math
import multiprocessing as mp
import os
import random
import shutil
import sys
import tempfile
import types

import c06
import gen
import lib
import polgen

RUNNER_F = "format"
RUNNER_E = "engine"

# --------------------------------------------------------------------------------------------
# pools
# --------------------------------------------------------------------------------------------
FMTS = [None, "json", "JSON", "yaml", "YAML", "yml", "toml", "", "Yaml", "jSoN", "jsonx", " json", "yaml ", "ＪＳＯＮ", "yamı"]
CTS = [None, "application/json", "application/yaml", "application/x-yaml", "text/yaml; charset=utf-8", "text/plain",
       "application/json+yaml", "application/yaml+json", "APPLICATION/X-YAML", "Application/JSON; charset=utf-8", "",
       "application/octet-stream", "application/vnd.x-yaml.json", "text/x-yaml", "application/jso", "yam", "x-yamK"]
FNS = [None, "p.json", "p.yaml", "p.yml", "P.YAML", "P.JSON", "p.txt", "p.json.yaml", "p.yaml.json", "dir.yaml/p", "yaml", ".yml",
       "", "p.yml.bak", "https://h/p.yaml?x=1", "p.YmL", "p.jsonl", "p.yam", "ü.YAML", "p.JSONK"]

JSON_STYLES = [{}, {"indent": 2}, {"sort_keys": True}, {"ensure_ascii": False}, {"separators": (",", ":")}]
YAML_STYLES = [{}, {"default_flow_style": False, "sort_keys": False}, {"default_flow_style": True},
               {"sort_keys": False, "indent": 4}, {"allow_unicode": True, "sort_keys": False},
               {"default_flow_style": None, "width": 40}]

# strings YAML 1.1 would read as something else unless the dumper quotes them
TRICKY = ["on", "off", "yes", "No", "y", "1", "1.0", "1e3", "null", "~", "2025-01-01", "2025-01-01T00:00:00Z", "<<", "=", "0x1F",
          "017", "1_000", "1:30", "+1", "-", " a", "a ", "a: b", "- a", "#x", "@x", '"q"', "'s'", "multi\nline", "tab\there",
          "é", "日本", "{a: 1}", "[1]", "!tag", "&a", "*a", "true", "False", ".nan", ".inf", "0", "-0", "x\ry", "\U0001F600"]

PROBE_YAML_ONLY = "a: 1\nb: [x, y]\n"          # JSON parser: error; YAML parser: {"a": 1, "b": ["x", "y"]}
PROBE_BOTH = '{"a": 1e3}'                       # JSON parser: {"a": 1000.0}; YAML 1.1 parser: {"a": "1e3"}


# --------------------------------------------------------------------------------------------
# small helpers
# --------------------------------------------------------------------------------------------
def ascii_lower(s):
    return "".join(chr(ord(c) + 32) if "A" <= c <= "Z" else c for c in s)


def spec_format(fn, ct, fmt):
    """the statement's rule: explicit hint, then content type, then file extension, else JSON."""
    if fmt and fmt.lower() in ("json", "yaml"):
        return fmt.lower()
    if ct:
        low = ct.lower()
        if "yaml" in low:           # "x-yaml" contains "yaml"
            return "yaml"
        if "json" in low:
            return "json"
    if fn:
        low = fn.lower()
        if low.endswith(".yaml") or low.endswith(".yml"):
            return "yaml"
        if low.endswith(".json"):
            return "json"
    return "json"


def same_doc(a, b):
    """equal as JSON documents: same types (1 / 1.0 / True / "1" all differ), NaN equal to NaN, objects as maps."""
    if type(a) is not type(b):
        return False
    if isinstance(a, float):
        return (math.isnan(a) and math.isnan(b)) or (a == b and math.copysign(1, a) == math.copysign(1, b))
    if isinstance(a, list):
        return len(a) == len(b) and all(same_doc(x, y) for x, y in zip(a, b))
    if isinstance(a, dict):
        return len(a) == len(b) and all(k in b and same_doc(v, b[k]) for k, v in a.items())
    return a == b


def same_order(a, b):
    if isinstance(a, dict) and isinstance(b, dict):
        return list(a) == list(b) and all(same_order(a[k], b[k]) for k in a if k in b)
    if isinstance(a, list) and isinstance(b, list):
        return all(same_order(x, y) for x, y in zip(a, b))
    return True


def reorder_like(x, ref):
    """copy of x with the key order of ref wherever both are objects with the same key set."""
    if isinstance(x, dict) and isinstance(ref, dict):
        if set(x) == set(ref):
            return {k: reorder_like(x[k], ref[k]) for k in ref}
        return {k: reorder_like(v, ref.get(k)) for k, v in x.items()}
    if isinstance(x, list) and isinstance(ref, list) and len(x) == len(ref):
        return [reorder_like(a, b) for a, b in zip(x, ref)]
    return copy.deepcopy(x)


def _rules_of(doc, ref):
    """pairs (rule, reference rule) at every nesting level of a policy / policy set."""
    out = []
    if isinstance(doc, dict) and isinstance(ref, dict):
        r, rr = doc.get("rules"), ref.get("rules")
        if isinstance(r, list) and isinstance(rr, list):
            out += [(a, b) for a, b in zip(r, rr) if isinstance(a, dict) and isinstance(b, dict)]
        p, pr = doc.get("policies"), ref.get("policies")
        if isinstance(p, list) and isinstance(pr, list):
            for a, b in zip(p, pr):
                out += _rules_of(a, b)
    return out


def constraints_reordered(parsed, orig):
    """(copy of parsed in which only the rules' resource constraints have orig's key order,
        did any object with >= 2 keys inside such a constraint change its order)"""
    cp = copy.deepcopy(parsed)
    changed = False
    for rule, ref in _rules_of(cp, orig):
        res, rres = rule.get("resource"), ref.get("resource")
        if isinstance(res, dict) and isinstance(rres, dict):
            for k in ("id", "type", "attrs", "attributes"):
                if k in res and k in rres and not same_order(res[k], rres[k]):
                    changed = True
                    res[k] = reorder_like(res[k], rres[k])
    return cp, changed


def unnamed(p):
    return isinstance(p, dict) and not p.get("algorithm")


def fill(p):
    """ "deny-overrides" written out at every level that names no algorithm (harness twin of Format.fill_deep)."""
    if not isinstance(p, dict):
        return p
    q = {}
    for k, v in p.items():
        q[k] = [fill(c) for c in v] if k == "policies" and isinstance(v, list) else v
    if unnamed(p):
        q["algorithm"] = "deny-overrides"
    return q


def with_algo(p, a):
    q = dict(p)
    q["algorithm"] = a
    return q


def exc_name(e):
    return type(e).__name__


_SCHEMA = {}
_CHECKED = {}


def speed_up_jsonschema():
    """jsonschema.validate() re-validates the (constant) bundled schema against its metaschema on every call (~80 ms);
    memoise that step per schema content.  The verdict on the instance is computed as before."""
    import jsonschema
    if getattr(jsonschema.validators, "_c17_memo", False):
        return
    jsonschema.validators._c17_memo = True
    for name in dir(jsonschema.validators):
        cls = getattr(jsonschema.validators, name)
        if isinstance(cls, type) and hasattr(cls, "check_schema") and hasattr(cls, "META_SCHEMA"):
            orig = cls.check_schema.__func__ if hasattr(cls.check_schema, "__func__") else None
            if orig is None:
                continue

            def memo(klass, schema, *a, _orig=orig, **k):
                try:
                    key = (klass.__name__, json.dumps(schema, sort_keys=True, default=repr))
                except Exception:  # noqa: BLE001
                    return _orig(klass, schema, *a, **k)
                if key not in _CHECKED:
                    try:
                        _orig(klass, schema, *a, **k)
                        _CHECKED[key] = None
                    except Exception as e:  # noqa: BLE001
                        _CHECKED[key] = e
                if _CHECKED[key] is not None:
                    raise _CHECKED[key]
            cls.check_schema = classmethod(memo)



def js_valid(doc):
    """the reference verdict: jsonschema (private install) + the bundled schema file, read here."""
    import jsonschema
    if "v" not in _SCHEMA:
        schema = json.loads((lib.REPO / "src" / "rbacx" / "dsl" / "policy.schema.json").read_text(encoding="utf-8"))
        _SCHEMA["v"] = jsonschema.validators.validator_for(schema)(schema)
    try:
        return bool(_SCHEMA["v"].is_valid(doc))
    except RecursionError:
        return "recursion"


def impl_valid(doc):
    from rbacx.dsl.validate import validate_policy
    try:
        validate_policy(doc)
        return True
    except RecursionError:
        return "recursion"
    except RuntimeError as e:
        return "nodep:" + str(e)[:40]
    except Exception:  # noqa: BLE001
        return False


# --------------------------------------------------------------------------------------------
# fakes
# --------------------------------------------------------------------------------------------
def make_requests(variant, text, ctype):
    """fake `requests`: variant json = .json() works and a JSON content type; yaml = .json() raises, text +
    content type; noct = no headers at all (the URL decides); bytes = only .content, lower-case header key."""
    mod = types.ModuleType("requests")

    class Resp:
        status_code = 200

        def raise_for_status(self):
            return None

    def get(url, headers=None, timeout=None):
        r = Resp()
        if variant == "bytes":
            r.headers = {"content-type": ctype} if ctype else {}
            r.content = text.encode("utf-8")
            r.text = None
        else:
            r.headers = {"Content-Type": ctype} if ctype else {}
            r.text = text
        if variant != "nojsonattr":
            def js():
                return json.loads(text)
            r.json = js
        return r

    mod.get = get
    return mod


class FakeS3:
    def __init__(self, body, ctype=None):
        self.body, self.ctype = body, ctype

    def get_object(self, Bucket, Key):  # noqa: N803
        d = {"Body": io.BytesIO(self.body), "ETag": '"abc"'}
        if self.ctype:
            d["ContentType"] = self.ctype
        return d

    def head_object(self, Bucket, Key):  # noqa: N803
        return {"ETag": '"abc"'}


@contextlib.contextmanager
def fake_module(name, mod):
    saved = sys.modules.get(name, "absent")
    sys.modules[name] = mod
    try:
        yield
    finally:
        if saved == "absent":
            sys.modules.pop(name, None)
        else:
            sys.modules[name] = saved


def run_cli(argv, stdin_text=None):
    """rbacx.cli.main(argv) with stdout captured; -> ["rc", n] | ["escapes", exception name]."""
    from rbacx import cli
    out = io.StringIO()
    saved_in = sys.stdin
    if stdin_text is not None:
        sys.stdin = io.StringIO(stdin_text)
    try:
        with contextlib.redirect_stdout(out), contextlib.redirect_stderr(io.StringIO()):
            try:
                rc = cli.main(list(argv))
                return ["rc", rc], out.getvalue()
            except SystemExit as e:
                return ["exit", e.code], out.getvalue()
            except RecursionError:
                return ["escapes", "RecursionError"], out.getvalue()
            except Exception as e:  # noqa: BLE001
                return ["escapes", exc_name(e)], out.getvalue()
    finally:
        sys.stdin = saved_in


# --------------------------------------------------------------------------------------------
# evaluation on every path
# --------------------------------------------------------------------------------------------
def _subj_etc(req):
    from rbacx.core.model import Action, Context, Resource, Subject
    return (Subject(id=req["subject"].get("id"), roles=list(req["subject"].get("roles") or []), attrs=dict(req["subject"].get("attrs") or {})),
            Action(req.get("action")),
            Resource(type=req["resource"].get("type"), id=req["resource"].get("id"), attrs=dict(req["resource"].get("attrs") or {})),
            Context(attrs=dict(req.get("context") or {})))


def _dec(d):
    return {"allowed": d.allowed, "effect": d.effect, "obligations": d.obligations, "challenge": d.challenge,
            "rule_id": d.rule_id, "policy_id": d.policy_id, "reason": d.reason}


def _raw(r):
    if not isinstance(r, dict):
        return ["weird", repr(r)[:60]]
    return {"decision": r.get("decision"), "reason": r.get("reason"), "rule_id": r.get("last_rule_id") or r.get("rule_id"),
            "obligations": r.get("obligations"), "policy_id": r.get("policy_id")}


def guard_sync(policy, req, strict):
    from rbacx.core.engine import Guard
    try:
        g = Guard(copy.deepcopy(policy), strict_types=strict)
        return _dec(g.evaluate_sync(*_subj_etc(req)))
    except RecursionError:
        return ["Raise", "RecursionError"]
    except Exception as e:  # noqa: BLE001
        return ["Raise", exc_name(e)]


def guard_loop(items):
    """[(policy, req, strict)] through Guard.evaluate_async in one event loop."""
    from rbacx.core.engine import Guard
    out = []

    async def go():
        for policy, req, strict in items:
            try:
                g = Guard(copy.deepcopy(policy), strict_types=strict)
                out.append(_dec(await g.evaluate_async(*_subj_etc(req))))
            except RecursionError:
                out.append(["Raise", "RecursionError"])
            except Exception as e:  # noqa: BLE001
                out.append(["Raise", exc_name(e)])
    loop = asyncio.new_event_loop()
    try:
        loop.run_until_complete(go())
    finally:
        loop.close()
    return out


def interp(policy, req, strict, how="auto"):
    """the reference evaluator: policy.evaluate / policy.decide / policyset.decide / compile(policy)."""
    from rbacx.core import policy as pol
    from rbacx.core import policyset as ps
    from rbacx.core.compiler import compile as comp
    env = polgen.env_of_req(req, strict)
    try:
        if how == "auto":
            how = "set" if isinstance(policy, dict) and "policies" in policy else "evaluate"
        if how == "set":
            return _raw(ps.decide(copy.deepcopy(policy), env))
        if how == "evaluate":
            return _raw(pol.evaluate(copy.deepcopy(policy), env))
        if how == "decide":
            return _raw(pol.decide(copy.deepcopy(policy), env))
        if how == "compiled":
            return _raw(comp(copy.deepcopy(policy))(env))
        raise ValueError(how)
    except RecursionError:
        return ["Raise", "RecursionError"]
    except Exception as e:  # noqa: BLE001
        return ["Raise", exc_name(e)]


def eff(x):
    """the effect of a Decision / raw result, or the exception marker."""
    if isinstance(x, dict):
        return x.get("effect", x.get("decision"))
    return "!" + str(x[1]) if isinstance(x, list) and len(x) > 1 else "!?"


def lint_cross_impl(policy):
    from rbacx.dsl.lint import analyze_policy
    try:
        iss = analyze_policy(copy.deepcopy(policy))
    except RecursionError:
        return ["Raise", "RecursionError"]
    except Exception as e:  # noqa: BLE001
        return ["Raise", exc_name(e)]
    return ["Ok", [[i["code"], i["later_index"], i["earlier_index"]] for i in iss
                   if i.get("code") in ("POTENTIALLY_UNREACHABLE", "OVERLAPPED_BY_DENY")]]


def lint_count(doc, policyset):
    from rbacx.dsl.lint import analyze_policy, analyze_policyset
    try:
        return len(list((analyze_policyset if policyset else analyze_policy)(copy.deepcopy(doc), require_attrs={})))
    except RecursionError:
        return ["escapes", "RecursionError"]
    except Exception as e:  # noqa: BLE001
        return ["escapes", exc_name(e)]


# --------------------------------------------------------------------------------------------
# family detect
# --------------------------------------------------------------------------------------------
def observe_detect(c):
    from rbacx.store import policy_loader as pl
    fn, ct, fmt = c["fn"], c["ct"], c["fmt"]
    obs = {}
    try:
        f = getattr(pl, "_detect_format", None)
        obs["direct"] = f(filename=fn, content_type=ct, fmt=fmt) if f else None
    except Exception as e:  # noqa: BLE001
        obs["direct"] = ["Raise", exc_name(e)]
    for api in ("text", "bytes"):
        seen = []
        for probe in (PROBE_YAML_ONLY, PROBE_BOTH):
            try:
                if api == "text":
                    r = pl.parse_policy_text(probe, filename=fn, content_type=ct, fmt=fmt)
                else:
                    r = pl.parse_policy_bytes(probe.encode("utf-8"), filename=fn, content_type=ct, fmt=fmt)
            except ValueError:          # json.JSONDecodeError
                seen.append("json")
                continue
            except Exception as e:  # noqa: BLE001
                seen.append("!" + exc_name(e))
                continue
            if probe is PROBE_YAML_ONLY:
                seen.append("yaml" if same_doc(r, {"a": 1, "b": ["x", "y"]}) else "?%r" % (r,))
            else:
                seen.append("json" if same_doc(r, {"a": 1000.0}) else ("yaml" if same_doc(r, {"a": "1e3"}) else "?%r" % (r,)))
        obs[api] = seen
    return obs


def judge_detect(chk, c, obs, m):
    want = spec_format(c["fn"], c["ct"], c["fmt"])
    chk.mark(("detect", c["fn"], c["ct"], c["fmt"]), any(x is not None and x != "" for x in (c["fn"], c["ct"], c["fmt"])))
    chk.count("detect:" + want)
    kinds = []
    if c["fmt"] and c["fmt"].lower() in ("json", "yaml"):
        kinds.append("hint")
    elif c["ct"] and ("yaml" in c["ct"].lower() or "json" in c["ct"].lower()):
        kinds.append("ctype")
    elif c["fn"] and c["fn"].lower().endswith((".yaml", ".yml", ".json")):
        kinds.append("ext")
    else:
        kinds.append("default")
    chk.count("detect_by:" + kinds[0])
    if obs["direct"] is not None and obs["direct"] != want:
        chk.violation("format chosen by explicit hint, then content type, then file extension, else JSON (_detect_format)",
                      c, impl=obs["direct"], model=want)
    for api in ("text", "bytes"):
        if any(x != want for x in obs[api]):
            chk.violation("parse_policy_%s runs the parser of the format the priority rule selects" % api, c, impl=obs[api], model=want)
    if m != want:
        chk.corr_break("Format.detect_format differs from the statement's priority rule", c, impl=want, model=m,
                       theorems=["c17_detect_format"])
    elif obs["direct"] is not None and obs["direct"] != m:
        chk.corr_break("_detect_format differs from Format.detect_format", c, impl=obs["direct"], model=m, theorems=["c17_detect_format"])


# --------------------------------------------------------------------------------------------
# family doc
# --------------------------------------------------------------------------------------------
def _combos(want, rng, k):
    """k (fn, ct, fmt) combinations for which the priority rule selects `want`, one per deciding level."""
    out = []
    tries = 0
    while len(out) < k and tries < 400:
        tries += 1
        fn, ct, fmt = rng.choice(FNS), rng.choice(CTS), rng.choice(FMTS)
        if spec_format(fn, ct, fmt) == want:
            out.append((fn, ct, fmt))
    return out


def _render(doc, kind, style):
    import yaml
    if kind == "json":
        text = json.dumps(doc, **{k: (tuple(v) if k == "separators" else v) for k, v in style.items()})
        ref = json.loads(text)
    else:
        text = yaml.safe_dump(doc, **style)
        ref = yaml.safe_load(text)
    return text, ref


def observe_doc(c, tmpdir):
    """implementation-side observations + direct judgements for one document."""
    from rbacx.store.file_store import FilePolicySource
    from rbacx.store.http_store import HTTPPolicySource
    from rbacx.store.policy_loader import parse_policy_bytes, parse_policy_text
    from rbacx.store.s3_store import S3PolicySource

    doc = c["doc"]
    rng = random.Random(c.get("seed", 0))
    problems = []      # [clause, detail, impl, want]
    counts = {}
    quick = c.get("quick", True)

    def cnt(k, n=1):
        counts[k] = counts.get(k, 0) + n

    jv = js_valid(doc)
    iv = impl_valid(doc)
    obs = {"jv": jv, "iv": iv, "problems": problems, "counts": counts, "cli": [], "deliveries": 0}
    if jv in (True, False) and iv in (True, False) and iv != jv:
        problems.append(["validate_policy accepts a document exactly when it conforms to the bundled schema", "validate_policy", iv, jv])
    is_map = isinstance(doc, dict)
    children = None
    if is_map:
        try:
            children = list(doc.get("policies") or [])
        except TypeError:
            children = "TypeError"
    obs["child_verdicts"] = [js_valid(ch) for ch in children] if isinstance(children, list) else children

    # ---------------- renderings and deliveries
    parsed = {}        # label -> parsed object (for the decision comparison)
    texts = {}         # kind -> (style index, text)
    if is_map:
        jstyles = list(range(len(JSON_STYLES)))
        ystyles = list(range(len(YAML_STYLES)))
        if quick:
            rng.shuffle(jstyles)
            rng.shuffle(ystyles)
            jstyles, ystyles = sorted(jstyles[:2]), sorted(ystyles[:2])
        for kind, idxs, styles in (("json", jstyles, JSON_STYLES), ("yaml", ystyles, YAML_STYLES)):
            for si in idxs:
                try:
                    text, ref = _render(doc, kind, styles[si])
                except Exception as e:  # noqa: BLE001
                    cnt("render_fails:%s:%s" % (kind, exc_name(e)))
                    continue
                if not same_doc(ref, doc):
                    cnt("render_unfaithful:" + kind)        # the library itself does not round-trip this document
                    continue
                cnt("render:" + kind)
                texts.setdefault(kind, (si, text))
                for ci, (fn, ct, fmt) in enumerate(_combos(kind, rng, 2 if quick else 6)):
                    for api in ((("text", "bytes")[ci % 2],) if quick else ("text", "bytes")):
                        obs["deliveries"] += 1
                        try:
                            if api == "text":
                                got = parse_policy_text(text, filename=fn, content_type=ct, fmt=fmt)
                            else:
                                got = parse_policy_bytes(text.encode("utf-8"), filename=fn, content_type=ct, fmt=fmt)
                        except Exception as e:  # noqa: BLE001
                            got = ["Raise", exc_name(e)]
                        if not same_doc(got, doc):
                            problems.append(["a %s rendering delivered through parse_policy_%s with a hint/content type/name selecting %s "
                                             "yields the document" % (kind, api, kind),
                                             {"style": styles[si], "fn": fn, "ct": ct, "fmt": fmt, "text": text[:400]},
                                             got if not isinstance(got, dict) or len(repr(got)) < 600 else "<another object>", "the document"])
                        else:
                            lab = "%s%d" % (kind, si)
                            if lab not in parsed:
                                parsed[lab] = got

        # ---------------- sources
        def deliver(label, thunk, want_accept=None):
            obs["deliveries"] += 1
            try:
                got = thunk()
            except Exception as e:  # noqa: BLE001
                got = ["Raise", exc_name(e)]
            if want_accept is False:
                if not (isinstance(got, list) and got and got[0] == "Raise"):
                    problems.append(["a source with validate_schema=True rejects a document that does not conform to the schema",
                                     label, "accepted", "rejected"])
                return
            if not same_doc(got, doc):
                problems.append(["the document loaded through %s is the document" % label.split(":")[0], label,
                                 got if not isinstance(got, dict) or len(repr(got)) < 600 else "<another object>", "the document"])
            else:
                parsed.setdefault(label, got)

        for kind, (si, text) in texts.items():
            exts = [".json", ".JSON"] if kind == "json" else [".yaml", ".yml", ".YAML", ".Yml"]
            pv = 0.3 if quick else 0.6
            if quick:
                rng.shuffle(exts)
                file_exts, s3_exts = exts[:1], exts[1:2]
            else:
                file_exts = s3_exts = exts
            for ext in file_exts:
                path = os.path.join(tmpdir, "p%d%s" % (rng.randrange(10**6), ext))
                with open(path, "w", encoding="utf-8") as f:
                    f.write(text)
                deliver("FilePolicySource:%s" % ext, lambda p=path: FilePolicySource(p).load())
                if rng.random() < pv and jv in (True, False) and iv in (True, False):
                    deliver("FilePolicySource(validate_schema):%s" % ext,
                            lambda p=path: FilePolicySource(p, validate_schema=True).load(), want_accept=jv)
                os.unlink(path)
            for ext in s3_exts:
                # S3: the key's extension decides (no hint, no content type)
                body = text.encode("utf-8")
                deliver("S3PolicySource:%s" % ext,
                        lambda b=body, e=ext: S3PolicySource("s3://bucket/dir/pol" + e, client=FakeS3(b, "application/json" if kind == "json" else "application/yaml"), validate_schema=False).load())
                if rng.random() < pv and jv in (True, False) and iv in (True, False):
                    deliver("S3PolicySource(validate_schema):%s" % ext,
                            lambda b=body, e=ext: S3PolicySource("s3://bucket/dir/pol" + e, client=FakeS3(b)).load(), want_accept=jv)
            # HTTP
            if kind == "json":
                variants = [("json", "application/json", "https://h/policy"), ("noct", None, "https://h/policy.json"),
                            ("bytes", "application/json; charset=utf-8", "https://h/policy"), ("nojsonattr", None, "https://h/p")]
            else:
                variants = [("yaml", rng.choice(["application/yaml", "application/x-yaml", "text/yaml; charset=utf-8"]), "https://h/policy"),
                            ("noct", None, "https://h/policy" + rng.choice([".yaml", ".yml"])),
                            ("bytes", "application/x-yaml", "https://h/policy.json"),
                            ("nojsonattr", "text/yaml", "https://h/p.json")]
            if quick:
                rng.shuffle(variants)
                variants = variants[:2]
            for variant, ctype, url in variants:
                with fake_module("requests", make_requests(variant, text, ctype)):
                    deliver("HTTPPolicySource:%s:%s" % (kind, variant), lambda u=url: HTTPPolicySource(u).load())
                    if rng.random() < pv and jv in (True, False) and iv in (True, False):
                        deliver("HTTPPolicySource(validate_schema):%s:%s" % (kind, variant),
                                lambda u=url: HTTPPolicySource(u, validate_schema=True).load(), want_accept=jv)

        # ---------------- identical decisions for every delivery
        reqs = c.get("reqs") or []
        if not (jv is True):
            reqs = reqs[:1]
        # keep one object per distinct key order
        distinct = []
        for lab, obj in parsed.items():
            if not any(same_order(obj, o) and same_order(o, obj) for _, o in distinct):
                distinct.append((lab, obj))
        obs["distinct_orders"] = len(distinct)
        items = []
        for req in reqs:
            for strict in (False, True):
                items.append((doc, req, strict))
                for _, obj in distinct:
                    items.append((obj, req, strict))
        gres = guard_loop(items) if items else []
        it = iter(gres)
        f23 = []
        for req in reqs:
            for strict in (False, True):
                base_g = next(it)
                base_i = interp(doc, req, strict)
                for lab, obj in distinct:
                    g = next(it)
                    i = interp(obj, req, strict)
                    for path, a, b in (("Guard", base_g, g), ("reference evaluator", base_i, i)):
                        if same_doc(a, b):
                            continue
                        # F23: only the key order inside a rule's resource constraint differs, lax mode
                        fixed, changed = constraints_reordered(obj, doc)
                        again = guard_loop([(fixed, req, strict)])[0] if path == "Guard" else interp(fixed, req, strict)
                        if changed and not strict and same_doc(again, a) and same_doc(obj, doc):
                            f23.append({"delivery": lab, "path": path, "req": req, "orig": eff(a), "delivered": eff(b)})
                        else:
                            problems.append(["the same document delivered through %s decides as the original (%s, %s mode)"
                                             % (lab, path, "strict" if strict else "lax"), {"req": req, "delivery": lab}, b, a])
                cnt("decision:" + eff(base_g))
        obs["f23"] = f23
        obs["base_effects"] = sorted({k for k in counts if k.startswith("decision:")})

    # ---------------- command line
    kinds = [k for k in ("json", "yaml") if k in texts] if is_map else []
    cli_inputs = []
    if is_map:
        for kind in kinds:
            cli_inputs.append((kind, texts[kind][1]))
    else:
        try:
            cli_inputs.append(("json", json.dumps(doc)))
        except Exception:  # noqa: BLE001
            pass
    lint_n = {False: lint_count(doc, False), True: lint_count(doc, True)}
    obs["lint_n"] = {"single": lint_n[False], "set": lint_n[True]}
    for kind, text in cli_inputs:
        plans = []
        for cmd in ("validate", "check", "lint"):
            for ps in (False, True):
                for strict in (False, True):
                    plans.append((cmd, ps, strict))
        if quick:
            if kind == "yaml" and rng.random() < 0.6:
                continue
            # validate with and without --policyset, two of the four check flavours, one lint flavour
            v = [p for p in plans if p[0] == "validate" and p[2] == (rng.random() < 0.3)]
            ch = rng.sample([p for p in plans if p[0] == "check"], 2)
            li = rng.sample([p for p in plans if p[0] == "lint"], 1)
            plans = v + ch + li
        for cmd, ps, strict in plans:
            via = "stdin" if (kind == "json" and rng.random() < 0.35) else "file"
            argv = [cmd]
            path = None
            if via == "file":
                path = os.path.join(tmpdir, "c%d.%s" % (rng.randrange(10**6), rng.choice(["yaml", "yml"]) if kind == "yaml" else "json"))
                with open(path, "w", encoding="utf-8") as f:
                    f.write(text)
                argv += ["--policy", path]
            elif rng.random() < 0.5:
                argv += ["--policy", "-"]
            if ps:
                argv.append("--policyset")
            if strict:
                argv.append("--strict")
            if rng.random() < 0.25:
                argv += ["--format", "text"]
            got, _out = run_cli(argv, stdin_text=text if via == "stdin" else None)
            if path:
                os.unlink(path)
            obs["cli"].append({"cmd": cmd, "policyset": ps, "strict": strict, "via": via, "kind": kind, "got": got})
    return obs


def expected_rc(cmd, ps, strict, jv, child_verdicts, lint_n, is_map):
    """the statement, directly: success status vs schema-error status (per child with --policyset);
    3 only for lint issues under --strict after the schema passed.  None = not judged directly."""
    if cmd in ("validate", "check"):
        if ps:
            if not is_map:
                return ["escapes", "AttributeError"]
            if child_verdicts == "TypeError":
                return ["escapes", "TypeError"]
            if any(v == "recursion" for v in child_verdicts):
                return None
            ok = all(child_verdicts)
        else:
            if jv == "recursion":
                return None
            ok = bool(jv)
        if not ok:
            return ["rc", 6]
        if cmd == "validate":
            return ["rc", 0]
    n = lint_n
    if isinstance(n, list):
        return n            # the linter's exception leaves main()
    return ["rc", 3] if (strict and n > 0) else ["rc", 0]


def judge_doc(chk, c, obs, m_valid, m_children_valid, m_cli):
    doc = c["doc"]
    is_map = isinstance(doc, dict)
    case = {k: c[k] for k in ("fam", "doc", "reqs", "seed", "quick", "sub") if k in c}
    jv, iv = obs["jv"], obs["iv"]
    nontriv = is_map and obs["deliveries"] > 0
    chk.mark(("doc", json.dumps(lib.jsonable(doc), sort_keys=True, default=str)), nontriv)
    chk.count("doc_valid:%s" % jv)
    chk.count("sub:" + c.get("sub", "?"))
    chk.count("deliveries", obs["deliveries"])
    for k, n in obs["counts"].items():
        chk.count(k, n)
    chk.traces += obs["deliveries"] + len(obs["cli"])
    for clause, detail, impl, want in obs["problems"]:
        chk.violation(clause, case, impl={"detail": detail, "got": impl}, model=want)
    # F23: key order inside a resource constraint (lax str() matching) — known finding, narrow class
    if obs.get("f23"):
        if any(f.get("id") == "F23" and f.get("status") == "open" for f in chk.findings):
            chk.known("F23")
            chk.count("f23_cases")
        else:
            chk.violation("the same document, re-rendered with another key order inside a rule's resource constraint, decides "
                          "differently (lax mode)", case, impl=obs["f23"][:3], model="identical decisions")
    # schema transcription vs jsonschema
    if jv in (True, False) and m_valid is not None and m_valid != jv:
        chk.corr_break("Schema.schema_valid disagrees with jsonschema + bundled schema on this document", case, impl=jv, model=m_valid,
                       theorems=["c17_cli_validate_doc", "c17_cli_check_doc", "c06_total"])
    if isinstance(obs["child_verdicts"], list) and m_children_valid is not None:
        for i, (a, b) in enumerate(zip(obs["child_verdicts"], m_children_valid)):
            if a in (True, False) and a != b:
                chk.corr_break("Schema.schema_valid disagrees with jsonschema on child %d of this set" % i, case, impl=a, model=b,
                               theorems=["c17_cli_validate_policyset", "c17_cli_check_policyset"])
    # command line
    for run, m in zip(obs["cli"], m_cli):
        ps, strict, cmd = run["policyset"], run["strict"], run["cmd"]
        ln = obs["lint_n"]["set" if ps else "single"]
        want = expected_rc(cmd, ps, strict, jv, obs["child_verdicts"], ln, is_map)
        got = run["got"]
        chk.count("cli:%s%s%s:%s" % (cmd, "+ps" if ps else "", "+strict" if strict else "", "/".join(map(str, got))))
        if want is not None and got != want:
            chk.violation("rbacx %s%s%s returns the success status exactly when the document%s conforms to the schema (6 otherwise; "
                          "3 only for lint issues under --strict after the schema passed)"
                          % (cmd, " --policyset" if ps else "", " --strict" if strict else "", " (every child)" if ps else ""),
                          case, impl={"argv": run, "got": got}, model=want)
        elif m is not None and m != got and want is not None:
            chk.corr_break("return code differs from Format.cli_main", case, impl={"argv": run, "got": got}, model=m,
                           theorems=["c17_cli_validate_rc", "c17_cli_check_rc", "c17_cli_lint_rc"])


# --------------------------------------------------------------------------------------------
# family noalgo
# --------------------------------------------------------------------------------------------
def observe_noalgo(c):
    p, req, strict = c["policy"], c["req"], bool(c.get("strict"))
    is_set = isinstance(p, dict) and "policies" in p
    paths = {}
    filled = fill(p)

    def both(name, fn):
        paths[name] = [fn(p), fn(filled)]

    if is_set:
        both("policyset.decide", lambda q: interp(q, req, strict, "set"))
        both("compile(policyset)", lambda q: interp(q, req, strict, "compiled"))
    else:
        both("policy.evaluate", lambda q: interp(q, req, strict, "evaluate"))
        both("policy.decide", lambda q: interp(q, req, strict, "decide"))
        both("compile(policy)", lambda q: interp(q, req, strict, "compiled"))
        paths["compile(policy)"].append(interp(with_algo(p, "permit-overrides"), req, strict, "compiled"))
    both("Guard.evaluate_sync", lambda q: guard_sync(q, req, strict))
    if not is_set:
        paths["Guard.evaluate_sync"].append(guard_sync(with_algo(p, "permit-overrides"), req, strict))
    # as the only child of a set whose own algorithm lets the child's result through
    wrap = lambda q: {"algorithm": "first-applicable", "policies": [q]}  # noqa: E731
    paths["child of a set (policyset.decide)"] = [interp(wrap(p), req, strict, "set"), interp(wrap(filled), req, strict, "set")]
    paths["child of a set (Guard)"] = [guard_sync(wrap(p), req, strict), guard_sync(wrap(filled), req, strict)]
    # inside a nested set that names no algorithm anywhere
    nest = lambda q, a: ({"policies": [{"policies": [q]}]} if a is None else  # noqa: E731
                         {"algorithm": a, "policies": [{"algorithm": a, "policies": [q]}]})
    paths["nested set (policyset.decide)"] = [interp(nest(p, None), req, strict, "set"), interp(nest(filled, "deny-overrides"), req, strict, "set")]
    paths["nested set (Guard)"] = [guard_sync(nest(p, None), req, strict), guard_sync(nest(filled, "deny-overrides"), req, strict)]
    lint = None
    if not is_set:
        lint = [lint_cross_impl(p), lint_cross_impl(filled)]
    return {"paths": paths, "lint": lint}


def judge_noalgo(chk, c, obs, m):
    p, req, strict = c["policy"], c["req"], bool(c.get("strict"))
    is_set = isinstance(p, dict) and "policies" in p
    case = {k: c[k] for k in ("fam", "policy", "req", "strict", "expect", "sub") if k in c}
    some_unnamed = json.dumps(lib.jsonable(fill(p)), sort_keys=True, default=str) != json.dumps(lib.jsonable(p), sort_keys=True, default=str)
    base = obs["paths"].get("policy.evaluate") or obs["paths"].get("policyset.decide")
    chk.mark(("noalgo", json.dumps(lib.jsonable(p), sort_keys=True, default=str), json.dumps(lib.jsonable(req), sort_keys=True, default=str), strict),
             some_unnamed and isinstance(base[0], dict) and bool(base[0].get("rule_id")))
    chk.count("noalgo_sub:" + c.get("sub", "?"))
    chk.count("noalgo_effect:" + eff(base[1]))
    f12_open = any(f.get("id") == "F12" and f.get("status") == "open" for f in chk.findings)
    for name, res in obs["paths"].items():
        got, want = res[0], res[1]
        chk.traces += 1
        if eff(got) == eff(want):
            continue
        # the narrow class of F12: a single (non-set) policy, no algorithm named, through the engine's compiled path, on which
        # permit-overrides and deny-overrides give different effects — and it fails in the listed way (= permit-overrides)
        in_class = (not is_set) and unnamed(p) and name in ("Guard.evaluate_sync", "compile(policy)") and len(res) > 2 \
            and eff(res[2]) != eff(want)
        listed_way = in_class and res[2] == got
        if in_class and listed_way and f12_open:
            chk.known("F12")
            chk.count("f12:" + name)
            continue
        chk.violation("a document that names no combining algorithm is decided with deny-overrides on path %s" % name,
                      {**case, "path": name}, impl=got, model=want,
                      note="effect with deny-overrides written out at every unnamed level: %s" % eff(want))
    # any applicable deny wins (paths without the compiler's tier selection)
    exp = c.get("expect")
    if exp:
        for name in ("policy.evaluate", "policy.decide", "child of a set (policyset.decide)", "nested set (policyset.decide)", "policyset.decide"):
            if name in obs["paths"] and eff(obs["paths"][name][0]) != exp:
                chk.violation("no algorithm named: any applicable deny wins, else permit iff some applicable permit, else deny (%s)" % name,
                              {**case, "path": name}, impl=obs["paths"][name][0], model=exp)
    # the linter's overlap analysis assumes the same default
    if obs["lint"] is not None:
        a, b = obs["lint"]
        if a != b:
            chk.violation("the linter analyses a policy that names no algorithm as deny-overrides", case, impl=a, model=b)
    # ---- model
    if m is None:
        return
    mg, mi, mc, mfill, mlint = m
    if mfill is not None and not same_doc(mfill, fill(p)):
        chk.corr_break("Format.fill_deep differs from the harness's fill()", case, impl=fill(p), model=mfill, theorems=["c17_default_algorithm_any_depth"])
    g = obs["paths"]["Guard.evaluate_sync"][0]
    if mg not in (["Ood"], ["UnknownRelQuery"]) and mg is not None:
        if isinstance(g, dict) and isinstance(mg, dict):
            if (g["effect"], g["rule_id"], g["reason"]) != (mg["effect"], mg["rule_id"], mg["reason"]):
                chk.corr_break("Guard decision differs from Engine.guard_eval on a policy naming no algorithm", case, impl=g, model=mg,
                               theorems=["c17_refuted_engine_default", "c17_engine_default_outside_class"])
        elif isinstance(g, dict) != isinstance(mg, dict):
            chk.corr_break("Guard raises/returns where the model does the opposite", case, impl=g, model=mg, theorems=["c17_engine_default_outside_class"])
    i = (obs["paths"].get("policy.evaluate") or obs["paths"].get("policyset.decide"))[0]
    if mi not in (["Ood"], ["UnknownRelQuery"]) and mi is not None and isinstance(i, dict) and isinstance(mi, dict):
        if (i["decision"], i["rule_id"], i["reason"]) != (mi["decision"], mi["rule_id"], mi["reason"]):
            chk.corr_break("reference evaluator differs from the model on a policy naming no algorithm", case, impl=i, model=mi,
                           theorems=["c17_default_algorithm_interpreter", "c17_default_algorithm_set"])
    if mc is not None and not is_set:
        ci = obs["paths"]["compile(policy)"][0]
        if mc not in (["Ood"], ["UnknownRelQuery"], ["CompileRaises"]) and isinstance(ci, dict) and isinstance(mc, dict):
            if (ci["decision"], ci["rule_id"]) != (mc["decision"], mc["rule_id"]):
                chk.corr_break("compile(policy)(env) differs from Compiler.compiled_decide on a policy naming no algorithm", case, impl=ci, model=mc,
                               theorems=["c17_compiled_default_is_permit_overrides", "c17_refuted_engine_default"])
    if mlint is not None and obs["lint"] is not None:
        a = obs["lint"][0]
        if mlint[0] == "Ok" and a[0] == "Ok":
            if mlint[1] != a[1]:
                chk.corr_break("the linter's overlap/unreachable issues differ from Format.lint_cross", case, impl=a, model=mlint,
                               theorems=["c17_default_algorithm_linter", "c17_linter_overlap_sound"])
        elif mlint[0] != "Ood" and (mlint[0] == "Ok") != (a[0] == "Ok"):
            chk.corr_break("the linter raises/returns where Format.lint_cross does the opposite", case, impl=a, model=mlint,
                           theorems=["c17_default_algorithm_linter"])


# --------------------------------------------------------------------------------------------
# family cli (parse failures, missing dependency)
# --------------------------------------------------------------------------------------------
def observe_cli(c, tmpdir):
    argv = [c["cmd"]]
    path = None
    if c.get("via", "file") == "file":
        path = os.path.join(tmpdir, "x%d%s" % (random.Random(c.get("seed", 0)).randrange(10**6), c.get("ext", ".json")))
        with open(path, "w", encoding="utf-8") as f:
            f.write(c["text"])
        argv += ["--policy", path]
    if c.get("policyset"):
        argv.append("--policyset")
    if c.get("strict"):
        argv.append("--strict")
    try:
        if c.get("nodep"):
            with fake_module("jsonschema", None):
                got, _ = run_cli(argv, stdin_text=None if path else c["text"])
        else:
            got, _ = run_cli(argv, stdin_text=None if path else c["text"])
    finally:
        if path:
            os.unlink(path)
    return {"got": got}


def judge_cli(chk, c, obs, m):
    chk.mark(("cli", json.dumps(c, sort_keys=True, default=str)), True)
    chk.count("clifam:%s:%s" % (c["sub"], "/".join(map(str, obs["got"]))))
    want = c.get("want")
    if want is not None and obs["got"] != want and not (want[0] == "escapes" and want[1] == "*" and obs["got"][0] == "escapes"):
        chk.violation(c["clause"], c, impl=obs["got"], model=want)
    elif m is not None and m != obs["got"] and not (m[0] == "escapes" and obs["got"][0] == "escapes"):
        chk.corr_break("return code differs from Format.cli_main", c, impl=obs["got"], model=m, theorems=["c17_cli_missing_dependency", "c17_cli_validate_rc"])


# --------------------------------------------------------------------------------------------
# shards
# --------------------------------------------------------------------------------------------
def _shard(cases):
    logging_off()
    speed_up_jsonschema()
    tmpdir = tempfile.mkdtemp(prefix="c17_")
    out = []
    try:
        for c in cases:
            fam = c["fam"]
            try:
                if fam == "detect":
                    out.append(observe_detect(c))
                elif fam == "doc":
                    out.append(observe_doc(c, tmpdir))
                elif fam == "noalgo":
                    out.append(observe_noalgo(c))
                elif fam == "cli":
                    out.append(observe_cli(c, tmpdir))
                else:
                    out.append({"error": "unknown family"})
            except RecursionError:
                out.append({"error": "RecursionError in the harness"})
    finally:
        shutil.rmtree(tmpdir, ignore_errors=True)
    return out


def logging_off():
    import logging
    logging.disable(logging.CRITICAL)


def par(fn, items, n=12):
    if len(items) < 40:
        return fn(items)
    n = min(n, max(1, len(items) // 20))
    shards = [items[i::n] for i in range(n)]
    with mp.get_context("fork").Pool(n) as pool:
        parts = pool.map(fn, shards)
    out = [None] * len(items)
    for i, part in enumerate(parts):
        out[i::n] = part
    return out


def _enc_ok(*vals):
    try:
        for v in vals:
            lib.enc(v)
        return True
    except (TypeError, ValueError):
        return False


# --------------------------------------------------------------------------------------------
# check_cases
# --------------------------------------------------------------------------------------------
def check_cases(chk, cases, replay=False):
    cases = [c for c in cases if isinstance(c, dict) and c.get("fam") in ("detect", "doc", "noalgo", "cli")]
    obs = par(_shard, cases)
    # ---- model lines
    f_lines, f_slots = [], []       # format runner
    e_lines, e_slots = [], []       # engine runner
    for ix, (c, o) in enumerate(zip(cases, obs)):
        if "error" in o:
            continue
        fam = c["fam"]
        if fam == "detect":
            f_lines.append(lib.model_call("format.detect", c["fn"], c["ct"], c["fmt"]))
            f_slots.append((ix, "detect"))
        elif fam == "doc":
            doc = c["doc"]
            if _enc_ok(doc):
                e_lines.append(lib.model_call("schema.valid", doc))
                e_slots.append((ix, "valid"))
                if isinstance(doc, dict) and isinstance(doc.get("policies"), list):
                    for j, ch in enumerate(doc["policies"]):
                        e_lines.append(lib.model_call("schema.valid", ch))
                        e_slots.append((ix, ("child", j)))
                for k, run in enumerate(o["cli"]):
                    ln = o["lint_n"]["set" if run["policyset"] else "single"]
                    f_lines.append(lib.model_call("cli.main", run["cmd"], run["policyset"], run["strict"], False, ["doc", doc], ln))
                    f_slots.append((ix, ("cli", k)))
        elif fam == "noalgo":
            p, req, strict = c["policy"], c["req"], bool(c.get("strict"))
            if _enc_ok(p, req):
                env = polgen.env_of_req(req, strict)
                e_lines.append(lib.model_call("engine.eval", strict, p, req, None, None))
                e_slots.append((ix, "g"))
                if "policies" in p:
                    e_lines.append(lib.model_call("policyset.decide", p, env, None))
                else:
                    e_lines.append(lib.model_call("policy.evaluate", None, p, env, None))
                e_slots.append((ix, "i"))
                e_lines.append(lib.model_call("compiler.decide", p, env, None))
                e_slots.append((ix, "c"))
                f_lines.append(lib.model_call("default.fill", p))
                f_slots.append((ix, "fill"))
                f_lines.append(lib.model_call("lint.cross", p))
                f_slots.append((ix, "lint"))
        elif fam == "cli":
            if c.get("model_parsed") is not None and _enc_ok(c["model_parsed"]):
                f_lines.append(lib.model_call("cli.main", c["cmd"], bool(c.get("policyset")), bool(c.get("strict")), bool(c.get("nodep")),
                                              c["model_parsed"], c.get("lint_n", 0)))
                f_slots.append((ix, "cli"))
    f_out = [lib.dec(x) for x in lib.run_model(RUNNER_F, f_lines)]
    e_out = [lib.dec(x) for x in lib.run_model(RUNNER_E, e_lines)]
    model = {}
    for (ix, key), v in list(zip(f_slots, f_out)) + list(zip(e_slots, e_out)):
        model.setdefault(ix, {})[key] = v
    # ---- judge
    for ix, (c, o) in enumerate(zip(cases, obs)):
        fam = c["fam"]
        chk.count("fam:" + fam)
        if "error" in o:
            chk.count("harness_skipped:" + o["error"])
            continue
        m = model.get(ix, {})
        if fam == "detect":
            judge_detect(chk, c, o, m.get("detect"))
        elif fam == "doc":
            kids = None
            if isinstance(c["doc"], dict) and isinstance(c["doc"].get("policies"), list):
                kids = [m.get(("child", j)) for j in range(len(c["doc"]["policies"]))]
                if any(k is None for k in kids):
                    kids = None
            judge_doc(chk, c, o, m.get("valid"), kids, [m.get(("cli", k)) for k in range(len(o["cli"]))])
            chk.sample({"doc": c["doc"], "valid": o["jv"], "deliveries": o["deliveries"], "cli": o["cli"][:3]}, every=997)
        elif fam == "noalgo":
            mm = (m.get("g"), m.get("i"), m.get("c"), m.get("fill"), m.get("lint")) if m else None
            judge_noalgo(chk, c, o, mm)
            chk.sample({"policy": c["policy"], "req": c["req"], "paths": {k: [eff(x) for x in v] for k, v in o["paths"].items()}}, every=1499)
        elif fam == "cli":
            judge_cli(chk, c, o, m.get("cli"))


# --------------------------------------------------------------------------------------------
# generation
# --------------------------------------------------------------------------------------------
def g_value(rng, depth=0):
    r = rng.random()
    if r < 0.3:
        return rng.choice(TRICKY)
    if r < 0.5:
        return rng.choice([None, True, False, 0, 1, -1, 1.0, 1.5, -0.0, 2**53 + 1, 10**30, 1e30, 5e-324, "", "a", "abc"])
    if r < 0.6 and depth < 2:
        return [g_value(rng, depth + 1) for _ in range(rng.choice([0, 1, 2, 3]))]
    if r < 0.8 and depth < 2:
        ks = rng.sample(["b", "a", "z", "k", "on", "1", "null", "é", "y"], rng.choice([0, 1, 2, 3]))
        return {k: g_value(rng, depth + 1) for k in ks}
    return rng.choice(["x", 5, "doc"])


def g_rule17(rng, i):
    """rules with YAML-hostile strings, object-valued constraints (key order!) and odd keys."""
    rule = {"id": rng.choice(["r%d" % i, rng.choice(TRICKY), ""]), "effect": rng.choice(["permit", "deny"]),
            "actions": rng.choice([["read"], ["*"], ["read", "write"], [rng.choice(TRICKY[:30]) or "x"], ["on", "1"]]),
            "resource": rng.choice([{"type": "doc"}, {"type": "*"}, {"type": ["doc", "on"]},
                                    {"type": "doc", "id": rng.choice(["1", 1, "on", 1.0, True])},
                                    {"type": "doc", "attrs": {"k": g_value(rng)}},
                                    {"type": "doc", "attrs": {"k": {"b": 1, "a": 2}}},
                                    {"type": "doc", "attrs": {"k": {"b": 1, "a": 2}, "on": "yes"}},
                                    {"type": "doc", "id": {"z": 1, "a": [1, {"y": 0, "x": 0}]}},
                                    {"type": "doc", "attrs": {rng.choice(TRICKY): rng.choice(TRICKY)}, "note": g_value(rng)}])}
    if rng.random() < 0.5:
        v = g_value(rng)
        rule["condition"] = rng.choice([{"==": [{"attr": "context.a"}, v]}, {"!=": [v, {"attr": "resource.attrs.k"}]},
                                        {"in": [rng.choice(["on", "1", 1, 2.5]), [g_value(rng), "on", 1]]},
                                        {"hasAny": [{"attr": "subject.roles"}, [rng.choice(TRICKY), "staff"]]},
                                        {"and": [True, {"not": {"startsWith": [{"attr": "subject.id"}, rng.choice(TRICKY)]}}]},
                                        {"rel": {"relation": "viewer", "ctx": {"z": 1, "a": g_value(rng)}}}, True, False])
    if rng.random() < 0.3:
        rule["obligations"] = [{"type": rng.choice(["require_mfa", "on", "1"]), "attrs": {"z": g_value(rng), "a": 1}}]
    return rule


def g_doc17(rng):
    def pol(in_set):
        p = {"rules": [g_rule17(rng, i) for i in range(rng.choice([0, 1, 2, 3]))]}
        a = rng.choice(polgen.ALGOS + [None])
        if a:
            p["algorithm"] = a
        if rng.random() < 0.5:      # algorithm after rules: another key order
            p = dict(reversed(list(p.items())))
        return p
    if rng.random() < 0.25:
        d = {"policies": [pol(True) for _ in range(rng.choice([0, 1, 2, 3]))]}
        if rng.random() < 0.7:
            d["algorithm"] = rng.choice(polgen.ALGOS)
        return d
    d = pol(False)
    if rng.random() < 0.3:          # the top level allows further keys
        d[rng.choice(["id", "version", "description", "on"])] = rng.choice(["p1", 1, "1.0", "on"])
    return d


def targeted_mutations(rng, doc):
    """single-point schema-invalid mutations named in the statement; yields (what, document)"""
    out = []

    def rules_paths(d, base=()):
        ps = []
        if isinstance(d.get("rules"), list):
            ps += [base + ("rules", i) for i in range(len(d["rules"]))]
        if isinstance(d.get("policies"), list):
            for j, ch in enumerate(d["policies"]):
                if isinstance(ch, dict):
                    ps += rules_paths(ch, base + ("policies", j))
        return ps

    def at(d, path):
        for s in path:
            d = d[s]
        return d
    rp = rules_paths(doc)
    if rp:
        path = rng.choice(rp)
        for what, f in [
            ("drop required key", lambda r: r.pop(rng.choice(["id", "effect", "actions", "resource"]), None)),
            ("wrong type", lambda r: r.__setitem__(rng.choice(["id", "actions", "resource", "effect"]), rng.choice([5, None, {}, [], True, "x"]))),
            ("extra key", lambda r: r.__setitem__(rng.choice(["extra", "Effect", "conditions"]), 1)),
            ("wrong effect", lambda r: r.__setitem__("effect", rng.choice(["allow", "Permit", "DENY", "", None, 1]))),
            ("empty actions", lambda r: r.__setitem__("actions", rng.choice([[], [""], ["read", 5], "read"]))),
            ("resource without type", lambda r: r.__setitem__("resource", rng.choice([{}, {"id": "1"}, {"type": ""}, {"type": []}, {"type": ["doc", 5]}]))),
            ("wrong operand arity", lambda r: r.__setitem__("condition", rng.choice([{"==": [1]}, {"==": [1, 2, 3]}, {"between": [1, 2]},
                                                                                     {"<": ["a", 1]}, {"and": {"==": [1, 1]}}, {"not": [True]},
                                                                                     {"==": [1, 1], "!=": [1, 2]}, {"nope": [1, 1]}, {},
                                                                                     {"in": [{"attr": "a"}, [1]]}, {"rel": ""}, {"rel": {"subject": "u"}},
                                                                                     {"startsWith": [{"attr": "a", "x": 1}, "a"]}]))),
            ("bad obligations", lambda r: r.__setitem__("obligations", rng.choice([{}, [1], "x", [None]]))),
        ]:
            d = copy.deepcopy(doc)
            f(at(d, path))
            out.append((what, d))
    for what, f in [
        ("bad enum", lambda d: d.__setitem__("algorithm", rng.choice(["deny_overrides", "Deny-Overrides", "first", 5, None, "", ["deny-overrides"]]))),
        ("rules and policies", lambda d: d.__setitem__("policies" if "rules" in d else "rules", [])),
        ("neither rules nor policies", lambda d: (d.pop("rules", None), d.pop("policies", None))),
        ("rules not a list", lambda d: d.__setitem__("rules" if "rules" in d else "policies", rng.choice([{}, "x", None, 5]))),
    ]:
        d = copy.deepcopy(doc)
        f(d)
        out.append((what, d))
    if isinstance(doc.get("policies"), list) and doc["policies"]:
        for what, f in [
            ("child extra key", lambda ch: ch.__setitem__(rng.choice(["id", "version", "policies"]), rng.choice(["c1", 1, []]))),
            ("child bad enum", lambda ch: ch.__setitem__("algorithm", rng.choice(["x", None, ""]))),
            ("child without rules", lambda ch: ch.pop("rules", None)),
        ]:
            d = copy.deepcopy(doc)
            j = rng.randrange(len(d["policies"]))
            if isinstance(d["policies"][j], dict):
                f(d["policies"][j])
                out.append((what, d))
        d = copy.deepcopy(doc)
        d["policies"][rng.randrange(len(d["policies"]))] = rng.choice([5, "x", None, [], {"rules": [{}]}])
        out.append(("child wrong type", d))
    return out


REQS17 = [
    {"subject": {"id": "u1", "roles": ["staff"], "attrs": {}}, "action": "read",
     "resource": {"type": "doc", "id": "1", "attrs": {"k": {"b": 1, "a": 2}, "on": "yes"}}, "context": {"a": "on"}},
    {"subject": {"id": "on", "roles": ["1"], "attrs": {}}, "action": "read",
     "resource": {"type": "doc", "id": {"z": 1, "a": [1, {"y": 0, "x": 0}]}, "attrs": {"k": 1}}, "context": {"a": 1}},
    {"subject": {"id": "u2", "roles": [], "attrs": {}}, "action": "on", "resource": {"type": "on", "id": "on", "attrs": {"k": "1"}}, "context": {}},
]


def gen_detect(chk):
    out = []
    for fmt in FMTS:
        for ct in CTS:
            for fn in FNS:
                out.append({"fam": "detect", "fn": fn, "ct": ct, "fmt": fmt})
    rng = chk.rng
    pieces = ["json", "yaml", "yml", "x-", ".", "JSON", "YAML", "Yml", "application/", "text/", ";", " ", "p", "/", "+", "é", "K", "İ", "a"]
    for _ in range(600 if chk.tier == "quick" else 6000):
        def mk():
            r = rng.random()
            if r < 0.15:
                return None
            return "".join(rng.choice(pieces) for _ in range(rng.choice([0, 1, 2, 3, 4])))
        out.append({"fam": "detect", "fn": mk(), "ct": mk(), "fmt": mk()})
    return out


def gen_docs(chk):
    rng = chk.rng
    quick = chk.tier == "quick"
    out = []
    n = 330 if quick else 1500

    def add(sub, doc, reqs):
        out.append({"fam": "doc", "sub": sub, "doc": doc, "reqs": reqs, "seed": rng.randrange(2**31), "quick": quick})
    for i in range(n):
        if i % 2 == 0:
            doc = c06.g_doc(rng)
            reqs = c06.requests(rng, 2) + [rng.choice(REQS17)]
            # no NaN / inf inside requests here: decisions are compared with ==
            reqs = [r for r in reqs if _no_nan(r)] or [REQS17[0]]
            sub = "grammar"
        else:
            doc = g_doc17(rng)
            reqs = list(REQS17)
            sub = "tricky"
        add(sub, doc, reqs)
        muts = targeted_mutations(rng, doc)
        rng.shuffle(muts)
        for what, d in muts[:4]:
            add("mut:" + what, d, reqs[:1])
        for _ in range(2):
            add("mut:random", c06.mutate(rng, doc), reqs[:1])
    # the rule-outcome patterns as documents (valid, all three algorithms + none)
    for pat in polgen.all_patterns(2):
        for algo in polgen.ALGOS + [None]:
            add("pattern", polgen.pattern_policy(pat, algo, with_obl=len(pat) == 2), [polgen.BASE_REQ])
    # sets from the child pool; children carry an "id" there, which the schema forbids for children: strip it for the valid half
    pool = polgen.child_pool()
    for (n1, c1), (n2, c2) in itertools.product(pool[:8], repeat=2):
        kids = [{k: v for k, v in c1.items() if k != "id"}, {k: v for k, v in c2.items() if k != "id"}]
        add("set", {"algorithm": rng.choice(polgen.ALGOS), "policies": kids}, [polgen.BASE_REQ])
        if rng.random() < 0.3:
            add("set-with-child-ids", {"policies": [c1, c2]}, [polgen.BASE_REQ])
    # non-mapping roots: only the validator / CLI clauses apply
    for d in ([], None, 5, "x", [{"rules": []}], True, 1.5):
        add("non-mapping", d, [])
    return out


def _no_nan(x):
    if isinstance(x, float):
        return not (math.isnan(x) or math.isinf(x))
    if isinstance(x, dict):
        return all(_no_nan(v) for v in x.values())
    if isinstance(x, list):
        return all(_no_nan(v) for v in x)
    return True


def strip_algo(rng, p, how=None):
    """the same policy / set with the algorithm absent, null or "" at every level"""
    if not isinstance(p, dict):
        return p
    q = {}
    for k, v in p.items():
        if k == "algorithm":
            continue
        q[k] = [strip_algo(rng, ch, how) for ch in v] if k == "policies" and isinstance(v, list) else v
    h = how if how is not None else rng.choice(["absent", "null", "empty"])
    if h == "null":
        q["algorithm"] = None
    elif h == "empty":
        q["algorithm"] = ""
    return q


def expected_do(pat):
    app = [e for k, e in pat if k == "A"]
    if "deny" in app:
        return "deny"
    return "permit" if "permit" in app else "deny"


def gen_noalgo(chk):
    rng = chk.rng
    quick = chk.tier == "quick"
    out = []
    maxlen = 3
    n = 0
    for pat in polgen.all_patterns(maxlen):
        n += 1
        if len(pat) == 3 and quick and n % 4 != chk.seed % 4:
            continue
        if len(pat) == 0:
            continue
        for how in ("absent", "null", "empty"):
            if len(pat) == 3 and (n + len(how)) % 3 != 0:
                continue
            pol = strip_algo(rng, polgen.pattern_policy(pat, None, with_obl=(n % 5 == 0)), how)
            out.append({"fam": "noalgo", "sub": "pattern%d" % len(pat), "policy": pol, "req": polgen.BASE_REQ, "strict": n % 7 == 0,
                        "expect": expected_do(pat)})
    # sets of algorithm-less children, the set itself algorithm-less
    pool = [(nm, strip_algo(rng, {k: v for k, v in p.items()}, "absent")) for nm, p in polgen.child_pool()]
    for (n1, c1), (n2, c2) in itertools.product(pool, repeat=2):
        for how in (("absent",) if quick else ("absent", "null", "empty")):
            ps = strip_algo(rng, {"policies": [c1, c2]}, how)
            out.append({"fam": "noalgo", "sub": "set2", "policy": ps, "req": polgen.BASE_REQ, "strict": False})
    # random rich policies (tiers, conditions, obligations, nested sets) with every algorithm removed
    import enggen
    for _ in range(500 if quick else 6000):
        pol = strip_algo(rng, enggen.rich_policy(rng))
        for req in enggen.requests(rng, 2):
            out.append({"fam": "noalgo", "sub": "rich", "policy": pol, "req": req, "strict": rng.random() < 0.3})
    # partially named: only some levels lack the algorithm
    for _ in range(150 if quick else 1500):
        pol = enggen.rich_policy(rng)
        if isinstance(pol.get("policies"), list) and pol["policies"]:
            j = rng.randrange(len(pol["policies"]))
            pol["policies"][j] = strip_algo(rng, pol["policies"][j])
        elif rng.random() < 0.5:
            pol = strip_algo(rng, pol)
        out.append({"fam": "noalgo", "sub": "partial", "policy": pol, "req": enggen.requests(rng, 1)[0], "strict": False})
    return out


def gen_cli(chk):
    out = []
    good = {"algorithm": "deny-overrides", "rules": [{"id": "r", "effect": "permit", "actions": ["read"], "resource": {"type": "doc"}}]}
    bad = {"rules": [{"id": "r"}]}
    # parse failures: the exception leaves main() (validate catches only RuntimeError)
    for cmd in ("validate", "check", "lint"):
        for text, ext in (("{not json", ".json"), ("a: [1", ".yaml"), ("- 1\n- 2\n", ".yml"), ("a: 1", ".json"), ("", ".json")):
            out.append({"fam": "cli", "sub": "parsefail", "cmd": cmd, "text": text, "ext": ext, "want": ["escapes", "*"],
                        "clause": "an unparsable input is not reported as a schema verdict", "seed": len(out)})
        out.append({"fam": "cli", "sub": "stdin-yaml", "cmd": cmd, "text": "rules: []\n", "via": "stdin", "want": ["escapes", "*"],
                    "clause": "input without a file name is read as JSON", "seed": len(out)})
    # an empty YAML file is the empty mapping: invalid
    for cmd, want in (("validate", ["rc", 6]), ("check", ["rc", 6]), ("lint", ["rc", 0])):
        out.append({"fam": "cli", "sub": "empty-yaml", "cmd": cmd, "text": "", "ext": ".yaml", "want": want,
                    "clause": "an empty YAML document is the empty mapping, which does not conform", "seed": len(out),
                    "model_parsed": ["doc", {}], "lint_n": 0})
    # missing jsonschema: EXIT_ENV whenever the validator is reached
    for cmd in ("validate", "check"):
        for doc in (good, bad):
            out.append({"fam": "cli", "sub": "nodep", "cmd": cmd, "text": json.dumps(doc), "nodep": True, "want": ["rc", 5],
                        "clause": "a missing jsonschema is reported as the environment status, not as a verdict", "seed": len(out),
                        "model_parsed": ["doc", doc], "lint_n": 0})
        out.append({"fam": "cli", "sub": "nodep-set", "cmd": cmd, "text": json.dumps({"policies": [good]}), "nodep": True, "policyset": True,
                    "want": ["rc", 5], "clause": "a missing jsonschema is reported as the environment status, not as a verdict",
                    "seed": len(out), "model_parsed": ["doc", {"policies": [good]}], "lint_n": 0})
        out.append({"fam": "cli", "sub": "nodep-nochildren", "cmd": cmd, "text": json.dumps({"policies": []}), "nodep": True, "policyset": True,
                    "want": None, "clause": "", "seed": len(out), "model_parsed": ["doc", {"policies": []}], "lint_n": 0})
    out.append({"fam": "cli", "sub": "nodep-lint", "cmd": "lint", "text": json.dumps(bad), "nodep": True, "want": ["rc", 0],
                "clause": "lint needs no jsonschema", "seed": len(out), "model_parsed": ["doc", bad], "lint_n": 3})
    return out


def corpus_cases():
    out = []
    for f in sorted((lib.VERIF / "corpus" / "C17").glob("*.json")):
        for c in json.loads(f.read_text())["cases"]:
            out.append(lib.unjson(c))
    return out


def unicode_lower_fact():
    """the fact Format.lower_of rests on: no non-ASCII code point lower-cases to a string containing a letter
    of the markers json / yaml / x-yaml / .yml (so ASCII lower-casing decides the same comparisons)."""
    letters = set("jsonyamlx-.")
    bad = []
    for cp in range(128, 0x110000):
        if 0xD800 <= cp <= 0xDFFF:
            continue
        low = chr(cp).lower()
        if any(ch in letters for ch in low):
            bad.append(hex(cp))
    return bad


def run(chk):
    chk.rule = ("detect: every combination of %d hints x %d content types x %d file names (exhaustive) plus random marker strings, "
                "through _detect_format and through parse_policy_text/bytes on two probe texts; doc: documents from the schema grammar "
                "(C06 generator) and a YAML-hostile generator (strings YAML 1.1 reads as bool/int/date/null, object-valued constraints, "
                "odd keys), 4 targeted + 2 random single-point mutations each, every rule-outcome pattern up to length 2 x algorithm, "
                "sets over the child pool, non-mapping roots; each rendered in 2-3 of 5 JSON and 6 YAML styles (thorough: all), "
                "delivered by parse_policy_text/bytes under sampled hint/content-type/name combinations, FilePolicySource, "
                "HTTPPolicySource (4 response shapes), S3PolicySource, validate_schema on and off, CLI validate/check/lint with and "
                "without --policyset/--strict from file and stdin; noalgo: algorithm absent/null/\"\" at every level for every "
                "rule-outcome pattern up to length 3, pairs of pool children, random rich policies and nested sets, on 9 paths. "
                "non-trivial: detect = some argument given; doc = a mapping that was delivered at least once; noalgo = some level "
                "unnamed and a rule decided; distinct = distinct canonical case" % (len(FMTS), len(CTS), len(FNS)))
    chk.assumptions = [
        "JSON / YAML parsing and dumping are json / PyYAML library behaviour; 'equivalent YAML rendering' = yaml.safe_dump output "
        "(several styles) that yaml.safe_load itself reads back as the document (renderings the library does not round-trip are "
        "counted and skipped)",
        "the schema verdict is jsonschema (private install in /verif/.pydeps) on src/rbacx/dsl/policy.schema.json; Schema.schema_valid "
        "is compared with it on every document and child",
        "str.lower() maps no non-ASCII code point to a letter of json/yaml/x-yaml/.yml (re-checked below over all code points), so the "
        "model's ASCII lower-casing decides the same comparisons",
        "Python's recursion limit is outside the model (documents nested deeper than ~150 levels make jsonschema raise RecursionError, "
        "a RuntimeError, which the CLI reports as status 5)",
    ]
    bad = unicode_lower_fact()
    chk.extra["unicode_lower_fact"] = "holds" if not bad else "FAILS for " + ",".join(bad[:10])
    if bad:
        chk.corr_break("str.lower() maps a non-ASCII code point onto a marker letter: Format.lower_of is no longer faithful",
                       {"fam": "fact", "code_points": bad[:20]}, impl=bad[:20], model=[], theorems=["c17_detect_format"])
    cases = corpus_cases() + gen_detect(chk) + gen_cli(chk) + gen_noalgo(chk) + gen_docs(chk)
    chk.exhaustive = False
    chk.extra["exhaustive_families"] = ["detect: hints x content types x file names of the pools"]
    check_cases(chk, cases)
