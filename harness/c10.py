"""C10 — hot reload is fail-safe, version-tag gated and converges to the source.

Scripted histories are run on the real rbacx.policy.loader.HotReloader (clock and
jitter draw scripted by replacing `time` / `random` in that module; custom sync and
async sources, FilePolicySource on a temp dir, HTTPPolicySource against a fake
`requests` module, S3PolicySource against a fake client) and on the extracted Coq
model (Reload.v / Sources.v, runner "reload").  After every command the observables
are compared, and the clauses of the property are judged on the implementation's own
behaviour (safety, inert failures, bounded window, convergence on a stable tail).
Two overlapping checks are driven through every interleaving of their atomic steps on real
threads (gates at the source calls and at guard.set_policy); the atomicity of "install the
document + record its tag" that the model's step granularity assumes is tested there too.
"""
import asyncio
import hashlib
import inspect
import itertools
import json
import os
import shutil
import sys
import tempfile
import threading
import types
import zlib
from fractions import Fraction
from pathlib import Path

import lib
from c16 import FsTap, fs_calls_of, fs_calls_of_etag

ALGO = ["sha256", "crc32c", "sha1", "crc32", "crc64nvme"]
ALGO_KEY = {"sha256": "ChecksumSHA256", "crc32c": "ChecksumCRC32C", "sha1": "ChecksumSHA1",
            "crc32": "ChecksumCRC32", "crc64nvme": "ChecksumCRC64NVME"}
THEOREMS = ["c10_active_policy_was_loaded", "c10_failure_is_inert", "c10_backoff_bounded", "c10_converges"]


# --------------------------------------------------------------------------
# rendering of model contents / tags
# --------------------------------------------------------------------------
S_OFF_BAD, S_OFF_DOC = 100, 200   # model stand-ins of a schema-invalid content: BBad (100+k) / BDoc (200+k)


def s_obj(k):
    """parsable document no. k that the bundled policy schema rejects: one single-point mutation of a valid one."""
    rule = {"id": "r", "effect": "permit", "actions": ["read"], "resource": {"type": "doc"}}
    m = k % 4
    if m == 0:      # misspelt key where additionalProperties is false: the condition silently disappears
        rule["conditon"] = {"==": [1, 2]}
    elif m == 1:    # value outside the effect enum
        rule["effect"] = "allow"
    elif m == 2:    # wrong type
        rule["actions"] = "read"
    else:           # value outside the algorithm enum
        return {"id": "s%d" % k, "algorithm": "first", "rules": [rule]}
    return {"id": "s%d" % k, "rules": [rule]}


N_OFF = 300                      # model stand-in of a document JSON cannot serialise: BDoc (300+k) / BBad (300+k)


def _permit(act):
    return {"id": "r", "effect": "permit", "actions": [act], "resource": {"type": "doc"}}


def _n_day(k):
    import datetime
    return datetime.date(2026, 9, 1 + k % 28)


def n_obj(k):
    """document no. k holding a value json.dumps cannot serialise, in a place the decisions on the probe requests do
    not depend on (what yaml.safe_load makes of n_text(k); a custom source hands out this very object): a date in a
    top-level metadata key / a datetime in nested metadata / a set / bytes / a date as operand of a condition or as an
    obligation field of a rule for an action that is never requested.  It permits action "a<300+k>" on type "doc"."""
    import datetime
    d = _n_day(k)
    doc = {"id": "n%d" % k}
    v = k % 6
    if v == 0:
        doc["updated"] = d
    elif v == 1:
        doc["meta"] = {"reviewed": datetime.datetime(d.year, d.month, d.day, 10, 0, 0)}
    elif v == 2:
        doc["tags"] = {"a", "t%d" % k}
    elif v == 3:
        doc["sig"] = ("k%d" % k).encode()
    doc["rules"] = [_permit("a%d" % (N_OFF + k))]
    if v >= 4:
        z = {"id": "z", "effect": "deny", "actions": ["zz"], "resource": {"type": "doc"}}
        if v == 4:
            z["condition"] = {"==": [{"attr": "context.day"}, d]}
        else:
            z["obligations"] = [{"type": "audit", "since": d}]
        doc["rules"].append(z)
    return doc


def n_text(k):
    """the same document as YAML text (unquoted dates / timestamps, !!set, !!binary)."""
    import base64
    d = _n_day(k).isoformat()
    v = k % 6
    head = {0: "updated: %s\n" % d, 1: "meta: {reviewed: %s 10:00:00}\n" % d, 2: "tags: !!set {a, t%d}\n" % k,
            3: "sig: !!binary %s\n" % base64.b64encode(("k%d" % k).encode()).decode()}.get(v, "")
    z = ""
    if v >= 4:
        z = "- id: z\n  effect: deny\n  actions: [zz]\n  resource: {type: doc}\n"
        z += ('  condition: {"==": [{attr: context.day}, %s]}\n' % d) if v == 4 else \
             ("  obligations: [{type: audit, since: %s}]\n" % d)
    return ("# access policy, revision %d\nid: n%d\n%srules:\n- id: r\n  effect: permit\n  actions: [a%d]\n"
            "  resource: {type: doc}\n%s" % (k, k, head, N_OFF + k, z))


_N_CHECKED = {}


def n_selfcheck(k):
    """harness sanity (not a judgement): the YAML text really parses to n_obj(k), and json.dumps really refuses it."""
    if k % 6 not in _N_CHECKED:
        ok = True
        try:
            json.dumps(n_obj(k), sort_keys=True)
            ok = False
        except Exception:  # noqa: BLE001
            pass
        if HAVE_YAML:
            import yaml
            ok = ok and yaml.safe_load(render(["n", k]).decode()) == n_obj(k)
        _N_CHECKED[k % 6] = ok
    assert _N_CHECKED[k % 6], "n_obj / n_text disagree for variant %d" % (k % 6)


_N_SCHEMA = {}


def n_schema_ok(k):
    """does the bundled policy.schema.json accept n_obj(k)?  (asked of jsonschema directly, not of rbacx)"""
    v = k % 6
    if v not in _N_SCHEMA:
        import jsonschema
        from importlib import resources
        schema = json.loads(resources.files("rbacx.dsl").joinpath("policy.schema.json").read_text(encoding="utf-8"))
        _N_SCHEMA[v] = jsonschema.validators.validator_for(schema)(schema).is_valid(n_obj(k))
    return _N_SCHEMA[v]


def yaml_capable(c):
    """does the source of this case read YAML (custom sources hand out Python objects: any value goes)?"""
    k, fl = c["kind"][0], c.get("flavour", {})
    if k == "gen":
        return True
    if k == "http":
        return fl.get("fmt", "json") != "json"
    return bool(fl.get("yaml"))


def n_loadable(c, k):
    return yaml_capable(c) and (c["kind"][0] == "gen" or HAVE_YAML) and not (c.get("validate") and not n_schema_ok(k))


_RENDERED = {}


def render(b) -> bytes:
    key = (b[0], b[1])
    if key not in _RENDERED:
        _RENDERED[key] = _render(b)
    return _RENDERED[key]


def _render(b) -> bytes:
    """bytes of content b = ["d", n] | ["b", k] | ["s", k] | ["n", k].
    ["s", k] (parsable, schema-invalid) is ["b", 100+k] for the model of a validating source and ["d", 200+k] for
    the model of a non-validating one: all three render to the same bytes.  ["n", k] (YAML text of a document with
    dates / sets / bytes) is ["d", 300+k] for the model of a source that reads YAML and ["b", 300+k] for the others.
    (The model's Sources.bsize only enters the file source's (size, mtime) signature; every write here gets a fresh
    mtime, so the sizes need not be the model's.)"""
    if b[0] == "n" or (b[0] in ("b", "d") and b[1] >= N_OFF):
        k = b[1] - (0 if b[0] == "n" else N_OFF)
        txt = n_text(k)
        size = 320 + k % 2
    elif b[0] == "s" or (b[0] == "b" and b[1] >= S_OFF_BAD) or (b[0] == "d" and b[1] >= S_OFF_DOC):
        k = b[1] - {"s": 0, "b": S_OFF_BAD, "d": S_OFF_DOC}[b[0]]
        txt = json.dumps(s_obj(k))
        size = 192 + k % 2
    elif b[0] == "d":
        n = b[1]
        txt = json.dumps(doc_obj(n))
        size = 160 + n % 2
    else:
        txt = "{x%d" % b[1]
        size = 8 + b[1] % 2
    assert len(txt) <= size, (b, txt)
    return (txt + " " * (size - len(txt))).encode()


def doc_obj(n):
    """document n >= 1 permits exactly action "a<n>" on resource type "doc" (so that requests tell the documents of a
    history apart); document 0 is {}."""
    if n >= N_OFF:
        return n_obj(n - N_OFF)
    if n >= S_OFF_DOC:
        return s_obj(n - S_OFF_DOC)
    return {} if n == 0 else {"id": "d%d" % n, "rules": [_permit("a%d" % n)]}


def pol_id(p):
    if p == {}:
        return 0
    if isinstance(p, dict) and isinstance(p.get("id"), str) and p["id"][:1] == "d" and p["id"][1:].isdigit() \
            and p == doc_obj(int(p["id"][1:])):
        return int(p["id"][1:])
    if isinstance(p, dict) and isinstance(p.get("id"), str) and p["id"][:1] == "s" and p["id"][1:].isdigit() \
            and p == s_obj(int(p["id"][1:])):
        return S_OFF_DOC + int(p["id"][1:])
    if isinstance(p, dict) and isinstance(p.get("id"), str) and p["id"][:1] == "n" and p["id"][1:].isdigit() \
            and p == n_obj(int(p["id"][1:])):
        return N_OFF + int(p["id"][1:])
    return "?" + repr(p)[:60]


def expect_effect(doc, probe):
    """the decision document `doc` (an id as pol_id gives it) takes on the probe request {subject u / staff, action
    "a<probe>", resource doc/1, empty context}, by construction of the documents: permit iff it is the document's own
    action; deny by default otherwise ({} and rule-less documents deny everything).  None = not specified (a
    schema-invalid document a non-validating source let through, or an unknown object)."""
    if not isinstance(doc, int) or S_OFF_DOC <= doc < N_OFF:
        return None
    return "permit" if (doc >= 1 and doc == probe) else "deny"


def loadable_id(c, content):
    """id of the document a successful load() must return while the source holds `content`; None = no loadable
    document (missing, unparsable, or rejected by the schema when the source validates)."""
    if content is None:
        return None
    if content[0] == "d":
        return content[1]
    if content[0] == "s" and not c.get("validate"):
        return S_OFF_DOC + content[1]
    if content[0] == "n" and n_loadable(c, content[1]):
        return N_OFF + content[1]
    return None


def m_content(c, b):
    """content as the model sees it."""
    if b is not None and b[0] == "s":
        return ["b", S_OFF_BAD + b[1]] if c.get("validate") else ["d", S_OFF_DOC + b[1]]
    if b is not None and b[0] == "n":
        return ["d", N_OFF + b[1]] if n_loadable(c, b[1]) else ["b", N_OFF + b[1]]
    return b


_JS_CHECKED = {}


def speed_up_jsonschema():
    """jsonschema.validate() re-validates the (constant) bundled schema against its metaschema on every call
    (~80 ms); memoise that step per schema content.  The verdict on the instance is computed as before."""
    try:
        import jsonschema
    except Exception:  # noqa: BLE001
        return
    if getattr(jsonschema.validators, "_c10_memo", False) or getattr(jsonschema.validators, "_c17_memo", False):
        return
    jsonschema.validators._c10_memo = True
    for name in dir(jsonschema.validators):
        cls = getattr(jsonschema.validators, name)
        if isinstance(cls, type) and hasattr(cls, "check_schema") and hasattr(cls, "META_SCHEMA"):
            orig = getattr(cls.check_schema, "__func__", None)
            if orig is None:
                continue

            def memo(klass, schema, *a, _orig=orig, **k):
                try:
                    key = (klass.__name__, json.dumps(schema, sort_keys=True, default=repr))
                except Exception:  # noqa: BLE001
                    return _orig(klass, schema, *a, **k)
                if key not in _JS_CHECKED:
                    try:
                        _orig(klass, schema, *a, **k)
                        _JS_CHECKED[key] = None
                    except Exception as e:  # noqa: BLE001
                        _JS_CHECKED[key] = e
                if _JS_CHECKED[key] is not None:
                    raise _JS_CHECKED[key]
            cls.check_schema = classmethod(memo)


def md5(b):
    return hashlib.md5(render(b)).hexdigest()


def cksum(a, b):
    raw = render(b)
    if a == 0:
        return hashlib.sha256(raw).hexdigest()[:20]
    if a == 2:
        return hashlib.sha1(raw).hexdigest()[:20]
    return "%s%08x" % (ALGO[a][:3], zlib.crc32(raw + ALGO[a].encode()))


def tag_str(t):
    """model tag -> the string the implementation / the fakes produce for it."""
    if t is None:
        return None
    k = t[0]
    if k == "content":
        return "c:" + hashlib.sha256(render(t[1])).hexdigest()[:16]
    if k == "version":
        return "v:%d" % t[1]
    if k == "sha":
        return hashlib.sha256(render(t[1])).hexdigest()
    if k == "sham":
        return "%s:%d" % (hashlib.sha256(render(t[1])).hexdigest(), t[2] * 10 ** 9)
    if k == "s3etag":
        return "etag:" + md5(t[1])
    if k == "s3vid":
        return "vid:v%d" % t[1]
    if k == "s3ck":
        return "ck:%s:%s" % (ALGO[t[1]], cksum(t[1], t[2]))
    if k == "http":
        return '"%s"' % md5(t[1])
    raise ValueError(t)


# --------------------------------------------------------------------------
# the world on the implementation side (mirror of Sources.world / apply_ev)
# --------------------------------------------------------------------------
class World:
    def __init__(self, w, path=None, replace=False):
        st, self.ver, self.fail_etag, self.fail_load, self.head_fail, self.attr_fail, self.versioning, al = w
        self.store = None if st is None else (list(st[0]), st[1])
        self.algos = list(al)
        self.path = path
        self.replace = replace      # file kind: writes go to a temporary file that is renamed over the policy file
        if path is not None:
            self._sync("write")

    def content(self):
        return None if self.store is None else tuple(self.store[0])

    def apply(self, ev):
        k = ev[0]
        if k == "write":
            self.ver += 1
            self.store = (list(ev[1]), self.ver)
        elif k == "delete":
            self.ver += 1
            self.store = None
        elif k == "touch":
            self.ver += 1
            if self.store is not None:
                self.store = (self.store[0], self.ver)
        elif k == "fail_etag":
            self.fail_etag = ev[1]
        elif k == "fail_load":
            self.fail_load = ev[1]
        elif k == "head_fail":
            self.head_fail = ev[1]
        elif k == "attr_fail":
            self.attr_fail = ev[1]
        elif k == "versioning":
            self.versioning = ev[1]
        elif k == "algos":
            self.algos = list(ev[1])
        else:
            raise ValueError(ev)
        if self.path is not None and k in ("write", "delete", "touch"):
            self._sync(k)

    def _sync(self, k):
        """file kind: bring the real file in line (every write/touch gets mtime = write counter, in s)."""
        if self.store is None:
            if os.path.exists(self.path):
                os.unlink(self.path)
            return
        if k == "write":
            tgt = self.path + ".new" if self.replace else self.path
            with open(tgt, "wb") as f:
                f.write(render(self.store[0]))
            if self.replace:
                os.replace(tgt, self.path)
            assert os.stat(self.path).st_size == len(render(self.store[0]))
        ns = self.store[1] * 10 ** 9
        os.utime(self.path, ns=(ns, ns))

    def loadable_doc(self):
        """doc id when the world is healthy and holds a valid document, else None."""
        if self.fail_etag or self.fail_load or self.store is None:
            return None
        if self.store[0][0] == "n":                 # loadable only by a source that reads YAML (Setup sets n_ok)
            return N_OFF + self.store[0][1] if self.n_ok(self.store[0][1]) else None
        if self.store[0][0] != "d":
            return None
        return self.store[0][1]

    n_ok = staticmethod(lambda k: False)


EXC = {"runtime": RuntimeError, "os": OSError, "value": ValueError, "timeout": TimeoutError,
       "custom": type("SourceDown", (Exception,), {}), "key": KeyError}


def _mk_exc(name, msg):
    if name == "json":
        return json.JSONDecodeError(msg, "x", 0)
    if name == "fnf":
        return FileNotFoundError(msg)
    return EXC[name](msg)


class GenSource:
    """custom synchronous source over a World."""
    path = "custom://policy.json"

    def __init__(self, world, mode, exc):
        self.w, self.mode, self.exc = world, mode, exc

    def etag(self):
        w = self.w
        if w.fail_etag:
            raise _mk_exc(self.exc, "etag down")
        if w.store is None:
            return None
        if self.mode == 0:
            return tag_str(["content", w.store[0]])
        if self.mode == 1:
            return tag_str(["version", w.store[1]])
        if self.mode == 2:
            return None
        return w.store[1]  # an int: not a str

    def load(self):
        w = self.w
        if w.fail_load:
            raise _mk_exc(self.exc, "load down")
        if w.store is None:
            raise FileNotFoundError("no policy")
        if w.store[0][0] == "n":                    # a Python-built document holding a date / datetime / set / bytes
            return n_obj(w.store[0][1])
        return json.loads(render(w.store[0]).decode())


class AsyncGenSource(GenSource):
    async def etag(self):  # type: ignore[override]
        await asyncio.sleep(0)
        return GenSource.etag(self)

    async def load(self):  # type: ignore[override]
        await asyncio.sleep(0)
        return GenSource.load(self)


class FakeResponse:
    pass


class CIHeaders:
    """response headers as `requests` delivers them: look-up by name in any letter case (not a dict)."""

    def __init__(self, d=None):
        self._d = {}
        for k, v in (d or {}).items():
            self[k] = v

    def __setitem__(self, k, v):
        self._d[k.lower()] = (k, v)

    def __getitem__(self, k):
        return self._d[k.lower()][1]

    def __contains__(self, k):
        return isinstance(k, str) and k.lower() in self._d

    def get(self, k, default=None):
        x = self._d.get(k.lower()) if isinstance(k, str) else None
        return default if x is None else x[1]

    def items(self):
        return list(self._d.values())


def http_text(b, fl):
    """the body text the server sends for content b: the JSON bytes, or (YAML flavours) the same document as YAML."""
    raw = render(b).decode()
    if fl.get("fmt", "json") == "json":
        return raw
    try:
        doc = json.loads(raw)
    except ValueError:
        return raw                      # "{x1": not YAML either (unterminated flow mapping)
    import yaml
    return yaml.safe_dump(doc, sort_keys=False)


def make_requests(world, etags, fl):
    """fake `requests` module: one server holding the world's document.  The SHAPE of a 200 response is a flavour of
    the case (body x fmt x header style), crossed by the generators with validate_schema and the three document kinds:
      body "json"          .json() and .text (+ optional JSON Content-Type)
           "jsonraise"     .json() raises, .text present
           "text"          .text only (no .json attribute)
           "content"       .content bytes only (.text is None)
           "jsononly"      .json() only, .text == "", Content-Type application/json (the source's third branch)
           "jsononly-noct" the same without a Content-Type header
      fmt  "json" | "yaml-ct" (YAML text, Content-Type application/yaml) | "yaml-url" (YAML text, text/plain, the URL
           ends in .yaml); with YAML text .json() raises or is absent
      ci   headers in a case-insensitive container, ETag / Content-Type spelt in any letter case (hkey); otherwise a plain
           dict with "ETag" or "etag" (the two spellings the source looks up in a dict)."""
    calls = []
    mod = types.ModuleType("requests")
    mod.n304 = 0

    class HTTPError(Exception):
        pass

    def mk_headers(d):
        return CIHeaders(d) if fl.get("ci") else dict(d)

    def get(url, headers=None, timeout=None):
        headers = dict(headers or {})
        calls.append(headers)
        r = FakeResponse()
        if world.fail_load or world.store is None:
            r.status_code = (fl.get("status5", 503) if world.fail_load else 404)
            r.headers = mk_headers({})
            r.text = "oops"

            def rfs():
                raise HTTPError("%d" % r.status_code)
            r.raise_for_status = rfs
            return r
        b = world.store[0]
        et = ('W/"%s"' if fl.get("weak") else '"%s"') % md5(b)     # content-hash ETag: a roll-back re-uses the old one
        hk = fl.get("hkey", "ETag")
        if etags and headers.get("If-None-Match") == et:
            mod.n304 += 1
            r.status_code = 304
            r.headers = mk_headers({hk: et} if fl.get("etag304") else {})
            r.raise_for_status = lambda: None
            r.text = ""
            return r
        r.status_code = 200
        r.raise_for_status = lambda: None
        r.headers = mk_headers({hk: et} if etags else {})
        body = fl.get("body", "json")
        fmt = fl.get("fmt", "json")
        ck = "Content-Type" if hk == "ETag" else ("content-type" if not fl.get("ci") else "CONTENT-type")
        if fmt == "yaml-ct":
            r.headers[ck] = fl.get("yaml_ct", "application/yaml")
        elif fmt == "yaml-url":
            r.headers[ck] = "text/plain"
        elif body == "jsononly" or (fl.get("ctype") and body != "jsononly-noct"):
            r.headers[ck] = fl.get("json_ct", "application/json")
        text = http_text(b, fl)
        if fmt != "json" and body in ("json", "jsononly", "jsononly-noct"):
            body = "jsonraise"          # a YAML body has no JSON reading
        if body == "json":
            def js():
                return json.loads(text)
            r.json = js
            r.text = text
        elif body == "jsonraise":
            def js2():
                raise ValueError("no json")
            r.json = js2
            r.text = text
        elif body == "text":
            r.text = text
        elif body in ("jsononly", "jsononly-noct"):
            def js3():
                return json.loads(text)     # raises ValueError for an unparsable body, as requests does
            r.json = js3
            r.text = ""
        else:
            r.text = None
            r.content = text.encode()
        return r

    mod.get = get
    mod.HTTPError = HTTPError
    mod._calls = calls
    return mod


class FakeS3:
    class exceptions:  # noqa: N801
        NoSuchKey = type("NoSuchKey", (Exception,), {})

    def __init__(self, world, fl):
        self.w, self.fl = world, fl

    def _et(self):
        e = md5(self.w.store[0])
        return e if self.fl.get("rawetag") else '"%s"' % e

    def head_object(self, Bucket, Key):
        if self.w.head_fail:
            raise ConnectionError("head down")
        if self.w.store is None:
            if self.fl.get("clienterror"):
                raise RuntimeError("An error occurred (404) when calling the HeadObject operation")
            raise self.exceptions.NoSuchKey("nope")
        d = {"ETag": self._et()}
        if self.w.versioning:
            d["VersionId"] = "v%d" % self.w.store[1]
        return d

    def get_object_attributes(self, Bucket, Key, ObjectAttributes):
        if self.w.attr_fail:
            raise PermissionError("denied")
        if self.w.store is None:
            raise self.exceptions.NoSuchKey("nope")
        d = {"ETag": md5(self.w.store[0])}
        for a in self.w.algos:
            d[ALGO_KEY[ALGO[a]]] = cksum(a, self.w.store[0])
        return d

    def get_object(self, Bucket, Key):
        if self.w.fail_load:
            raise ConnectionError("get down")
        if self.w.store is None:
            raise self.exceptions.NoSuchKey("nope")
        raw = render(self.w.store[0])

        class Body:
            def read(self_inner):
                return raw

            def close(self_inner):
                pass
        return {"ETag": self._et(), "Body": Body()}


class CountingCache:
    def __init__(self):
        self.clears = 0

    def get(self, key):
        return None

    def set(self, key, value, ttl=None):
        pass

    def delete(self, key):
        pass

    def clear(self):
        self.clears += 1


CACHE_MODES = ["ok", "always", "once", "alt", "late"]


class FlakyCache:
    """a decision cache that really stores (a custom AbstractCache in front of a shared / remote store) and whose
    operations fail as the case says: spec = {"clear": m, "get": m, "set": m, "exc": name} with m one of
    "ok" | "always" | "once" (the first call only) | "alt" (every other call, starting with the first) | "late" (every
    call but the first).  `clears` counts the calls of clear(), failed ones included: the engine asks for exactly one
    flush per installed document whatever the backend answers."""

    def __init__(self, spec):
        self.spec, self.clears, self.n, self.d = spec, 0, {"clear": 0, "get": 0, "set": 0}, {}
        self.failed = {"clear": 0, "get": 0, "set": 0}
        self.lock = threading.Lock()

    def _op(self, name):
        with self.lock:
            self.n[name] += 1
            k, m = self.n[name], self.spec.get(name, "ok")
            if name == "clear":
                self.clears += 1
            bad = m == "always" or (m == "once" and k == 1) or (m == "alt" and k % 2 == 1) or (m == "late" and k > 1)
            if bad:
                self.failed[name] += 1
        if bad:
            if self.spec.get("exc") == "conn":
                raise ConnectionError("cache backend unreachable (%s #%d)" % (name, k))
            raise _mk_exc(self.spec.get("exc", "runtime"), "cache backend: %s #%d failed" % (name, k))

    def get(self, key):
        self._op("get")
        return self.d.get(key)

    def set(self, key, value, ttl=None):
        self._op("set")
        self.d[key] = value

    def delete(self, key):
        self.d.pop(key, None)

    def clear(self):
        self._op("clear")
        self.d.clear()


CACHE_FRACTION = [0.2]      # share of the cases of every family whose Guard gets a FlakyCache (run() sets it per tier)


def cache_spec(rng, always=False):
    """None (the plain counting cache) or the failure plan of a FlakyCache; clear() fails in most plans."""
    if not always and rng.random() >= CACHE_FRACTION[0]:
        return None
    return {"clear": rng.choice(["always", "once", "alt", "late", "always", "alt", "ok"]),
            "get": rng.choice(["ok", "ok", "always", "alt", "late"]), "set": rng.choice(["ok", "ok", "always", "alt", "once"]),
            "exc": rng.choice(["conn", "runtime", "timeout", "os", "custom", "key"])}


class FakeTime:
    def __init__(self):
        self.now = 0.0

    def time(self):
        return self.now

    def __getattr__(self, n):  # anything else: the real module
        import time as _t
        return getattr(_t, n)


class FakeRandom:
    def __init__(self):
        self.u = 0.0
        self.draws = 0

    def uniform(self, a, b):
        self.draws += 1
        assert (a, b) == (-1.0, 1.0), (a, b)
        return self.u

    def __getattr__(self, n):
        import random as _r
        return getattr(_r, n)


_PROBE_LOOP = {}


def probe_loop():
    """one event loop per process for the probe requests (Guard.evaluate_async).  The engine hands the CPU-bound
    decision function to asyncio.to_thread; this loop's default executor runs it at once in the calling thread (same
    function, same context - only the thread hop is saved, which costs milliseconds on a loaded machine)."""
    pid = os.getpid()
    if _PROBE_LOOP.get("pid") != pid:
        from concurrent.futures import Future, ThreadPoolExecutor

        class InlineExecutor(ThreadPoolExecutor):
            def submit(self, fn, /, *a, **k):
                f = Future()
                try:
                    f.set_result(fn(*a, **k))
                except BaseException as e:  # noqa: BLE001
                    f.set_exception(e)
                return f

        loop = asyncio.new_event_loop()
        loop.set_default_executor(InlineExecutor(max_workers=1))
        _PROBE_LOOP.update(pid=pid, loop=loop)
    return _PROBE_LOOP["loop"]


class _Now:
    """an awaitable that is complete already."""
    __slots__ = ("v", "e")

    def __init__(self, v=None, e=None):
        self.v, self.e = v, e

    def __await__(self):
        if self.e is not None:
            raise self.e
        return self.v
        yield  # noqa: unreachable - makes this a generator


class SyncLoop:
    """the least an event loop has to be for a coroutine that awaits nothing but asyncio.to_thread(f, ...): the function
    runs at once in the calling thread and the coroutine completes in one send().  Used for the probe requests (a real
    loop costs several epoll / socketpair system calls per request, which dominate on a loaded machine); whenever the
    coroutine wants more of its loop than this - it suspends, or anything raises - the caller repeats the requests on
    a real event loop (probe_loop)."""

    def run_in_executor(self, executor, func, *args):
        try:
            return _Now(func(*args))
        except BaseException as e:  # noqa: BLE001
            return _Now(e=e)

    def is_running(self):
        return True

    def is_closed(self):
        return False

    def get_debug(self):
        return False

    def run(self, coro):
        from asyncio import events
        if events._get_running_loop() is not None:
            coro.close()
            raise RuntimeError("a loop is running")
        events._set_running_loop(self)
        try:
            try:
                coro.send(None)
            except StopIteration as stop:
                return stop.value
            coro.close()
            raise RuntimeError("the coroutine suspended")
        finally:
            events._set_running_loop(None)


SYNC_LOOP = SyncLoop()
PROBE_STATS = {"sync": 0, "real": 0}


class Probe:
    """instruments a source object: counts calls, records what each call saw and returned,
    fires the scripted mid-check event after the first source call of a check."""

    def __init__(self, src, world, gate=None):
        self.world, self.n_etag, self.n_load = world, 0, 0
        self.calls = []          # per check: (name, content seen, "ok"/"exc", value)
        self.loaded_objs = []    # every object returned by a successful load
        self.mid = None
        self.gate = gate
        self.at = None           # (call name, k): the pending mid event lands INSIDE that call of the check, right
        #                          after the k-th file-system call the call makes on the policy file (file kind)
        self.incall = None       # what happened there
        self.who = lambda: None  # overlapping checks: which check (thread) is making the call
        self.by_who = {}         # check -> its calls
        self.loaded_by = []      # parallel to loaded_objs: the check whose load() returned the object
        o_etag, o_load = src.etag, src.load
        probe = self

        def before(name):
            if probe.gate is not None:
                probe.gate(name, "enter", None)
            if name == "etag":
                probe.n_etag += 1
            else:
                probe.n_load += 1
            return probe.world.content()

        def after(name, seen, kind, val):
            probe.calls.append((name, seen, kind, val))
            probe.by_who.setdefault(probe.who(), []).append((name, seen, kind, val))
            if kind == "ok" and name == "load":
                probe.loaded_objs.append(val)
                probe.loaded_by.append(probe.who())
            if probe.mid is not None and probe.at is None:
                ev, probe.mid = probe.mid, None
                probe.world.apply(ev)
            if probe.gate is not None:
                probe.gate(name, "exit", kind)

        def run_tapped(name, orig):
            """the targeted call of the check: the pending event fires after its k-th file-system call on the file."""
            k = probe.at[1]
            probe.at = None
            rec = {"call": name, "k": k, "pre": probe.world.content(), "post": None, "fired": False, "raised": False}

            def fire():
                ev, probe.mid = probe.mid, None
                probe.world.apply(ev)
                rec["post"] = probe.world.content()
                rec["fired"] = True

            tap = FsTap(probe.world.path, k, fire)
            try:
                with tap:
                    return orig()
            except Exception:
                rec["raised"] = True
                raise
            finally:
                rec["fs_calls"] = list(tap.log)
                R = tap.content()
                pre_b = None if rec["pre"] is None else render(rec["pre"])
                post_b = None if rec["post"] is None else render(rec["post"])
                if not rec["fired"]:
                    rec["read"] = "pre"
                elif R is None or R == pre_b:
                    rec["read"] = "pre"       # the call had finished reading (or never read): as if the event followed it
                elif post_b is not None and R == post_b:
                    rec["read"] = "post"
                else:
                    rec["read"] = "torn"
                probe.incall = rec

        def wrap(name, orig):
            if inspect.iscoroutinefunction(orig):
                async def f():
                    seen = before(name)
                    try:
                        v = await orig()
                    except Exception as e:  # noqa: BLE001
                        after(name, seen, "exc", type(e).__name__)
                        raise
                    after(name, seen, "ok", v)
                    return v
            else:
                def f():
                    seen = before(name)
                    tapped = probe.at is not None and probe.at[0] == name and probe.mid is not None \
                        and getattr(probe.world, "path", None) is not None
                    try:
                        v = run_tapped(name, orig) if tapped else orig()
                    except Exception as e:  # noqa: BLE001
                        if tapped and probe.incall["read"] == "post":
                            seen = probe.incall["post"]
                        after(name, seen, "exc", type(e).__name__)
                        raise
                    if tapped and probe.incall["read"] == "post":
                        seen = probe.incall["post"]     # what the call saw is the file as it was after the event
                    after(name, seen, "ok", v)
                    return v
            return f

        src.etag = wrap("etag", o_etag)
        src.load = wrap("load", o_load)


_FS_LOAD = []


def fs_calls_of_load():
    """dry run on the implementation under test: the number of file-system calls one load() makes on the policy file."""
    if not _FS_LOAD:
        from rbacx.store.file_store import FilePolicySource
        d = tempfile.mkdtemp(prefix="c10_")
        try:
            path = os.path.join(d, "policy.json")
            with open(path, "wb") as f:
                f.write(render(["d", 1]))
            _FS_LOAD.append(max(1, len(fs_calls_of(FilePolicySource(path).load, path))))
        finally:
            shutil.rmtree(d, ignore_errors=True)
    return _FS_LOAD[0]


def window_bound(cfg):
    return max(0.2, cfg[1] * (1 + cfg[2]))


def gated_guard_class(Guard, gate):
    """the real Guard, with set_policy passing through the scheduler's gate at its entry and at its exit (exactly
    like the source calls): the engine installation step of a check can be pre-empted."""

    class GatedGuard(Guard):
        def set_policy(self, policy):
            gate("set_policy", "enter", None)
            try:
                r = Guard.set_policy(self, policy)
            except BaseException:
                gate("set_policy", "exit", "exc")
                raise
            gate("set_policy", "exit", "ok")
            return r

    return GatedGuard


def _lock_like(v):
    return hasattr(v, "acquire") and hasattr(v, "release") and (hasattr(v, "_is_owned") or hasattr(v, "locked"))


def holds_a_lock_of(obj):
    """does the calling thread hold one of the lock objects among obj's attributes (HotReloader._lock)?  Exact for
    RLock (_is_owned); for a plain Lock `locked()` is exact as long as no *parked* thread holds it, which is an
    invariant of the scheduler (it never parks a thread that holds one)."""
    for v in list(vars(obj).values()):
        if not _lock_like(v):
            continue
        own = getattr(v, "_is_owned", None)
        if own is not None:
            try:
                if own():
                    return True
                continue
            except Exception:  # noqa: BLE001
                pass
        lk = getattr(v, "locked", None)
        if lk is not None and lk():
            return True
    return False


def locks_all_free(obj, timeout=5.0):
    """main thread, every check parked or finished: can each lock of obj be taken?  (a parked check that holds the
    reloader's lock would block every other check and the harness's own reads of last_etag / suppressed_until)"""
    for v in list(vars(obj).values()):
        if _lock_like(v):
            if not v.acquire(timeout=timeout):
                return False
            v.release()
    return True


class GateLock:
    """stands in for a lock attribute of the reloader while overlapping checks are scheduled: same semantics
    (delegates to the real lock), but it knows which thread holds it and tells the scheduler when a thread that
    holds nothing is about to take it (hook; the thread may be parked there, before it holds anything)."""

    def __init__(self, inner, hook):
        self._inner, self._hook, self._depth = inner, hook, {}

    def acquire(self, blocking=True, timeout=-1):
        me = threading.get_ident()
        if not self._depth.get(me):
            self._hook(self)
        ok = self._inner.acquire(blocking, timeout)
        if ok:
            self._depth[me] = self._depth.get(me, 0) + 1
        return ok

    def release(self):
        me = threading.get_ident()
        self._inner.release()
        self._depth[me] = self._depth.get(me, 0) - 1

    def __enter__(self):
        return self.acquire()

    def __exit__(self, *a):
        self.release()

    def _is_owned(self):
        return self._depth.get(threading.get_ident(), 0) > 0

    def locked(self):
        return any(v > 0 for v in self._depth.values())

    def __getattr__(self, n):
        return getattr(self._inner, n)


# --------------------------------------------------------------------------
# running a case on the implementation
# --------------------------------------------------------------------------
class Setup:
    """the real objects for one case."""

    def __init__(self, c, gate=None):
        import rbacx.policy.loader as loader
        from rbacx.core.engine import Guard

        self.loader = loader
        kind = self.kind = c["kind"]
        fl = c.get("flavour", {})
        validate = bool(c.get("validate"))
        if validate:
            speed_up_jsonschema()
        self.tmp = None
        self.saved_requests = sys.modules.get("requests", "absent")
        self.ft, self.fr = FakeTime(), FakeRandom()
        self.saved_time, self.saved_random = loader.time, loader.random
        loader.time, loader.random = self.ft, self.fr
        try:
            if kind[0] == "file":
                self.tmp = tempfile.mkdtemp(prefix="c10_")
                self.world = World(c["world"], os.path.join(self.tmp, "policy.yaml" if fl.get("yaml") else "policy.json"),
                                   bool(fl.get("replace")))
                from rbacx.store.file_store import FilePolicySource
                self.src = FilePolicySource(self.world.path, include_mtime_in_etag=bool(kind[1]), validate_schema=validate)
            else:
                self.world = World(c["world"])
                if kind[0] == "gen":
                    cls = AsyncGenSource if c["async"] else GenSource
                    self.src = cls(self.world, kind[1], fl.get("exc", "runtime"))
                elif kind[0] == "http":
                    from rbacx.store.http_store import HTTPPolicySource
                    self.requests = make_requests(self.world, bool(kind[1]), fl)
                    sys.modules["requests"] = self.requests
                    url = "http://policies.test/policy" + (".yaml" if fl.get("fmt") == "yaml-url" else ".json")
                    self.src = HTTPPolicySource(url, validate_schema=validate)
                elif kind[0] == "s3":
                    from rbacx.store.s3_store import S3PolicySource
                    det = ["etag", "version_id", "checksum"][kind[1]]
                    pref = None if kind[2] is None else ALGO[kind[2]]
                    self.src = S3PolicySource("s3://bucket/policy" + (".yaml" if fl.get("yaml") else ".json"),
                                              client=FakeS3(self.world, fl),
                                              validate_schema=validate, change_detector=det, prefer_checksum=pref)
                else:
                    raise ValueError(kind)
            self.world.n_ok = lambda k: n_loadable(c, k)
            self.probe = Probe(self.src, self.world, gate)
            self.cache = FlakyCache(c["cache"]) if c.get("cache") else CountingCache()
            self.p0 = doc_obj(c["p0"])
            self.c_p0 = c["p0"]
            self._pids, self._probed = {}, None
            self.guard = (gated_guard_class(Guard, gate) if gate is not None else Guard)(self.p0, cache=self.cache)
            cfg = c["cfg"]
            self.r = loader.HotReloader(self.guard, self.src, initial_load=bool(c["initial_load"]),
                                        poll_interval=None, backoff_min=cfg[0], backoff_max=cfg[1],
                                        jitter_ratio=cfg[2])
        except BaseException:
            self.close()
            raise

    def snap(self, res):
        r = self.r
        return [res, pol_id(self.guard.policy), self.cache.clears, self.probe.n_etag, self.probe.n_load,
                r.last_etag, r.last_error is not None, r.suppressed_until, getattr(r, "_backoff", None)]

    def _pid(self, o):
        k = id(o)                      # p0 and every loaded object stay alive for the whole case
        if k not in self._pids:
            self._pids[k] = pol_id(o)
        return self._pids[k]

    def decisions(self, final=False):
        """the engine's decisions (public evaluate_async) on the probe requests that tell the documents of the history
        apart: a request for the own action of the document the engine shows and one for the action of the document
        before it (the last other one a load() returned, else the initial one; "a0" = an action no document permits).
        At the end of a history whose engine still shows the object probed last, the first request only.
        -> [[probe, effect], ...]"""
        from rbacx.core.model import Action, Context, Resource, Subject
        pol = self.guard.policy
        known = pol is self.p0 or any(pol is o for o in self.probe.loaded_objs[-4:])
        ids = []
        for x in [self._pid(pol) if known else pol_id(pol)] + [self._pid(o) for o in self.probe.loaded_objs[-3:]][::-1] \
                + [self.c_p0, 0]:
            if isinstance(x, int) and not (S_OFF_DOC <= x < N_OFF) and x not in ids:
                ids.append(x)
        ids = ids[:1] if (final and pol is self._probed) else ids[:2]
        self._probed = pol
        subj, res, ctx, guard = Subject("u", ["staff"]), Resource("doc", "1"), Context({}), self.guard

        async def go(strict):
            got = []
            for i in ids:
                try:
                    got.append([i, (await guard.evaluate_async(subj, Action("a%d" % i), res, ctx)).effect])
                except Exception as e:  # noqa: BLE001
                    if strict:
                        raise
                    got.append([i, "raised %s: %s" % (type(e).__name__, e)])
            return got
        try:
            got = SYNC_LOOP.run(go(True))
            PROBE_STATS["sync"] += 1
            return got
        except Exception:  # noqa: BLE001
            PROBE_STATS["real"] += 1
            return probe_loop().run_until_complete(go(False))

    def src_obs(self):
        """source-specific observables (model: ReloadRun.obs_http): HTTP: remembered ETag, number of 304 answers."""
        if self.kind[0] == "http":
            return [getattr(self.src, "_etag", None), self.requests.n304]
        return None

    def close(self):
        self.loader.time, self.loader.random = self.saved_time, self.saved_random
        if self.saved_requests == "absent":
            sys.modules.pop("requests", None)
        else:
            sys.modules["requests"] = self.saved_requests
        if self.tmp:
            shutil.rmtree(self.tmp, ignore_errors=True)


def impl_run(c):
    """-> {"snaps": [...], "checks": [per command: None | info dict], "error": str|None}"""
    out = {"snaps": [], "checks": [], "error": None}
    try:
        su = Setup(c)
    except Exception as e:  # noqa: BLE001
        out["error"] = "setup raised %s: %s" % (type(e).__name__, e)
        return out
    loop = asyncio.new_event_loop()
    try:
        out["obs"] = [su.src_obs()]
        out["snaps"].append(su.snap(None))
        out["primed"] = su.r.last_etag
        for ix, cmd in enumerate(c["script"]):
            if cmd[0] == "ev":
                su.world.apply(cmd[1])
                out["snaps"].append(su.snap(None))
                out["obs"].append(su.src_obs())
                out["checks"].append(None)
                continue
            if cmd[0] != "check":
                raise ValueError("impl_run: sequential scripts only: %r" % (cmd,))
            _, force, now, u, mid = cmd[:5]
            how = cmd[5] if len(cmd) > 5 else "async"
            at = cmd[6] if len(cmd) > 6 else None
            su.ft.now, su.fr.u = float(now), float(u)
            su.probe.mid = mid
            su.probe.at = tuple(at) if (at and mid is not None and su.world.path is not None) else None
            su.probe.incall = None
            su.probe.calls = []
            before = {"policy_obj": su.guard.policy, "clears": su.cache.clears, "last_etag": su.r.last_etag,
                      "suppressed_until": su.r.suppressed_until, "n_loaded": len(su.probe.loaded_objs),
                      "content": su.world.content()}
            raised = None
            res = None
            try:
                if how == "sync":
                    res = su.r.check_and_reload(force=bool(force))
                elif how == "async":
                    res = loop.run_until_complete(su.r.check_and_reload_async(force=bool(force)))
                elif how == "loop":
                    async def under_loop():
                        return su.r.check_and_reload(force=bool(force))
                    res = loop.run_until_complete(under_loop())
                elif how == "alias":
                    res = su.r.check_and_reload(force=True) if force else \
                        (su.r.poll_once() if ix % 2 else su.r.refresh_if_needed())
                else:
                    raise ValueError(how)
            except Exception as e:  # noqa: BLE001
                raised = "%s: %s" % (type(e).__name__, e)
            if su.probe.mid is not None:      # the check never called the source (or not the targeted call): the change follows it
                ev, su.probe.mid = su.probe.mid, None
                su.world.apply(ev)
            held_for_load = su.probe.at is not None and su.probe.at[0] == "load"
            su.probe.at = None
            info = {"raised": raised, "calls": [(n, s, k, (v if (n == "etag" or k == "exc") else pol_id(v))) for n, s, k, v in su.probe.calls],
                    "same_obj": su.guard.policy is before["policy_obj"],
                    "policy_is_last_loaded": bool(su.probe.loaded_objs) and su.guard.policy is su.probe.loaded_objs[-1],
                    "new_loads": len(su.probe.loaded_objs) - before["n_loaded"],
                    "policy_known": (su.guard.policy is su.p0) or any(su.guard.policy is o for o in su.probe.loaded_objs),
                    "before": {k: v for k, v in before.items() if k != "policy_obj"},
                    "after_content": su.world.content()}
            if at:
                info["incall"] = su.probe.incall
                info["model_form"] = incall_model_form(c, at, su.probe.incall, held_for_load,
                                                       any(x[0] == "etag" for x in su.probe.calls))
            if raised is None and res is True:
                info["decisions"] = su.decisions()
            out["checks"].append(info)
            out["snaps"].append(su.snap(res if raised is None else "raised"))
            out["obs"].append(su.src_obs())
        out["final_decisions"] = su.decisions(final=True)
        out["cache_failed"] = dict(getattr(su.cache, "failed", {}))
        out["final_loadable_doc"] = su.world.loadable_doc()
        out["src_etag_attr"] = getattr(su.src, "_etag", None) if c["kind"][0] == "http" else None
    except Exception as e:  # noqa: BLE001
        out["error"] = "harness error %s: %s" % (type(e).__name__, e)
    finally:
        loop.close()
        su.close()
    return out


def incall_model_form(c, at, inc, held_for_load, etag_called):
    """The model's source calls are atomic with respect to the world.  Where does an event that landed inside a call
    of the check belong in the model's script?
       "between" - between etag() and load() of the check (the model's own mid-check event);
       "before"  - before the check;   "after" - after the check;   None - no counterpart (judged directly only).
    For the code as it is, a call that had finished reading the file when the event landed behaves as if the event
    came right after the call; a call that read the file as it was after the event behaves as if the event came
    right before it - except that an etag() which took its (size, mtime) signature before the event reports the old
    mtime with the new hash (include_mtime_in_etag) and a torn read hashes / parses bytes of both: no counterpart."""
    if inc is None:
        return "between"    # the targeted call was never made (suppressed check / tag unchanged / etag() raised): the
        #                     event follows the check's last source call, which is where the model's mid event lands
    if inc["call"] == "etag":
        if not inc["fired"] or inc["read"] == "pre":
            return None if (inc["raised"] and inc["fired"]) else "between"
        if inc["read"] == "post" and not inc["raised"]:
            return None if c["kind"][1] else "before"
        return None
    # load()
    if not inc["fired"] or inc["read"] == "pre":
        return "after"
    if inc["read"] == "post":
        return "between"
    return None


# --------------------------------------------------------------------------
# the model side
# --------------------------------------------------------------------------
def model_script(script, out=None):
    """-> (model script, for every implementation snapshot the index of the model snapshot to compare it with,
           for every implementation snapshot the index of the model snapshot that carries the check's result)"""
    ms, mmap, rmap = [], [0], [0]
    infos = (out or {}).get("checks") or []
    for ix, cmd in enumerate(script):
        form = None
        if cmd[0] == "check" and len(cmd) > 6 and cmd[6] and ix < len(infos) and infos[ix]:
            form = infos[ix].get("model_form")
        if cmd[0] != "check":
            ms.append(cmd)
            r = len(ms)
        elif form == "before":
            ms.append(["ev", cmd[4]])
            ms.append(cmd[:4] + [None])
            r = len(ms)
        elif form == "after":
            ms.append(cmd[:4] + [None])
            r = len(ms)
            ms.append(["ev", cmd[4]])
        else:
            ms.append(cmd[:5])
            r = len(ms)
        mmap.append(len(ms))
        rmap.append(r)
    return ms, mmap, rmap


def has_no_model(c, out):
    return any(cmd[0] == "check" and len(cmd) > 6 and cmd[6] and cmd[4] is not None and info is not None
               and info.get("model_form") is None
               for cmd, info in zip(c["script"], (out or {}).get("checks") or []))


def _m_event(c, ev):
    return ["write", m_content(c, ev[1])] if (ev is not None and ev[0] == "write") else ev


def m_translate(c, world, script):
    """schema-invalid contents -> what they are for the model of this source (unloadable if it validates)."""
    w = list(world)
    if w[0] is not None:
        w[0] = [m_content(c, w[0][0]), w[0][1]]
    sc = []
    for cmd in script:
        if cmd[0] == "ev":
            sc.append(["ev", _m_event(c, cmd[1])])
        elif cmd[0] == "check":
            sc.append(cmd[:4] + [_m_event(c, cmd[4])] + cmd[5:])
        else:
            sc.append(cmd)
    return w, sc


def model_lines(cases, outs=None):
    outs = outs or [None] * len(cases)
    lines = []
    for c, o in zip(cases, outs):
        w, sc = m_translate(c, c["world"], model_script(c["script"], o)[0])
        lines.append(lib.model_call("reload.run", c["kind"], c["cfg"], bool(c["initial_load"]), bool(c["async"]), c["p0"],
                                    w, sc))
    return lines


def model_run(cases, i_outs=None):
    outs = [lib.dec(x) for x in lib.run_model("reload", model_lines(cases, i_outs), chunk=400)]
    for o, c in zip(outs, cases):
        if o and isinstance(o[0], str):
            raise RuntimeError("model rejected case: %r %r" % (o, c))
    return outs


def q_of(v):
    return Fraction(v[0], v[1])


def close_q(x, q):
    """implementation float vs the model's exact rational (the only inexact float operations are
    `now + 0.2` and products with a non-dyadic jitter_ratio)."""
    if x is None:
        return True  # private attribute missing: not compared
    return abs(Fraction(x) - q) <= Fraction(1, 10 ** 9) * max(1, abs(q))


def unweak(t):
    """a weak HTTP validator W/"x" is the model's tag "x" (the source keeps and sends back the header verbatim)."""
    return t[2:] if isinstance(t, str) and t.startswith('W/"') else t


def compare_snap(i_s, m_s):
    """-> list of names of observables that differ."""
    bad = []
    names = ["result", "policy", "set_policy/clear count", "etag() calls", "load() calls"]
    for k, nm in enumerate(names):
        if i_s[k] != m_s[k]:
            bad.append(nm)
    if unweak(i_s[5]) != tag_str(m_s[5]):
        bad.append("last_etag")
    if i_s[6] != m_s[6]:
        bad.append("last_error is None")
    if not close_q(i_s[7], q_of(m_s[7])):
        bad.append("suppressed_until")
    if not close_q(i_s[8], q_of(m_s[8])):
        bad.append("backoff")
    return bad


# --------------------------------------------------------------------------
# judging the property on the implementation's behaviour
# --------------------------------------------------------------------------
def content_kind_tag(c, tagstr):
    """is this stored tag computed from the content only (not from a version / mtime)?"""
    if tagstr is None:
        return False
    k = c["kind"][0]
    if k == "gen":
        return tagstr.startswith("c:")
    if k == "file":
        return not c["kind"][1]
    if k == "s3":
        return tagstr.startswith(("etag:", "ck:"))
    return k == "http"


def decisions_off(doc, decs):
    """probe requests whose decision is not the one document `doc` takes: [[probe, got, expected], ...]"""
    return [[pr, got, expect_effect(doc, pr)] for pr, got in (decs or [])
            if expect_effect(doc, pr) is not None and got != expect_effect(doc, pr)]


DEC_TRUE = ("a check returned True and the engine shows the document its load returned, but the decisions taken after "
            "it are not those of that document (the active policy is the one decisions come from)")
DEC_END = ("at the end of the history the engine's decisions on the probe requests are not those of its active "
           "document (the one guard.policy shows and the model holds)")


def judge(chk, c, out, m_out):
    """returns list of (clause, detail) violations; calls chk.known for the open findings' classes."""
    viol = []
    cfg = c["cfg"]
    bound = window_bound(cfg)
    snaps, infos = out["snaps"], out["checks"]
    last_apply = None   # (content seen by etag, content seen by load) of the last check that applied
    for ix, (cmd, info) in enumerate(zip(c["script"], infos)):
        if info is None:
            continue
        pre, post = snaps[ix], snaps[ix + 1]
        force, now = bool(cmd[1]), float(cmd[2])
        res = post[0]
        if info["raised"] is not None or res not in (True, False):
            viol.append(("a check raised / returned a non-boolean", {"step": ix, "raised": info["raised"], "result": res}))
            continue
        calls = info["calls"]
        n_ld = sum(1 for x in calls if x[0] == "load")
        load_ok = [x for x in calls if x[0] == "load" and x[2] == "ok"]
        exc = [x for x in calls if x[2] == "exc"]
        # --- a load that succeeds hands out the document the source holds at that moment (F22: an HTTP 304 after
        #     an unparsable body "succeeded" with an older cached policy or with {})
        for x in load_ok:
            want = loadable_id(c, x[1])
            if want is None or x[3] != want:
                viol.append(("load() succeeded although the source holds no loadable document, or returned another "
                             "document than the source holds: a broken source state replaced the active policy",
                             {"step": ix, "source_holds": x[1], "load_returned": x[3]}))
        # --- the active policy is a loaded document, applied by the check that returns True
        if not info["policy_known"]:
            viol.append(("active policy is neither the initial one nor a document returned by a successful load",
                         {"step": ix, "policy": post[1]}))
        if res is True:
            if not (len(load_ok) == 1 and info["policy_is_last_loaded"] and post[2] == pre[2] + 1):
                viol.append(("a check returned True without applying exactly the document its own load returned "
                             "(and clearing the cache once)", {"step": ix, "loads_ok": len(load_ok),
                                                               "clears": [pre[2], post[2]]}))
            if post[6]:
                viol.append(("last_error still set after a successful reload", {"step": ix}))
            off = decisions_off(post[1], info.get("decisions"))
            if off:
                viol.append((DEC_TRUE, {"step": ix, "document": post[1], "probe_got_expected": off,
                                        "decisions": info.get("decisions")}))
        else:
            # --- failure / unchanged is inert
            if not info["same_obj"] or post[2] != pre[2]:
                viol.append(("a check returned False but replaced the policy or cleared the cache",
                             {"step": ix, "clears": [pre[2], post[2]], "policy": [pre[1], post[1]]}))
            if load_ok:
                viol.append(("a successful load was dropped: check returned False", {"step": ix}))
        unforced_exc = [x for x in exc if not (force and x[0] == "etag")]
        if unforced_exc and res is not False:
            viol.append(("etag()/load() raised but the check returned True", {"step": ix}))
        # --- tag gate
        et_ok = [x for x in calls if x[0] == "etag" and x[2] == "ok"]
        if not force and et_ok and isinstance(et_ok[0][3], str) and et_ok[0][3] == info["before"]["last_etag"]:
            if res is not False or n_ld:
                viol.append(("tag unchanged but the check loaded / returned True", {"step": ix}))
        # --- suppression window
        su_before = info["before"]["suppressed_until"]
        if not force and now < su_before:
            if res is not False or calls:
                viol.append(("suppressed check touched the source or returned True", {"step": ix}))
        elif not calls:
            viol.append(("check outside the back-off window (or forced) did not consult the source",
                         {"step": ix, "now": now, "suppressed_until": su_before, "force": force}))
        if force and not load_ok and not [x for x in exc if x[0] == "load"]:
            viol.append(("forced check did not call load()", {"step": ix}))
        if unforced_exc:
            su_after = post[7]
            if not (su_after <= now + bound + 1e-9):
                viol.append(("after a failure the suppression window exceeds max(0.2, backoff_max*(1+jitter_ratio))",
                             {"step": ix, "now": now, "suppressed_until": su_after, "bound": bound}))
            if not post[6]:
                viol.append(("failure not recorded in last_error", {"step": ix}))
        elif post[7] != pre[7]:
            viol.append(("suppression window moved without a failure", {"step": ix, "su": [pre[7], post[7]]}))
        if res is True and calls:
            e_seen = [x[1] for x in calls if x[0] == "etag"]
            l_seen = [x[1] for x in calls if x[0] == "load"]
            last_apply = (e_seen[0] if e_seen else None, l_seen[0] if l_seen else None)
    off = decisions_off(snaps[-1][1], out.get("final_decisions"))
    if off and not viol:
        viol.append((DEC_END, {"document": snaps[-1][1], "probe_got_expected": off,
                               "decisions": out.get("final_decisions")}))
    # --- convergence on the stable tail
    if not viol:
        verdict, detail = tail_verdict(c, out, last_apply)
        if verdict is not None:
            chk.count("tail:" + verdict)
        if verdict in ("F9", "F20"):
            # the open finding's narrow class; suppressed only while its own witness still fails
            if witness_fails(verdict):
                chk.known(verdict)
            else:
                viol.append((detail[0] + " [class of %s, whose witness no longer fails]" % verdict, detail[1]))
        elif verdict == "failed":
            viol.append(detail)
    return viol


def last_apply_of(c, out):
    """(content seen by etag(), content seen by load()) of the last check that returned True."""
    last = None
    for ix, info in enumerate(out["checks"]):
        if info is None or out["snaps"][ix + 1][0] is not True or not info["calls"]:
            continue
        e_seen = [x[1] for x in info["calls"] if x[0] == "etag"]
        l_seen = [x[1] for x in info["calls"] if x[0] == "load"]
        last = (e_seen[0] if e_seen else None, l_seen[0] if l_seen else None)
    return last


def tail_verdict(c, out, last_apply):
    """-> (None | "converged" | "not-loadable" | "proviso-not-met" | "F9" | "F20" | "failed", detail)"""
    tail = c.get("tail")
    if tail is None:
        return None, None
    if out.get("final_loadable_doc") is None:
        return "not-loadable", None
    snaps, infos = out["snaps"], out["checks"]
    t3 = tail[2]             # tail = indices of the three tail checks in the script
    view = [{"res": snaps[t + 1][0], "calls": infos[t]["calls"], "policy": snaps[t + 1][1], "clears": snaps[t + 1][2],
             "stored": snaps[t + 1][5], "step": t} for t in tail]
    return tail_core(c, out, view, last_apply, infos[t3]["after_content"], True)


def tail_core(c, out, view, last_apply, cur_content, coherent):
    """the convergence clause on the three tail checks (view: per tail check its result, its source calls and the
    engine's document / clear count / remembered tag after it).  last_apply = (content seen by etag(), content seen
    by load()) of the check that recorded the remembered tag; coherent = the document the engine enforces was
    returned by the load() of that same check (always so when checks do not overlap)."""
    d = out["final_loadable_doc"]
    v1, v2, v3 = view
    calls3 = v3["calls"]
    et3 = [x for x in calls3 if x[0] == "etag" and x[2] == "ok"]
    reports_tag = bool(et3) and isinstance(et3[0][3], str)
    failed = None
    if v2["policy"] != d:
        failed = ("after two unforced checks on a stable, loadable source the engine does not enforce the "
                  "source's document", {"engine": v2["policy"], "source": d})
    elif reports_tag and (v3["res"] is not False or any(x[0] == "load" for x in calls3)):
        failed = ("source reports a tag but a later check still loads / returns True", {"step": v3["step"]})
    elif not reports_tag and v3["policy"] != d:
        failed = ("engine left the source's document", {"engine": v3["policy"], "source": d})
    if not failed:
        return "converged", None
    stored = v3["stored"]
    # proviso of the statement: initial loading disabled, nothing applied yet, and the source's tag is (again) the
    # one read at construction: the reloader cannot tell the source from its initial state
    if (not c["initial_load"]) and v3["clears"] == 0 and stored is not None and stored == out.get("primed") \
            and et3 and et3[0][3] == stored:
        return "proviso-not-met", None
    # both open findings have the same symptom: the tail checks that lie entirely in the stable world (the first one
    # may straddle its beginning) found "tag unchanged" - etag() returned the stored tag, no load(), False - while
    # the engine holds another document than the source
    stuck = all(v["res"] is False and [x[0] for x in v["calls"]] == ["etag"]
                and v["calls"][0][2] == "ok" and v["calls"][0][3] == stored for v in (v2, v3)) \
        and not any(x[0] == "load" and x[2] == "ok" for x in v1["calls"])
    # F9: HTTP source behind a server that sends ETags; stored tag = the tag the source object remembers
    if stuck and coherent and c["kind"] == ["http", True] and stored is not None and stored == out.get("src_etag_attr"):
        return "F9", failed
    # F20: content tag stored by a check whose etag() and load() saw different contents, and the source is back
    # at the content that etag() saw
    if (stuck and coherent and content_kind_tag(c, stored) and c["kind"][0] != "http" and last_apply is not None
            and last_apply[0] != last_apply[1] and last_apply[0] is not None and last_apply[0] == cur_content):
        return "F20", failed
    return "failed", failed


def conc_tail_verdict(c, out):
    """tail_core for a script of overlapping checks followed by three sequential unforced ones (c["tail"] = their
    check numbers).  The remembered tag was recorded by the last check that returned True (the bookkeeping is the
    last thing a check does); both open findings leave the engine with the document that this very check loaded -
    a remembered tag that belongs to another check's document is neither of them."""
    tail = c.get("tail")
    if tail is None:
        return None, None
    if out.get("final_loadable_doc") is None:
        return "not-loadable", None
    th, snaps = out["threads"], out["snaps"]
    view = []
    for t in tail:
        sn = snaps[th[t]["done_at"]]
        view.append({"res": th[t]["result"], "calls": th[t]["calls"], "policy": sn[1], "clears": sn[2],
                     "stored": sn[5], "step": "check %d" % t})
    appliers = [i for i in out["finish_order"] if th[i]["result"] is True]
    last_apply, coherent = None, True
    if appliers:
        w = appliers[-1]
        e_seen = [x[1] for x in th[w]["calls"] if x[0] == "etag"]
        l_seen = [x[1] for x in th[w]["calls"] if x[0] == "load"]
        last_apply = (e_seen[0] if e_seen else None, l_seen[0] if l_seen else None)
        coherent = w in out["policy_loaded_by"]
        if (out.get("sp_unlocked") or out.get("sp_gap")) and w not in tail and sum(1 for i in appliers if i not in tail) > 1:
            # set_policy ran outside the reloader's lock and both overlapping checks applied: who recorded the tag
            # last is not known from the order of return alone - not classified as one of the open findings
            coherent = False
    verdict, detail = tail_core(c, out, view, last_apply, out["final_content"], coherent)
    if verdict == "failed":
        detail = (detail[0], dict(detail[1], remembered_tag=view[2]["stored"],
                                  tag_recorded_by_check=appliers[-1] if appliers else None,
                                  engine_document_loaded_by_checks=out["policy_loaded_by"],
                                  tail_results=[v["res"] for v in view],
                                  tail_calls=[[x[0] for x in v["calls"]] for v in view]))
    return verdict, detail


_WITNESS = {}


def witness_fails(fid):
    """does the corpus witness of open finding `fid` still fail (in its class) on this implementation?"""
    if fid not in _WITNESS:
        f = lib.VERIF / "corpus" / "C10" / (fid + ".json")
        ok = False
        if f.exists():
            c = lib.unjson(json.loads(f.read_text())["case"])
            out = impl_run(c)
            if not out.get("error"):
                ok = tail_verdict(c, out, last_apply_of(c, out))[0] == fid
        _WITNESS[fid] = ok
    return _WITNESS[fid]


# --------------------------------------------------------------------------
# case generation
# --------------------------------------------------------------------------
CFGS = [[2.0, 30.0, 0.125], [0.5, 4.0, 0.25], [0.0, 0.125, 0.5], [1.0, 1.0, 0.0], [4.0, 2.0, 0.5], [2.0, 30.0, 0.15]]
US = [-1.0, -0.5, 0.0, 0.25, 1.0]
BIG = 128.0

ALPHA = {
    "gen": ["wnew", "wprev", "wbad", "del", "touch", "fe+", "fl+", "heal", "chk", "frc", "chk~wnew", "chk~wprev",
            "t+", "T+"],
    "file": ["wnew", "wprev", "wsame", "wbad", "del", "touch", "chk", "frc", "chk~wnew", "chk~wprev", "chk~touch",
             "t+", "T+"],
    "http": ["wnew", "wprev", "wbad", "del", "fl+", "heal", "chk", "frc", "chk~wnew", "chk~wprev", "t+", "T+"],
    "s3": ["wnew", "wprev", "wbad", "del", "touch", "fl+", "hf+", "heal", "af+", "vs~", "al~", "chk", "frc",
           "chk~wnew", "chk~wprev", "T+"],
}
EXTRA = ["frc~wnew", "frc~wprev", "chk~wbad", "chk~del", "frc~del", "wsame", "chk~fl+", "chk~fe+", "chk~touch"]


class Builder:
    """expands symbolic histories into concrete scripts, mirroring the world."""

    def __init__(self, kind, world, rng=None, hows=("async",), ns=0.0, ns_rng=None, n_ok=None):
        self.kind = kind
        self.clock = 1.0
        self.fresh = 10
        self.ns, self.ns_rng = (ns if ns_rng is not None else 0.0), ns_rng   # P(a new document is not JSON-serialisable)
        self.n_ok = n_ok or (lambda k: False)                                 # can this case's source load n-document k?
        self.badk = 0
        self.invk = 0
        self.cur = None if world[0] is None else list(world[0][0])
        self.prev = None
        self.flags = {"fail_etag": world[2], "fail_load": world[3], "head_fail": world[4], "attr_fail": world[5]}
        self.versioning = world[6]
        self.algos = list(world[7])
        self.script = []
        self.ui = 0
        self.rng = rng
        self.hows = hows

    def _set(self, content):
        if content != self.cur:
            self.prev, self.cur = self.cur, content

    def events(self, sym):
        """symbol -> list of world events (and their effect on the mirror)."""
        if sym == "wnew" and self.ns and self.ns_rng.random() < self.ns:
            sym = "wn"
        if sym in ("wnew", "wd"):
            self.fresh += 1
            b = ["d", self.fresh]
            self._set(b)
            return [["write", b]]
        if sym == "wn":        # a new document with a value json.dumps refuses (YAML date / timestamp / !!set / !!binary)
            self.fresh += 1
            b = ["n", self.fresh]
            self._set(b)
            return [["write", b]]
        if sym == "wprev":
            b = self.prev if self.prev is not None else ["d", 3]
            self._set(b)
            return [["write", list(b)]]
        if sym == "wsame":
            b = self.cur if self.cur is not None else ["d", 4]
            self._set(b)
            return [["write", list(b)]]
        if sym == "wbad":
            self.badk += 1
            b = ["b", self.badk]
            self._set(b)
            return [["write", b]]
        if sym == "winv":      # a document that parses but fails the bundled policy schema
            self.invk += 1
            b = ["s", self.invk]
            self._set(b)
            return [["write", b]]
        if sym == "del":
            self._set(None)
            return [["delete"]]
        if sym == "touch":
            return [["touch"]]
        if sym in ("fe+", "fl+", "hf+", "af+"):
            name = {"fe+": "fail_etag", "fl+": "fail_load", "hf+": "head_fail", "af+": "attr_fail"}[sym]
            self.flags[name] = True
            return [[name, True]]
        if sym == "heal":
            evs = [[n, False] for n, v in self.flags.items() if v]
            for n in self.flags:
                self.flags[n] = False
            return evs or [["fail_load", False]]
        if sym == "vs~":
            self.versioning = not self.versioning
            return [["versioning", self.versioning]]
        if sym == "al~":
            nxt = {(): [0, 3], (0,): [1, 0, 2], (0, 3): [2], (2,): [4, 1], (4, 1): [1, 0, 2], (1, 0, 2): [3, 1]}.get(tuple(self.algos), [])
            self.algos = nxt
            return [["algos", nxt]]
        raise ValueError(sym)

    def check(self, force, mid=None, at=None):
        u = US[self.ui % len(US)] if self.rng is None else self.rng.choice(US)
        self.ui += 1
        how = self.hows[0] if self.rng is None else self.rng.choice(self.hows)
        self.script.append(["check", force, self.clock, u, mid, how] + ([at] if at else []))
        return len(self.script) - 1

    def add(self, sym):
        if sym == "t+":
            self.clock += 0.5
        elif sym == "T+":
            self.clock += BIG
        elif sym.startswith(("chk", "frc")):
            # chk | frc [@e<k> | @l<k>] [~event]: the event lands between etag() and load() of the check, or (file
            # source) inside its etag() / load() call right after the k-th file-system call that call makes
            head, _, m = sym.partition("~")
            head, _, where = head.partition("@")
            mid = None
            if m:
                evs = self.events(m)
                assert len(evs) == 1, sym
                mid = evs[0]
            at = [{"e": "etag", "l": "load"}[where[0]], int(where[1:])] if (where and mid is not None) else None
            self.check(head == "frc", mid, at)
        else:
            for ev in self.events(sym):
                self.script.append(["ev", ev])

    def is_doc(self, b):
        return b is not None and (b[0] == "d" or (b[0] == "n" and self.n_ok(b[1])))

    def loadable(self):
        return self.is_doc(self.cur) and not self.flags["fail_etag"] and not self.flags["fail_load"]

    def _new_doc(self):
        evs = self.events("wnew")
        return evs if self.is_doc(self.cur) else self.events("wd")

    def tail(self, straddle):
        """make the world loadable, then three unforced checks, each beyond any window."""
        fix = []
        if self.flags["fail_etag"]:
            fix.append(["fail_etag", False])
            self.flags["fail_etag"] = False
        if self.flags["fail_load"]:
            fix.append(["fail_load", False])
            self.flags["fail_load"] = False
        if not self.is_doc(self.cur):
            fix += self._new_doc()
        mid = None
        if straddle:
            if not fix:
                fix = self._new_doc()
            mid = fix.pop()          # the world stabilises between etag() and load() of the first tail check
        for ev in fix:
            self.script.append(["ev", ev])
        ix = []
        for k in range(3):
            self.clock += BIG
            ix.append(self.check(False, mid if k == 0 else None))
        return ix


def init_world(kind, variant=0):
    # [store, wver, fail_etag, fail_load, head_fail, attr_fail, versioning, algos]
    versioning = kind[0] == "s3" and kind[1] == 1
    algos = [0] if (kind[0] == "s3" and kind[1] == 2) else []
    if variant == 1:
        return [None, 1, False, False, False, False, versioning, algos]
    if variant == 2:
        return [[["b", 9], 1], 1, False, False, False, False, versioning, algos]
    if variant == 3:
        return [[["n", 2], 1], 1, False, False, False, False, versioning, algos]
    return [[["d", 1], 1], 1, False, False, False, False, versioning, algos]


try:
    import jsonschema as _js  # noqa: F401  (private install under /verif/.pydeps)
    HAVE_JSONSCHEMA = True
except Exception:  # noqa: BLE001
    HAVE_JSONSCHEMA = False

try:
    import yaml as _yaml  # noqa: F401
    HAVE_YAML = True
except Exception:  # noqa: BLE001
    HAVE_YAML = False

HTTP_SHAPES = ([("json", "json"), ("jsonraise", "json"), ("text", "json"), ("content", "json"), ("jsononly", "json"),
                ("jsononly-noct", "json")]
               + ([(b_, f_) for f_ in ("yaml-ct", "yaml-url") for b_ in ("jsonraise", "text", "content")] if HAVE_YAML
                  else []))

KINDS = ([["gen", m] for m in range(4)] + [["file", False], ["file", True], ["http", True], ["http", False],
         ["s3", 0, None], ["s3", 1, None], ["s3", 2, 0], ["s3", 2, None], ["s3", 2, 3]])


def flavour_for(kind, rng):
    if kind[0] == "file":
        return {"replace": rng.random() < 0.5, "yaml": HAVE_YAML and rng.random() < 0.06}
    if kind[0] == "gen":
        return {"exc": rng.choice(["runtime", "os", "value", "timeout", "custom", "key", "json", "fnf"])}
    if kind[0] == "http":
        ci = rng.random() < 0.4
        fl = {"body": rng.choice(["json", "json", "text", "content", "jsonraise", "jsononly", "jsononly", "jsononly-noct"]),
              "hkey": rng.choice(["ETag", "etag", "Etag", "ETAG", "eTag"] if ci else ["ETag", "ETag", "etag"]),
              "ctype": rng.random() < 0.5, "status5": rng.choice([500, 502, 503]), "etag304": rng.random() < 0.3,
              "weak": rng.random() < 0.25, "ci": ci,
              "fmt": rng.choice(["json", "json", "json", "yaml-ct", "yaml-url"]) if HAVE_YAML else "json"}
        if fl["fmt"] == "yaml-ct":
            fl["yaml_ct"] = rng.choice(["application/yaml", "application/x-yaml", "text/yaml; charset=utf-8"])
        if rng.random() < 0.3:
            fl["json_ct"] = rng.choice(["application/json; charset=utf-8", "Application/JSON", "application/problem+json"])
        return fl
    if kind[0] == "s3":
        return {"rawetag": rng.random() < 0.3, "clienterror": rng.random() < 0.3, "yaml": HAVE_YAML and rng.random() < 0.06}
    return {}


NS_MODES = [0.0] * 8 + [0.6, 0.9]     # per case: the probability that a newly written document is not JSON-serialisable
#                                       (custom sources: 1 case in 5; sources that have to parse YAML for it - PyYAML's
#                                       pure-Python loader costs about a millisecond a document -: 1 in 10)


def ns_mode(kind, rng):
    ns = rng.choice(NS_MODES)
    return ns if (kind[0] == "gen" or rng.random() < 0.5) else 0.0


def yaml_flavour(kind, fl, rng):
    """make the source of the case one that reads YAML (file / S3: a .yaml name; HTTP: YAML Content-Type or URL)."""
    if not HAVE_YAML:
        return fl
    if kind[0] in ("file", "s3"):
        fl["yaml"] = True
    elif kind[0] == "http" and fl.get("fmt", "json") == "json":
        fl["fmt"] = rng.choice(["yaml-ct", "yaml-url"])
        if fl["fmt"] == "yaml-ct":
            fl.setdefault("yaml_ct", "application/yaml")
    return fl


def make_case(kind, syms, rng, fam, *, il=None, asy=None, p0=None, cfg=None, variant=None, straddle=None,
              hows=None, det_u=False, validate=None, ns=None, fl_over=None, cache=None):
    il = rng.random() < 0.5 if il is None else il
    asy = (kind[0] == "gen" and rng.random() < 0.4) if asy is None else asy
    ns = ns_mode(kind, rng) if ns is None else ns
    if ns and not (HAVE_YAML or kind[0] == "gen"):
        ns = 0.0
    variant = rng.choice([0, 0, 0, 1, 2] + ([3, 3] if ns else [])) if variant is None else variant
    world = init_world(kind, variant)
    p0 = rng.choice([1, 1, 77] + ([N_OFF + 1] if ns else [])) if p0 is None else p0
    cfg = rng.choice(CFGS) if cfg is None else cfg
    hows = hows or rng.choice([("async",), ("async",), ("async", "sync"), ("sync",), ("async", "sync", "loop", "alias")])
    fl = flavour_for(kind, rng)
    if ns:
        fl = yaml_flavour(kind, fl, rng)
    fl.update(fl_over or {})
    if validate is None:
        validate = kind[0] in ("file", "http", "s3") and HAVE_JSONSCHEMA and rng.random() < 0.3
    case = {"kind": kind, "cfg": cfg, "initial_load": il, "async": asy, "p0": p0, "world": world, "flavour": fl}
    if validate:
        case["validate"] = True     # the source is created with validate_schema=True
    b = Builder(kind, world, None if det_u else rng, hows, ns=ns, ns_rng=rng, n_ok=lambda k: n_loadable(case, k))
    for s in syms:
        b.add(s)
    straddle = (rng.random() < 0.3) if straddle is None else straddle
    tail = b.tail(straddle)
    case.update(script=b.script, tail=tail, fam=fam, syms=list(syms))
    if ns:
        case["ns"] = ns
    spec = cache_spec(rng) if cache is None else cache
    if spec:
        case["cache"] = spec        # the Guard's decision cache is a FlakyCache with this failure plan
    return case


def gen_cases(chk):
    rng = chk.rng
    cases = []
    thorough = chk.tier == "thorough"
    # 1. every history of length <= L over the kind's alphabet: L = 2 for all 13 source configurations and L = 3 for
    #    four core ones (thorough: 3 for all, 4 for the core ones); longer ones sampled
    core = [["gen", 0], ["file", False], ["http", True], ["s3", 1, None]]
    full_len = 3 if thorough else 2
    budget_sampled = 40000 if thorough else 5200
    for kind in KINDS:
        alpha = ALPHA[kind[0]]
        top = full_len + 1 if kind in core else full_len
        for L in range(0, top + 1):
            for syms in itertools.product(alpha, repeat=L):
                cases.append(make_case(kind, syms, rng, "enum%d" % L))
    per_kind = budget_sampled // len(KINDS)
    for kind in KINDS:
        alpha = ALPHA[kind[0]] + EXTRA[:4] + (["winv", "chk~winv"] if kind[0] != "gen" else [])
        for _ in range(per_kind):
            L = rng.choice([3, 4, 4, 5] if not thorough else [4, 4, 5, 5])
            syms = [rng.choice(alpha) for _ in range(L)]
            cases.append(make_case(kind, syms, rng, "sample%d" % L))
    # 1b. file source: the file changes INSIDE the etag() / load() call of a check, after each file-system call the call
    #     makes on it (as many as a dry run of the implementation shows, + 1 = right after the call), from several
    #     reloader / cache states, in place or by rename
    k_e, k_l = fs_calls_of_etag(), fs_calls_of_load()
    targets = ["e%d" % k for k in range(1, k_e + 2)] + ["l%d" % k for k in range(1, k_l + 2)]
    pres = [[], ["chk"], ["touch"], ["chk", "touch"], ["chk", "wnew"], ["chk", "wsame"], ["chk", "T+", "touch"]]
    evs_in = ["wnew", "touch", "del", "wprev"]
    posts = [[], ["wprev"], ["chk"]]
    if thorough:
        pres += [["wnew", "chk"], ["chk", "del", "wnew"], ["frc", "touch"], ["chk", "chk", "wsame"]]
        evs_in += ["wbad", "wsame"]
        posts += [["touch"], ["t+", "chk", "wnew"]]
    for kind in (["file", False], ["file", True]):
        for pre in pres:
            for head in ("chk", "frc"):
                for tg in targets:
                    for ev in evs_in:
                        for post in posts:
                            cases.append(make_case(kind, pre + ["%s@%s~%s" % (head, tg, ev)] + post, rng, "incall",
                                                   il=bool(len(cases) % 2), straddle=False,
                                                   hows=("sync",) if rng.random() < 0.5 else ("async",)))
    # 1c. sources that validate against the bundled schema (validate_schema=True; and the same histories without):
    #     a revision that parses but is rejected by the schema is published, seen by a (forced) check - also in the
    #     middle of one -, then rolled back to the earlier revision (content-hash ETags: the earlier ETag again, so a
    #     conditional GET answers 304), replaced by a new one, or deleted and restored; servers with strong / weak / no
    #     ETags, S3 with its three detectors, the file source
    if HAVE_JSONSCHEMA:
        s_pres = [[], ["chk"], ["frc"], ["chk", "chk"]]
        s_mids = [["winv", "chk"], ["winv", "frc"], ["chk~winv"], ["winv", "chk", "T+", "chk"], ["frc~winv", "frc"]]
        s_backs = [["wprev"], ["wnew"], ["wprev", "T+"], ["del", "T+", "chk", "wprev"]]
        s_fins = [["chk"], ["frc"], ["T+", "chk"], ["T+", "chk", "frc"]]
        s_kinds = [["http", True], ["http", True], ["http", False], ["s3", 0, None], ["s3", 1, None], ["s3", 2, 0],
                   ["file", False], ["file", True]]
        if thorough:
            s_pres += [["chk", "wnew", "chk"], ["chk", "T+", "touch" if False else "chk"]]
            s_mids += [["winv", "chk", "winv", "frc"], ["wbad", "chk", "winv", "T+", "chk"]]
            s_backs += [["wprev", "chk", "wprev"], ["winv", "wprev"]]
        for ki, kind in enumerate(s_kinds):
            for pre in s_pres:
                for mid_ in s_mids:
                    for back in s_backs:
                        for fin in s_fins:
                            n_ = len(cases)
                            cases.append(make_case(kind, pre + mid_ + back + fin, rng, "schema", il=bool(n_ % 2),
                                                   validate=(n_ // 2) % 4 != 3, straddle=False, variant=0))
    # 1d. HTTP: every response shape (HTTP_SHAPES: which of .json() / .text / .content the response offers, JSON or YAML
    #     text, Content-Type present / absent / YAML / text-plain with a .yaml URL, header container and letter case) x
    #     validate_schema on/off x histories in which valid, unparsable and schema-rejected revisions are published
    sh_hist = [["winv", "chk"], ["chk", "winv", "frc"], ["wbad", "chk", "T+", "winv", "chk"], ["frc~winv"],
               ["chk", "winv", "frc", "wprev", "frc"], ["winv", "frc", "wnew", "frc"], ["wbad", "frc", "wnew", "chk"]]
    if thorough:
        sh_hist += [["chk", "wnew", "chk", "winv", "T+", "chk"], ["chk~winv", "T+", "chk"], ["del", "chk", "winv", "frc"]]
    for et in (True, False):
        for si, (body, fmt) in enumerate(HTTP_SHAPES):
            for hist in sh_hist:
                for val in ((True, False) if HAVE_JSONSCHEMA else (False,)):
                    n_ = len(cases)
                    over = {"body": body, "fmt": fmt, "ctype": bool((n_ // 2) % 2)}
                    if fmt == "yaml-ct":
                        over["yaml_ct"] = rng.choice(["application/yaml", "application/x-yaml", "text/yaml; charset=utf-8"])
                    cases.append(make_case(["http", et], hist, rng, "shape", il=bool(n_ % 2), validate=val,
                                           straddle=False, variant=0, fl_over=over, ns=0.0 if fmt == "json" else None))
    # 1e. documents JSON cannot serialise (a YAML file / object / response with an unquoted date or timestamp, a !!set,
    #     !!binary; a custom source handing out Python objects with such values): every history to length 3 (thorough:
    #     4) in which EVERY newly written document is of that kind, so that two or more of them are loaded in a row by
    #     unforced / forced / straddled checks, after a JSON-able or a non-serialisable initial document, also rolled
    #     back to the previous one.  Judged like every other history: on the documents AND on the decisions taken
    #     after each reload.
    ns_alpha = ["wnew", "chk", "frc", "wprev", "chk~wnew"] + (["del", "T+"] if thorough else [])
    ns_kinds = [["gen", 0], ["gen", 1], ["gen", 2]]
    if HAVE_YAML:       # (PyYAML's pure-Python loader: about a millisecond per load)
        ns_kinds += [["file", False], ["http", True], ["s3", 1, None], ["file", True]]
        ns_kinds += [["http", False], ["s3", 0, None], ["s3", 2, 0]] if thorough else []
    for kind in ns_kinds:
        for L in range(1, (4 if thorough else 3) + 1):
            for syms in itertools.product(ns_alpha, repeat=L):
                if "wnew" in " ".join(syms):
                    cases.append(make_case(kind, syms, rng, "nonser", ns=1.0, cfg=CFGS[len(cases) % 3]))
    # 1f. the Guard has a decision cache whose backend fails (custom AbstractCache over a shared store): clear() raising
    #     always / the first time / every other time / from the second time on, with get() / set() failing or not: every
    #     history to length 2 (thorough: 3) in which a new document is published.  The engine has to go on without the
    #     cache: a check that installed a document returns True, one that returned False left the engine untouched.
    cf_alpha = ["wnew", "chk", "frc", "chk~wnew", "wprev"]
    cf_kinds = [["gen", 0], ["gen", 1], ["file", False], ["http", True], ["s3", 1, None]] + \
        ([["gen", 2], ["file", True], ["http", False], ["s3", 0, None]] if thorough else [])
    excs = ["conn", "runtime", "timeout", "os", "custom", "key"]
    for kind in cf_kinds:
        for cm in CACHE_MODES[1:]:
            for L in range(1, (3 if thorough else 2) + 1):
                for syms in itertools.product(cf_alpha, repeat=L):
                    if "wnew" in " ".join(syms):
                        n_ = len(cases)
                        spec = {"clear": cm, "get": CACHE_MODES[n_ % 5], "set": CACHE_MODES[(n_ // 5) % 5],
                                "exc": excs[n_ % len(excs)]}
                        cases.append(make_case(kind, syms, rng, "cachefail", cache=spec, ns=0.0 if n_ % 4 else 0.9))
    # 2. random long histories
    n_long = 4000 if thorough else 600
    for _ in range(n_long):
        kind = rng.choice(KINDS)
        alpha = ALPHA[kind[0]] + [e for e in EXTRA if not (kind[0] != "gen" and "fe+" in e)
                                  and not (kind[0] == "file" and "fl+" in e)]
        # more checks than events
        alpha = alpha + ["chk"] * 4 + ["T+"] * 2 + ["t+"] + (["winv", "winv", "frc~winv"] if kind[0] != "gen" else [])
        if kind[0] == "file":
            alpha = alpha + ["%s@%s~%s" % (h_, t_, e_) for h_ in ("chk", "chk", "frc") for t_ in targets
                             for e_ in ("wnew", "touch")]
        L = rng.randint(6, 30)
        cases.append(make_case(kind, [rng.choice(alpha) for _ in range(L)], rng, "long"))
    return cases


# --------------------------------------------------------------------------
# two overlapping checks: every interleaving of their atomic steps, on real threads
# --------------------------------------------------------------------------
class Turns:
    """lets exactly one registered thread run between two gate points."""

    def __init__(self):
        self.cv = threading.Condition()
        self.turn = None          # name of the thread allowed to run
        self.parked = {}          # thread name -> True while waiting at a gate
        self.done = set()

    def gate(self, me):
        with self.cv:
            self.parked[me] = True
            self.turn = None
            self.cv.notify_all()
            while self.turn != me:
                self.cv.wait()
            self.parked[me] = False

    def finish(self, me):
        with self.cv:
            self.done.add(me)
            self.parked[me] = True
            self.turn = None
            self.cv.notify_all()

    timeouts = 0              # grants that timed out in this process (a blocked check: reported by the caller)

    def grant(self, who, timeout=60.0):
        """let `who` run until it parks again (or finishes).  A grant that times out means the check is blocked
        (reported by the caller); after two such grants in one process the patience drops to 1 s so that a tree
        on which checks block each other is still judged in minutes, not hours."""
        if Turns.timeouts >= 2:
            timeout = min(timeout, 1.0)
        with self.cv:
            self.parked[who] = False
            self.turn = who
            self.cv.notify_all()
            ok = self.cv.wait_for(lambda: self.turn is None and (self.parked.get(who) or who in self.done), timeout)
            if not ok:
                Turns.timeouts += 1
            return ok


def impl_run_conc(c):
    """script with ["spawn", force] / ["step", i, now, u] / ["ev", e] commands.  A model step of check i is
    mapped to: run thread i up to its next gate.  Gates sit at the entry of every source call and right
    after it returns, which separates exactly the model's atomic steps:
       start-block | etag() | load() | apply-block or error-block.
    The model's apply-block (Reload.step, PApply: guard.set_policy + tag/back-off bookkeeping) is ONE step.  The
    implementation makes it one by calling set_policy with the reloader's lock held.  That is tested here: the
    guard's set_policy passes through a gate at its entry and exit as well; a check that gets there WITHOUT holding
    a lock of the reloader parks (out["sp_unlocked"]), so that the other check can be scheduled between
    {load() returned | set_policy | bookkeeping}; with the lock held the gate is passed (parking there could only
    block the others, i.e. the block is atomic with respect to every other check).  The reloader's lock attributes
    are replaced by GateLock stand-ins: a check whose set_policy call returned under a lock, and which then takes a
    reloader lock afresh, is parked before taking it (out["sp_gap"]: install and bookkeeping sit in two separate
    lock blocks).  A step command for a check that
    has already returned is a no-op on both sides, so scripts simply give every check six steps."""
    out = {"snaps": [], "error": None, "results": {}, "sp_unlocked": 0, "sp_locked": 0, "sp_gap": 0, "finish_order": []}
    turns = Turns()
    names = {}

    forces = {}

    def gate(name, where, kind):
        """park exactly where the model's program counter changes:
           PEtag = at the entry of etag(); PLoad = at the entry of load(); PApply = load() has returned;
           PErr = etag() raised in an unforced check / load() raised;
           and, only when no reloader lock is held, around guard.set_policy (no model counterpart)."""
        me = names.get(threading.get_ident())
        if me is None:
            return
        if name == "set_policy":
            held = holds_a_lock_of(su.r)
            if where == "enter":
                out["sp_locked" if held else "sp_unlocked"] += 1
            else:
                after_sp[me] = "returned"
            if not held:
                if where == "exit":
                    after_sp[me] = "parked"
                turns.gate(me)
            return
        if where == "enter":
            turns.gate(me)
        elif name == "load" or (kind == "exc" and not forces.get(me)):
            turns.gate(me)

    after_sp = {}

    def on_acquire(lock):
        """a check that holds no lock of the reloader is about to take one.  If its set_policy call has returned and
        it has not been parked since (set_policy ran under a lock that has been released in the meantime), this is
        the gap between installing the document and the bookkeeping: park here."""
        me = names.get(threading.get_ident())
        if me is None or after_sp.get(me) != "returned" or holds_a_lock_of(su.r):
            return
        after_sp[me] = "parked"
        out["sp_gap"] += 1
        turns.gate(me)

    try:
        su = Setup(c, gate)
    except Exception as e:  # noqa: BLE001
        out["error"] = "setup raised %s: %s" % (type(e).__name__, e)
        return out
    for k_, v_ in list(vars(su.r).items()):
        if _lock_like(v_):
            setattr(su.r, k_, GateLock(v_, on_acquire))
    su.probe.who = lambda: names.get(threading.get_ident())
    threads = []
    done_at = {}
    # per-thread scripted clock / jitter: the fake time/random objects look the values up by thread
    nowmap, umap = {}, {}
    su.ft.time = lambda: nowmap.get(names.get(threading.get_ident()), 0.0)   # type: ignore[method-assign]

    def uni(a, b):
        return umap.get(names.get(threading.get_ident()), 0.0)
    su.fr.uniform = uni  # type: ignore[method-assign]

    def body(i, force):
        names[threading.get_ident()] = i
        turns.gate(i)             # wait for the first grant: the start block runs inside the first step
        try:
            out["results"][i] = su.r.check_and_reload(force=force)
        except Exception as e:  # noqa: BLE001
            out["results"][i] = "raised %s" % type(e).__name__
        out["finish_order"].append(i)
        turns.finish(i)

    def snap():
        if not locks_all_free(su.r):
            raise RuntimeError("a check parked at a source call / at set_policy holds the reloader's lock")
        res = [out["results"].get(i) if i in turns.done else None for i in range(len(threads))]
        known = (su.guard.policy is su.p0) or any(su.guard.policy is o for o in su.probe.loaded_objs)
        dec = None
        if su.guard.policy is not probed[0] or len(turns.done) != probed[1]:
            # the engine shows another document object, or a check has returned: what does it decide now?
            probed[0], probed[1] = su.guard.policy, len(turns.done)
            dec = su.decisions()
        return su.snap(None) + [res, known, dec]

    probed = [object(), 0]
    try:
        out["snaps"].append(snap())
        out["primed"] = su.r.last_etag
        for cmd in c["script"]:
            if cmd[0] == "ev":
                su.world.apply(cmd[1])
            elif cmd[0] == "spawn":
                i = len(threads)
                t = threading.Thread(target=body, args=(i, bool(cmd[1])), daemon=True)
                threads.append(t)
                forces[i] = bool(cmd[1])
                t.start()
                with turns.cv:
                    turns.cv.wait_for(lambda: turns.parked.get(i), 60.0)
            elif cmd[0] == "step":
                _, i, now, u = cmd
                if i < len(threads) and i not in turns.done:
                    nowmap[i], umap[i] = float(now), float(u)
                    # model steps: 0 start | 1 etag | 2 load | 3 apply/err.  Thread gates: before etag (after
                    # start), after etag, after load (and, only if reached without the reloader's lock, at the
                    # entry / exit of set_policy or in the gap before the bookkeeping lock).  Step k = run to the
                    # next gate; the step after an exception / after the last gate runs to the end.
                    if not turns.grant(i):
                        out["error"] = "scheduler time-out (dead-lock?) at %r" % (cmd,)
                        break
            else:
                raise ValueError(cmd)
            out["snaps"].append(snap())
            for i in turns.done:
                done_at.setdefault(i, len(out["snaps"]) - 1)
        if not out["error"]:
            left = [i for i in range(len(threads)) if i not in turns.done]
            if left:
                out["error"] = "checks %r had not returned after all their steps (more pre-emption points than " \
                               "start | etag | load | set_policy entry | set_policy exit | end?)" % (left,)
        if not out["error"]:
            out["final_decisions"] = su.decisions(final=True)
            out["cache_failed"] = dict(getattr(su.cache, "failed", {}))
        out["final_loadable_doc"] = su.world.loadable_doc()
        out["final_content"] = su.world.content()
        out["src_etag_attr"] = getattr(su.src, "_etag", None) if c["kind"][0] == "http" else None
        # the checks whose load() returned the very object the engine enforces now
        out["policy_loaded_by"] = [w for o, w in zip(su.probe.loaded_objs, su.probe.loaded_by) if o is su.guard.policy]
        out["threads"] = [{"result": out["results"].get(i), "done_at": done_at.get(i), "force": forces[i],
                           "calls": [(n, s_, k, (v if (n == "etag" or k == "exc") else pol_id(v)))
                                     for n, s_, k, v in su.probe.by_who.get(i, [])]} for i in range(len(threads))]
    except Exception as e:  # noqa: BLE001
        out["error"] = "harness error %s: %s" % (type(e).__name__, e)
    finally:
        # release whatever is still parked
        impatient = Turns.timeouts >= 2      # checks block each other on this tree: do not wait for them at length
        for i in range(len(threads)):
            for _ in range(2 if impatient else 8):
                if i in turns.done:
                    break
                turns.grant(i, 0.2 if impatient else 1.0)
        for t in threads:
            t.join(0.2 if impatient else 2.0)
        su.close()
    return out


CONC_KINDS = [["gen", 0], ["gen", 1], ["file", False], ["http", True], ["s3", 1, None], ["file", True], ["gen", 2],
              ["http", False], ["s3", 0, None]]
STEPS_PER_CHECK = 6      # start | etag | load | (to set_policy) | (set_policy) | rest; surplus steps are no-ops


def conc_case(kind, order, evs_at, forces, nows, rng, fam, *, cfg=None, il=None, straddle=None, us=None, ns=None):
    """two overlapping checks run in the given order of steps (thread numbers), world events before the k-th step
    (evs_at[k]; k = len(order): after the last one); then the world is made loadable and three sequential unforced
    checks, each beyond any back-off window, follow (c["tail"] = their check numbers)."""
    ns = ns_mode(kind, rng) if ns is None else ns
    if ns and not (HAVE_YAML or kind[0] == "gen"):
        ns = 0.0
    fl = flavour_for(kind, rng)
    p0 = 1
    if ns:      # the documents written while the checks overlap (and the initial ones) are not JSON-serialisable
        fl = yaml_flavour(kind, fl, rng)
        evs_at = {k: [["write", ["n", ev[1][1]]] if (ev[0] == "write" and ev[1][0] == "d" and rng.random() < ns) else ev
                      for ev in evs] for k, evs in evs_at.items()}
        p0 = rng.choice([1, N_OFF + 1])
    world = init_world(kind, 3 if (ns and rng.random() < 0.5) else 0)
    head = {"kind": kind, "flavour": fl}
    pick_u = (lambda: rng.choice(US)) if us is None else (lambda: us)
    script = [["spawn", bool(forces[0])], ["spawn", bool(forces[1])]]
    for k, who in enumerate(order):
        for ev in evs_at.get(k, []):
            script.append(["ev", ev])
        script.append(["step", who, nows[who], pick_u()])
    for ev in evs_at.get(len(order), []):
        script.append(["ev", ev])
    w = World(world)
    for cmd in script:
        if cmd[0] == "ev":
            w.apply(cmd[1])
    fix = []
    if w.fail_etag:
        fix.append(["fail_etag", False])
    if w.fail_load:
        fix.append(["fail_load", False])
    if loadable_id(head, w.content()) is None:
        fix.append(["write", ["n", 31]] if (ns and rng.random() < ns) else ["write", ["d", 31]])
    straddle = (rng.random() < 0.25) if straddle is None else straddle
    mid = fix.pop() if (straddle and fix) else None   # the world stabilises between etag() and load() of tail check 1
    for ev in fix:
        script.append(["ev", ev])
    tail = []
    t = max(nows)
    for k in range(3):
        t += BIG
        i = 2 + k
        tail.append(i)
        script.append(["spawn", False])
        u = pick_u()
        for j in range(STEPS_PER_CHECK):
            if j == 2 and k == 0 and mid is not None:
                script.append(["ev", mid])
            script.append(["step", i, t, u])
    spec = cache_spec(rng)
    return {"kind": kind, "cfg": cfg or rng.choice(CFGS[:5]), "initial_load": (rng.random() < 0.5) if il is None else il,
            "async": False, "p0": p0, "world": world, "script": script, "conc": True, "tail": tail,
            "fam": fam, "flavour": fl, **({"ns": ns} if ns else {}),
            **({"cache": spec} if spec else {})}


def _orders(n):
    """all interleavings of n + n steps of checks 0 and 1."""
    out = []
    for pos in itertools.combinations(range(2 * n), n):
        o = [1] * (2 * n)
        for p_ in pos:
            o[p_] = 0
        out.append(tuple(o))
    return out


def _drain(rng):
    """the two surplus steps of each overlapping check (they matter only when a check can be pre-empted around
    set_policy), in a seeded order."""
    d = [0, 0, 1, 1]
    rng.shuffle(d)
    return d


def gen_conc_cases(chk):
    """two checks (unforced/forced) over a custom content-tagged or version-tagged source (and the file, HTTP and S3
    sources), every interleaving of their 4 + 4 model steps (+ 2 + 2 surplus steps in a seeded order):
      conc2  - the world changing once or twice at seeded points, any event;
      conc2w - one new document written at each of the 9 points between the steps."""
    rng = chk.rng
    cases = []
    orders = _orders(4)                                                     # all 70 interleavings of 4 + 4 steps
    n_var = 12 if chk.tier == "thorough" else 3
    for oi, order in enumerate(orders):
        for variant in range(n_var):
            kind = CONC_KINDS[(oi + variant) % len(CONC_KINDS)]
            evs = {}
            for _ in range(rng.choice([1, 1, 2])):
                ev = rng.choice([["write", ["d", 21]], ["write", ["d", 22]], ["write", ["b", 2]], ["delete"],
                                 ["write", ["d", 1]], ["touch"]] + ([["fail_load", True], ["fail_etag", True]]
                                                                    if kind[0] == "gen" else []))
                evs.setdefault(rng.randrange(0, 9), []).append(ev)
            f0, f1 = rng.random() < 0.25, rng.random() < 0.25
            cases.append(conc_case(kind, list(order) + _drain(rng), evs, (f0, f1), (1.0, rng.choice([1.0, 1.5, 40.0])),
                                   rng, "conc2"))
        for pos in range(9):
            kind = CONC_KINDS[(oi + pos) % len(CONC_KINDS)]
            f0, f1 = rng.random() < 0.2, rng.random() < 0.2
            cases.append(conc_case(kind, list(order) + _drain(rng), {pos: [["write", ["d", 21]]]}, (f0, f1),
                                   (1.0, rng.choice([1.0, 1.5])), rng, "conc2w"))
    return cases


def gen_fine_cases(chk):
    """run only when a check was seen entering guard.set_policy without the reloader's lock (the apply-block is then
    not atomic): every interleaving (924) of the 6 + 6 pre-emptible segments of two overlapping checks
    {start | etag | load | up to set_policy | set_policy | rest}, one new document written at each of the 13 points
    between them, then the stable tail."""
    rng = chk.rng
    cases = []
    kinds = [["gen", 1], ["gen", 0], ["file", True], ["s3", 1, None], ["http", False], ["file", False], ["s3", 0, None]]
    for oi, order in enumerate(_orders(STEPS_PER_CHECK)):
        for pos in range(2 * STEPS_PER_CHECK + 1):
            kind = kinds[(oi + pos) % len(kinds)]
            f0, f1 = rng.random() < 0.2, rng.random() < 0.2
            cases.append(conc_case(kind, list(order), {pos: [["write", ["d", 21]]]}, (f0, f1), (1.0, 1.5), rng,
                                   "conc2fine", straddle=False))
    return cases


def impl_run_stress(c):
    """ungated threads: n threads call check_and_reload concurrently while the main thread rewrites the
    document; judged on the safety clauses only (no model: the schedule is the operating system's)."""
    out = {"error": None, "stress": True}
    try:
        su = Setup(c)
    except Exception as e:  # noqa: BLE001
        out["error"] = "setup raised %s: %s" % (type(e).__name__, e)
        return out
    results, errors = [], []
    su.ft.now = 1.0

    def body(k):
        for j in range(c["rounds"]):
            try:
                results.append(su.r.check_and_reload(force=(k + j) % 5 == 0))
            except Exception as e:  # noqa: BLE001
                errors.append("%s: %s" % (type(e).__name__, e))

    try:
        ths = [threading.Thread(target=body, args=(k,), daemon=True) for k in range(c["threads"])]
        for t in ths:
            t.start()
        for j in range(c["writes"]):
            su.world.apply(["write", ["d", 30 + j]] if j % 4 != 3 else ["write", ["b", j]])
        su.world.apply(["write", ["d", 99]])
        for t in ths:
            t.join(60.0)
        alive = any(t.is_alive() for t in ths)
        out.update(alive=alive, errors=errors[:3], n_true=sum(1 for r in results if r is True),
                   nonbool=[r for r in results if r not in (True, False)][:3], clears=su.cache.clears,
                   policy_known=(su.guard.policy is su.p0) or any(su.guard.policy is o for o in su.probe.loaded_objs))
        # quiescent and stable: two sequential checks beyond any window
        su.ft.now = 1.0 + 2 * BIG
        su.r.check_and_reload()
        su.ft.now = 1.0 + 4 * BIG
        su.r.check_and_reload()
        out["final_policy"] = pol_id(su.guard.policy)
        out["final_decisions"] = su.decisions(final=True)
        out["cache_failed"] = dict(getattr(su.cache, "failed", {}))
    except Exception as e:  # noqa: BLE001
        out["error"] = "harness error %s: %s" % (type(e).__name__, e)
    finally:
        su.close()
    return out


def gen_stress_cases(chk):
    n = 40 if chk.tier == "thorough" else 10
    kinds = [["gen", 1], ["file", True], ["s3", 1, None], ["http", False]]
    return [{"kind": kinds[k % len(kinds)], "cfg": [0.0, 0.125, 0.5], "initial_load": k % 2 == 0, "async": False, "p0": 1,
             "world": init_world(kinds[k % len(kinds)], 0), "script": [], "stress": True, "threads": 4, "rounds": 12,
             "writes": 25, "fam": "stress", "flavour": {},
             **({"cache": cache_spec(chk.rng, always=True)} if k % 3 == 2 else {})} for k in range(n)]


def _check_stress(chk, c, out):
    chk.count("stress:true=%s" % min(out.get("n_true", 0), 20))
    if out.get("alive"):
        chk.violation("concurrent checks did not finish (dead-lock)", c, impl=out)
    elif out.get("errors") or out.get("nonbool"):
        chk.violation("a concurrent check raised / returned a non-boolean", c, impl=out)
    elif not out.get("policy_known"):
        chk.violation("concurrent checks: active policy is neither the initial one nor a loaded document", c, impl=out)
    elif out["clears"] != out["n_true"]:
        chk.violation("concurrent checks: number of cache clears differs from the number of checks that returned True",
                      c, impl=out)
    elif out.get("final_policy") != 99:
        chk.violation("after concurrent checks and two sequential ones the engine does not enforce the source's "
                      "document (version-tagged / untagged source)", c, impl=out)
    elif decisions_off(out["final_policy"], out.get("final_decisions")):
        chk.violation("after concurrent checks and two sequential ones the engine's decisions are not those of its "
                      "active document", c, impl=out)


# --------------------------------------------------------------------------
def _run_impl_one(c):
    if c.get("stress"):
        return impl_run_stress(c)
    return impl_run_conc(c) if c.get("conc") else impl_run(c)


def run_impl_many(cases, procs=None):
    if len(cases) < 40:
        return [_run_impl_one(c) for c in cases]
    import multiprocessing as mp
    procs = procs or min(12, os.cpu_count() or 4)
    ctx = mp.get_context("fork")
    with ctx.Pool(procs) as pool:
        return pool.map(_run_impl_one, cases, chunksize=max(1, len(cases) // (procs * 8)))


def check_cases(chk, cases, replay=False):
    if any(c.get("rf") for c in cases):
        # schedules of one atomic_write among the checks of a reloader (tie of ReloadFile.v): harness/c10_file.py
        import c10_file
        c10_file.check_cases(chk, [c for c in cases if c.get("rf")], replay)
        cases = [c for c in cases if not c.get("rf")]
        if not cases:
            return
    i_outs = run_impl_many(cases)
    sel = [k for k, c in enumerate(cases) if not c.get("stress")]
    m_outs = model_run([cases[k] for k in sel], [i_outs[k] for k in sel])
    it = iter(m_outs)
    m_outs = [None if c.get("stress") else next(it) for c in cases]
    for c, out, m_out in zip(cases, i_outs, m_outs):
        key = (json.dumps(c["kind"]), json.dumps(c["cfg"]), c["initial_load"], c["async"], c["p0"],
               json.dumps(c["world"]), json.dumps(c["script"]))
        n_checks = sum(1 for x in c["script"] if x[0] in ("check", "step"))
        n_events = sum(1 for x in c["script"] if x[0] == "ev" or (x[0] == "check" and x[4] is not None))
        chk.mark(key, n_checks >= 1 and (n_events >= 1 or not c["initial_load"]))
        chk.count("fam:" + c.get("fam", "?"))
        chk.count("kind:" + "/".join(str(x) for x in c["kind"]))
        chk.count("len:%s" % (len(c["script"]) if len(c["script"]) < 12 else "12+"))
        if c.get("ns"):
            chk.count("nonser:case may write documents json.dumps refuses")
        if c.get("cache"):
            chk.count("cache:failing backend, clear()=%s" % c["cache"].get("clear"))
            if out.get("cache_failed"):
                for k_, v_ in out["cache_failed"].items():
                    if v_:
                        chk.count("cache:histories in which %s() raised" % k_)
        if not c.get("stress") and not out.get("error"):
            if c.get("conc"):
                lds = [x[3] for i in out["finish_order"] for x in out["threads"][i]["calls"] if x[0] == "load" and x[2] == "ok"]
                n_dec = sum(1 for sn in out["snaps"] if sn[11]) + 1
            else:
                lds = [x[3] for i in out["checks"] if i for x in i["calls"] if x[0] == "load" and x[2] == "ok"]
                n_dec = sum(1 for i in out["checks"] if i and i.get("decisions")) + 1
            ns_ld = [isinstance(x, int) and x >= N_OFF for x in lds]
            run_ = max((sum(1 for _ in g) for k_, g in itertools.groupby(ns_ld) if k_), default=0)
            if run_:
                chk.count("nonser:longest run of consecutive successful loads of such documents=%s" % min(run_, 4))
            if any(a and b and x != y for a, b, x, y in zip(ns_ld, ns_ld[1:], lds, lds[1:])):
                chk.count("nonser:two different such documents loaded in a row")
            chk.count("decisions:probe points per history=%s" % min(n_dec, 6))
        chk.sample({"case": {k: v for k, v in c.items() if k != "flavour"}, "impl": out.get("snaps", [])[-1:],
                    "model": (m_out or [])[-1:]}, every=997)
        if out.get("error"):
            chk.violation("the reloader could not be driven through the history: " + out["error"], c, impl=out["error"])
            continue
        if c.get("stress"):
            _check_stress(chk, c, out)
            continue
        if c.get("conc"):
            _check_conc(chk, c, out, m_out)
            continue
        # outcome histogram
        for s in out["snaps"][1:]:
            if s[0] is not None:
                chk.count("result:%s" % s[0])
        for info in out["checks"]:
            if info:
                for x in info["calls"]:
                    if x[2] == "exc":
                        chk.count("exc:%s:%s" % (x[0], x[3]))
        viol = judge(chk, c, out, m_out)
        inc = [dict(i["incall"], step=k_) for k_, i in enumerate(out["checks"]) if i and i.get("incall")]
        for clause, detail in viol[:2]:
            chk.violation(clause, c, impl=dict({"detail": detail, "snaps": out["snaps"]},
                                               **({"event_inside_a_source_call": inc} if inc else {})), model=m_out)
        if viol:
            continue
        # correspondence
        if has_no_model(c, out):
            chk.count("incall:no-model-counterpart (judged directly only)")
            continue
        _ms, mmap, rmap = model_script(c["script"], out)
        if len(out["snaps"]) != len(mmap) or mmap[-1] != len(m_out) - 1:
            chk.corr_break("number of snapshots", c, impl=len(out["snaps"]), model=len(m_out), theorems=THEOREMS)
            continue
        m_sel = [m_out[j] if rmap[q] == j else [m_out[rmap[q]][0]] + list(m_out[j][1:]) for q, j in enumerate(mmap)]
        for ix, (i_s, m_s) in enumerate(zip(out["snaps"], m_sel)):
            bad = compare_snap(i_s, m_s)
            i_obs, m_obs = out["obs"][ix], m_s[10]
            if i_obs is not None and (unweak(i_obs[0]) != tag_str(m_obs[0]) or i_obs[1] != m_obs[1]):
                bad.append("HTTP source: remembered ETag / number of 304 answers (impl %r, model %r)"
                           % (i_obs, [tag_str(m_obs[0]), m_obs[1]]))
            decs = out.get("final_decisions") if ix == len(out["snaps"]) - 1 else \
                (out["checks"][ix - 1] or {}).get("decisions") if ix >= 1 else None
            if decisions_off(m_s[1], decs):
                bad.append("decisions on the probe requests are not those of the model's active document %r: %r"
                           % (m_s[1], decisions_off(m_s[1], decs)))
            if bad:
                chk.corr_break("HotReloader/source observables differ from the model after command %d: %s"
                               % (ix - 1, ", ".join(bad)), c,
                               impl={"at": ix - 1, "snapshot": i_s, "all": out["snaps"]},
                               model={"snapshot": m_s[:9], "tag": tag_str(m_s[5])}, theorems=THEOREMS)
                break


NONATOMIC = {"with_lock": 0, "without_lock": 0, "gap": 0, "cases": 0}


def _check_conc(chk, c, out, m_out):
    """overlapping checks: compare every snapshot with the model; judge on the implementation: the safety invariant
    (policy is p0 or a loaded document (by id), clear count = number of checks that returned True) and, when the
    script ends with the stable tail, the convergence clause."""
    snaps = out["snaps"]
    NONATOMIC["with_lock"] += out.get("sp_locked", 0)
    NONATOMIC["without_lock"] += out.get("sp_unlocked", 0)
    NONATOMIC["gap"] += out.get("sp_gap", 0)
    if out.get("sp_unlocked") or out.get("sp_gap"):
        NONATOMIC["cases"] += 1
        chk.count("conc:set_policy-without-reloader-lock")
    if len(snaps) != len(m_out):
        chk.corr_break("number of snapshots (overlapping checks)", c, impl=len(snaps), model=len(m_out), theorems=THEOREMS)
        return
    last = snaps[-1]
    results = last[9]
    chk.count("conc:true=%d" % sum(1 for r in results[:2] if r is True))
    if any(r not in (True, False, None) for r in results):
        chk.violation("an overlapping check raised", c, impl=snaps)
        return
    if not all(sn[10] for sn in snaps):
        chk.violation("overlapping checks: active policy is neither the initial one nor a document returned by a "
                      "successful load", c, impl=snaps, model=m_out)
        return
    if last[2] != sum(1 for r in results if r is True):
        chk.violation("overlapping checks: cache clears != number of checks that returned True", c, impl=snaps, model=m_out)
        return
    for ix, sn in enumerate(snaps + [last[:11] + [out.get("final_decisions")]]):
        off = decisions_off(sn[1], sn[11])
        if off:
            chk.violation("overlapping checks: the engine's decisions on the probe requests are not those of its active "
                          "document (the one guard.policy shows)", c,
                          impl={"after_command": ix - 1, "document": sn[1], "probe_got_expected": off,
                                "decisions": sn[11], "checks": out["threads"], "snaps": snaps}, model=m_out)
            return
    # --- convergence once the overlapping checks have returned and the source is stable and loadable
    verdict, detail = conc_tail_verdict(c, out)
    if verdict is not None:
        chk.count("conc-tail:" + verdict)
    if verdict in ("F9", "F20"):
        if witness_fails(verdict):
            chk.known(verdict)
        else:
            verdict, detail = "failed", (detail[0] + " [class of %s, whose witness no longer fails]" % verdict, detail[1])
    if verdict == "failed":
        chk.violation("after two overlapping checks: " + detail[0], c,
                      impl={"detail": detail[1], "checks": out["threads"], "returned_in_order": out["finish_order"],
                            "set_policy_entered_without_reloader_lock": out.get("sp_unlocked", 0),
                            "reloader_lock_released_between_set_policy_and_bookkeeping": out.get("sp_gap", 0), "snaps": snaps},
                      model=m_out)
        return
    for ix, (i_s, m_s) in enumerate(zip(snaps, m_out)):
        bad = compare_snap(i_s, m_s)
        if i_s[9] != m_s[9]:
            bad.append("which checks have returned what")
        if bad:
            why = ""
            if out.get("sp_unlocked") or out.get("sp_gap"):
                why = (" [guard.set_policy was entered %d times without a lock of the reloader, %d times a lock was "
                       "taken afresh between set_policy and the bookkeeping: installing the document and recording "
                       "its tag is not the one atomic step of the model (Reload.step, PApply)]"
                       % (out.get("sp_unlocked", 0), out.get("sp_gap", 0)))
            chk.corr_break("overlapping checks: observables differ from the model after command %d: %s%s"
                           % (ix - 1, ", ".join(bad), why), c, impl={"at": ix - 1, "snapshot": i_s, "all": snaps},
                           model={"snapshot": m_s, "tag": tag_str(m_s[5])}, theorems=THEOREMS)
            return


def corpus_cases():
    d = lib.VERIF / "corpus" / "C10"
    out = []
    for f in sorted(d.glob("*.json")):
        data = json.loads(f.read_text())
        c = lib.unjson(data["case"])
        c["fam"] = "corpus:" + f.stem
        out.append(c)
    return out


def run(chk):
    chk.rule = ("histories over {write new doc, write the previous content again, rewrite same content, write invalid "
                "text, delete, touch, source/etag/load/HEAD/attributes failing on/off, S3 versioning and checksum "
                "availability, check, forced check, check with the world changing between etag() and load(), clock "
                "+0.5, clock +128}: every history up to length 2 (thorough: 3) for each of 13 source configurations "
                "(custom content-tag / version-tag / no tag / non-str tag, sync or async; file with and without mtime "
                "in the tag; HTTP with and without server ETags; S3 etag / version-id / checksum with 3 preferences), "
                "seeded samples of length 3-5 and random histories up to length 30, for the file source also histories in which "
                "the file changes inside the etag()/load() call of a (forced) check after each of that call's file-system "
                "calls, for file/HTTP/S3 also validating sources (validate_schema=True: ~30% of all cases and a dedicated "
                "family) with schema-rejected revisions and roll-backs to earlier bytes; HTTP responses in 12 shapes "
                "(.json()+.text / .json() raising / .text only / .content only / .json() only with empty text, with or "
                "without a JSON Content-Type / YAML text announced by Content-Type or by a .yaml URL; header container "
                "case-insensitive or a plain dict, ETag in five spellings; strong and weak ETags), each shape crossed with "
                "validate on/off and valid / unparsable / schema-rejected revisions, each followed by a stable tail of "
                "three unforced checks on which convergence is judged; initial_load on/off, guard built from the "
                "source's document or from an unrelated one, six back-off configurations, checks run through "
                "check_and_reload_async, check_and_reload (no loop / under a running loop) and poll_once; plus every "
                "interleaving (70) of the atomic steps of two overlapping checks, forced on real threads by gates around the "
                "source calls and around guard.set_policy, with seeded world events in between and with one new document "
                "written at each of the 9 points between the steps, each followed by a stable tail of three sequential "
                "unforced checks on which convergence is judged on the implementation (a check that enters set_policy "
                "without the reloader's lock is pre-empted there; if that ever happens all 924 interleavings of the "
                "6 + 6 segments {start, etag, load, up to set_policy, set_policy, rest} x 13 write points are run as "
                "well), and free-running threads judged on the safety clauses only. "
                "In every family (the atomic_write schedules of c10_file included) one case in five (thorough: two in five) "
                "builds the Guard with a decision cache that really stores and whose backend FAILS: clear() raising always / "
                "the first time / every other time / from the second call on, get() and set() raising likewise, six "
                "exception types; family 'cachefail': every history to length 2 (thorough 3) that publishes a new document x "
                "the four clear() plans x 5 (9) source configurations; judged as every other history (clear() calls are "
                "counted, failed ones included: one flush is asked for per installed document).  "
                "Documents tell themselves apart by DECISIONS (document n permits exactly action a<n>): after every check "
                "that returned True, whenever the engine of two overlapping checks shows another object or a check has "
                "returned, and at the end of every history, probe requests are evaluated through Guard.evaluate_async and "
                "must be decided as the document the engine shows (= the one that check loaded = the model's active "
                "document) decides them.  In every family a case is, with probability 1/5 (custom sources) or 1/10 (file / "
                "HTTP / S3, then reading YAML), one whose newly written documents are - with probability 0.6 or 0.9 each - "
                "not JSON-serialisable (YAML with an unquoted date or timestamp in a top-level / nested metadata key, a "
                "!!set, !!binary, a date as condition operand or obligation field of a rule for an action nobody requests; "
                "custom sources hand out the Python object), its initial document and the engine's initial policy too with "
                "some probability; family 'nonser': every history to length 3 (thorough: 4) over {new such document, check, "
                "forced check, previous content again, check straddling a new one} for 7 (10) source configurations.  "
                "Tie of the C10 x C16 composition (ReloadFile.v; harness/c10_file.py): schedules of ONE real "
                "atomic_write(path, new) over an existing document - its file-system calls found at run time by a "
                "writer-side tap, the writer stopped after any k of them (process death / OSError / BaseException at "
                "call k), the pieces of the write reaching the temp file one by one (YAML documents whose prefixes are "
                "loadable documents with fewer rules / shorter ids, JSON, same-size and different-size rewrites, "
                "unparsable / schema-rejected old or new) - interleaved on one thread with check_and_reload() / "
                "check_and_reload(force=True) of a real HotReloader(Guard, FilePolicySource) run BETWEEN two of the "
                "writer's calls (whole, or split at the source calls so that a check straddles the rename and checks "
                "overlap), include_mtime_in_etag and validate_schema on / off, followed by a tail of three checks; "
                "non-trivial there = a check between two writer calls, a stopped writer, or a tail.  "
                "non-trivial = at least one check and (a world event or a primed tag); distinct = distinct "
                "(source configuration, reloader configuration, initial world, script)")
    chk.assumptions = [
        "in the MODEL each source call (etag(), load()) is one atomic step with respect to the world (S3's several HEADs "
        "are not split).  For FilePolicySource this is tested, not assumed: family 'incall' lets the file change after "
        "every file-system call (os.stat, open, each read; counted on a dry run of the implementation, so added or "
        "reordered calls are covered) inside the etag() / load() call of a check, in place or by rename; the clauses "
        "are judged on the implementation, and the history is compared with the model where it has a counterpart (call "
        "had read the old bytes = event right after the call; read the new bytes = event right before it; old "
        "signature + new hash with include_mtime, or a torn read: none)",
        "faults are Exception subclasses (BaseException is not caught by the reloader and not modelled)",
        "schema validation (validate_schema=True on the file / HTTP / S3 source, jsonschema from /verif/.pydeps + the "
        "bundled policy.schema.json) is not part of the Coq model: Sources.v knows loadable documents and unparsable "
        "texts only.  A content that parses but is rejected by the schema (four single-point mutations: misspelt rule "
        "key, effect / algorithm outside the enum, wrong type) is given to the model as an unparsable text (BBad) when "
        "the source validates and as a loadable document when it does not; the clauses - above all 'a successful load() "
        "returns the document the source holds at that moment, and only then may the active policy change' - are judged "
        "directly on the implementation for these histories (family 'schema': publication of a rejected revision, seen by "
        "a forced / unforced / mid-check load, then roll-back to the earlier bytes = the earlier content-hash ETag and a "
        "304, fix-forward, delete + restore; strong, weak and no ETags)",
        "every write/touch of the policy file gets a fresh mtime (same size + same mtime_ns rewrites belong to C16)",
        "the polling thread (_run_loop) is modelled only as 'calls check repeatedly'; network and S3 are fakes",
        "two truly concurrent checks: model = all interleavings of the lock-delimited blocks and source calls; on the "
        "implementation the same interleavings are forced on real threads by gates around the source calls",
        "the model's step granularity makes 'install the document (guard.set_policy) + record its tag and reset the "
        "back-off' ONE atomic step (Reload.step, case PApply; the convergence theorems for overlapping checks rest on "
        "it).  The implementation provides it by calling set_policy with HotReloader's lock held.  This is tested, not "
        "assumed: in every overlapping-checks case guard.set_policy runs through a scheduler gate at entry and exit; a "
        "check arriving there without holding a lock object of the reloader is parked so that the other check runs in "
        "between, and the safety and convergence clauses are judged on the outcome (coverage.apply_atomicity counts the "
        "set_policy calls seen with / without the lock; 'without' must be 0 for the model to describe the code); a check "
        "that leaves the lock after set_policy and takes a reloader lock again for the bookkeeping is parked in that gap "
        "as well (the reloader's lock attributes are replaced by delegating stand-ins that report acquisitions).  With "
        "the lock held no pre-emption is attempted inside the block (another check could only block on the lock)",
        "documents that json.dumps refuses (content kind n) are ordinary loadable documents for the model (BDoc 300+k) when the "
        "source of the case reads YAML (file / S3: a .yaml name, HTTP: YAML Content-Type or URL; custom sources return the "
        "Python object) and unparsable text (BBad) otherwise; with validate_schema=True their acceptance is asked of "
        "jsonschema + the bundled schema directly.  The expected decision on a probe request is fixed by construction of the "
        "documents (document n: one rule permitting action a<n> on resource type doc; {}: none), not taken from another Guard",
        "probe requests go through the public Guard.evaluate_async, driven by a minimal synchronous loop whose "
        "run_in_executor runs the decision function at once in the calling thread (the engine awaits nothing but "
        "asyncio.to_thread); if a coroutine ever wants more of its loop the requests are repeated on a real asyncio loop "
        "(coverage.probe_requests counts both)",
        "a failing decision cache is outside the model (its installation step is set_policy): the engine must go on without "
        "the cache, so the model's ordinary behaviour is what a history with a FlakyCache is compared with, and the clauses "
        "decide (a check that returned False left the engine untouched; a check that installed a document returned True)",
        "float arithmetic: inputs are dyadic, so the only roundings are `now + 0.2` and products with jitter_ratio 0.15; "
        "suppressed_until/backoff are compared with relative tolerance 1e-9",
        "composition with C16 (ReloadFile.v): ReloadFile.run_sys is exported by no runner, so the schedules of "
        "harness/c10_file.py are judged directly by the statements of c10_reload_never_sees_torn_policy, "
        "c10_reload_failed_load_keeps_policy and c10_reload_converges_through_atomic_write (their conclusions are the "
        "judged clauses), not compared with a model run; as in the theorems each etag() / load() is atomic with respect "
        "to the directory (checks run between two file-system calls of the writer; inside a call: family 'incall') and "
        "there is one writer; a dying writer is played in-process (after the k-th call nothing of the writer has any "
        "effect: buffered data is dropped, cleanup calls are not performed); convergence is not judged where the "
        "theorem's hypothesis fails - the new file has the old one's (size, mtime_ns) and that mtime lies within the "
        "file system's clock readings taken around the write (coverage.reload_file_tie counts these); the in-place "
        "rewrite that tears is a control (the application's misuse), recorded as control_in_place_tears, never a violation",
    ]
    for k_ in range(6):
        n_selfcheck(k_)
    CACHE_FRACTION[0] = 0.4 if chk.tier == "thorough" else 0.2
    corp = corpus_cases()
    check_cases(chk, corp)
    cases = gen_cases(chk)
    for k in range(0, len(cases), 25000):
        check_cases(chk, cases[k:k + 25000])
    conc = gen_conc_cases(chk)
    check_cases(chk, conc)
    n_fine = 0
    if NONATOMIC["without_lock"] or NONATOMIC["gap"]:
        # the apply-block is not atomic on this tree: enumerate the interleavings of its parts too (until enough
        # failing histories are at hand: the tree is defective anyway)
        fine = gen_fine_cases(chk)
        enough = 40 if chk.tier == "thorough" else 8
        for k in range(0, len(fine), 1500):
            check_cases(chk, fine[k:k + 1500])
            n_fine += len(fine[k:k + 1500])
            if len(chk.violations) >= enough:
                break
    stress = gen_stress_cases(chk)
    check_cases(chk, stress)
    import c10_file
    n_rf = c10_file.run(chk)
    chk.exhaustive = True
    chk.extra["cases"] = {"corpus": len(corp), "sequential": len(cases), "overlapping_gated": len(conc),
                          "overlapping_gated_apply_block_split": n_fine, "overlapping_free_running": len(stress),
                          "atomic_write_schedules_(c10_file)": n_rf}
    chk.extra["apply_atomicity"] = {"set_policy_calls_with_reloader_lock_held": NONATOMIC["with_lock"],
                                    "set_policy_calls_without_it_(pre-empted_there)": NONATOMIC["without_lock"],
                                    "lock_released_between_set_policy_and_bookkeeping_(pre-empted_there)": NONATOMIC["gap"],
                                    "overlapping_cases_with_either": NONATOMIC["cases"]}
    chk.extra["probe_requests"] = {"batches_on_the_synchronous_loop_(this_process_only)": PROBE_STATS["sync"],
                                   "batches_repeated_on_a_real_event_loop": PROBE_STATS["real"]}
    chk.extra["open_finding_witness_still_fails"] = {f: witness_fails(f) for f in ("F9", "F20")}
    chk.extra["partial"] = ("the polling thread's timing loop is modelled only as 'calls check repeatedly'; network and "
                            "S3 are fakes; each etag()/load() call is atomic with respect to the world")
