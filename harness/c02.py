"""C02 — combining algorithms decide as specified, for policies and nested sets.

Correspondence: rbacx.core.policy.evaluate / decide and rbacx.core.policyset.decide
called directly, against the extracted model (Policy.evaluate, PolicySet.decide).
props/C02.v characterises the model's decision, deciding rule and deciding child per
algorithm from the rule outcomes, so the model's (decision, rule id, policy id) is
the only answer the property allows: a difference there is a violation; a
difference only in reason/obligations breaks the correspondence the explanation
theorems rest on.

Histories (`hist` in a case): the answer is a function of the document AS IT IS NOW.  The same policy OBJECT is shown
to the library in another state first (morph.py: one aspect changed everywhere — actions, resource targets,
obligations, conditions, effects, algorithms, ids — or, here, `fewer`: the last rule / child dropped everywhere),
evaluated, edited in place into the case's policy (identity of every dict / list kept) and evaluated again: directly
(policy.evaluate / policy.decide / policyset.decide on the same object) and, for sets, through Guard
(update_policy(same object), a new Guard(same object)).  Expected: the model's answer for the case's policy."""
import asyncio
import copy
import itertools

import lib
import morph
import polgen

RUNNER = "engine"


def impl_eval(c):
    from rbacx.core import policy as P
    from rbacx.core import policyset as PS

    pol, env = c["policy"], c["env"]
    try:
        if c.get("entry") == "set":
            r = PS.decide(pol, env)
        elif c.get("override") is not None:
            r = P.evaluate(pol, env, algorithm=c["override"])
        elif c.get("entry") == "decide":
            r = P.decide(pol, env)
        else:
            r = P.evaluate(pol, env)
        return {"decision": r.get("decision"), "reason": r.get("reason"),
                "rule_id": r.get("last_rule_id") or r.get("rule_id"),
                "obligations": r.get("obligations"), "policy_id": r.get("policy_id")}
    except Exception as e:  # noqa: BLE001
        return ["Raise", type(e).__name__]


LOCAL_MODES = ("fewer",)
ALL_MODES = morph.MODES + LOCAL_MODES
KEY = ("decision", "rule_id", "policy_id")


def _walk(p):
    if isinstance(p, dict):
        yield p
        if isinstance(p.get("policies"), list):
            for ch in p["policies"]:
                yield from _walk(ch)


def perturb(policy, mode):
    """morph.perturbed, plus the local mode `fewer` (every rule list and every child list one element shorter)"""
    if mode != "fewer":
        return morph.perturbed(policy, mode)
    p = copy.deepcopy(policy)
    for pol in list(_walk(p)):
        for k in ("rules", "policies"):
            if isinstance(pol.get(k), list) and pol[k]:
                pol[k].pop()
    return p


def earlier_state(policy, mode):
    """(mode used, perturbed copy): the first mode from `mode` on (cyclically) that changes something; (None, None) if
    none does"""
    k = ALL_MODES.index(mode) if mode in ALL_MODES else 0
    for j in range(len(ALL_MODES)):
        md = ALL_MODES[(k + j) % len(ALL_MODES)]
        obj = perturb(policy, md)
        if obj != policy:
            return md, obj
    return None, None


def direct_history(c, mode):
    """the entry point of the case on the same object: in its earlier state, then edited in place into c['policy']"""
    md, obj = earlier_state(c["policy"], mode)
    if obj is None:
        return None
    impl_eval({**c, "policy": obj})         # whatever it answers (or raises) for the earlier state
    morph.morph(obj, c["policy"])
    assert obj == c["policy"]
    return {"how": "the same policy object was evaluated with other %s, edited in place into this policy and evaluated "
                   "again (%s)" % (md, {"set": "policyset.decide", "decide": "policy.decide"}.get(c.get("entry"), "policy.evaluate")),
            "answer": impl_eval({**c, "policy": obj})}


async def guard_history(c, mode, want_fresh):
    """through Guard: morph.morph_runs (Guard(earlier state) asked, object edited in place, update_policy(same object)
    / a new Guard(same object) asked again); with want_fresh also the answer of a Guard on a fresh deep copy.
    Returns (runs, fresh)"""
    from rbacx.core.cache import DefaultInMemoryCache
    from rbacx.core.engine import Guard
    from rbacx.core.model import Action, Context, Resource, Subject

    env = c["env"]
    md, _obj = earlier_state(c["policy"], mode if mode in morph.MODES else "actions")
    if md is None or md not in morph.MODES:
        return None, None
    sub, res = env.get("subject") or {}, env.get("resource") or {}
    s = Subject(id=sub.get("id"), roles=list(sub.get("roles") or []), attrs=dict(sub.get("attrs") or {}))
    a = Action(env.get("action"))
    r = Resource(type=res.get("type"), id=res.get("id"), attrs=dict(res.get("attrs") or {}))
    ctx = Context(dict(env.get("context") or {}))
    with_cache = bool(c.get("hist", {}).get("cache"))

    def mk(pol):
        return Guard(pol, strict_types=bool(env.get("__strict_types__")),
                     cache=DefaultInMemoryCache() if with_cache else None)

    async def ask(g):
        d = await g.evaluate_async(s, a, r, ctx)
        return {"decision": d.effect, "rule_id": d.rule_id, "policy_id": d.policy_id, "obligations": d.obligations}

    runs = await morph.morph_runs(mk, c["policy"], ask, [md])
    fresh = None
    if want_fresh:
        try:
            fresh = await ask(mk(copy.deepcopy(c["policy"])))
        except Exception as e:  # noqa: BLE001
            fresh = ["Raise", type(e).__name__]
    return runs, fresh


def plan_histories(chk, cases):
    """which generated cases also run as a history, and from which earlier state (rotating; `actions` every second
    time for sets: that is what set evaluators are tempted to index their children by)"""
    others = [m for m in ALL_MODES if m != "actions"]
    gm = [m for m in others if m in morph.MODES]
    quick = chk.tier == "quick"
    ks = kp = kd = kg = kh = 0
    for c in cases:
        h = {}
        if c.get("entry") == "set":
            h["mode"] = "actions" if kd % 2 == 0 else others[(kd // 2) % len(others)]      # every set (cheap)
            kd += 1
            if (ks + chk.seed) % (8 if quick else 2) == 0:
                h["guard_mode"] = "actions" if kg % 2 == 0 else gm[(kg // 2) % len(gm)]
                h["cache"] = kg % 4 >= 2
                kg += 1
            ks += 1
        else:
            if (kp + chk.seed) % (6 if quick else 3) == 0:
                h["mode"] = ALL_MODES[kh % len(ALL_MODES)]
                kh += 1
            kp += 1
        if h:
            c["hist"] = h


def gen_cases(chk):
    env = polgen.env_of_req(polgen.BASE_REQ)
    cases = []
    maxlen = 4 if chk.tier == "quick" else 5
    n = 0
    for pat in polgen.all_patterns(maxlen):
        n += 1
        for ai, algo in enumerate(polgen.ALGOS + [None]):
            if chk.tier == "quick" and len(pat) == 4 and (n + ai) % 3 != chk.seed % 3:
                continue
            if chk.tier != "quick" and len(pat) == 5 and (n + ai) % 2 != chk.seed % 2:
                continue        # length 5: every pattern with two of the four algorithm settings (alternating)
            cases.append({"fam": "pattern%d" % len(pat), "policy": polgen.pattern_policy(pat, algo, with_obl=(n % 2 == 0)),
                          "env": env, "pattern": "".join(k + e[0] for k, e in pat), "algo": algo})
    # algorithm argument / spelling / unknown names
    for pat in polgen.all_patterns(2):
        for doc_algo in ("deny-overrides", None):
            for ov in ("permit-overrides", "First-Applicable", "DENY-OVERRIDES", "", "bogus"):
                cases.append({"fam": "override", "policy": polgen.pattern_policy(pat, doc_algo), "env": env,
                              "override": ov})
        for spelled in ("Deny-Overrides", "PERMIT-OVERRIDES", "first-Applicable", "unknown-algo", ""):
            cases.append({"fam": "spelling", "policy": polgen.pattern_policy(pat, spelled), "env": env, "entry": "decide"})
    # odd shapes the evaluator tolerates
    for pol in ({"rules": None}, {"rules": {}}, {"rules": "x"}, {"rules": 5}, {}, {"rules": [], "algorithm": None},
                {"rules": [{"effect": "Permit", "actions": ["read"], "resource": {}}]},
                {"rules": [{"id": "x", "actions": ["read"], "resource": None}]},
                {"algorithm": "first-applicable", "rules": [{"id": "x", "effect": "Allow", "actions": ["*"]}]},
                {"rules": [{"id": "x", "effect": "deny", "actions": ["read"], "resource": {"type": "doc"}, "obligations": "nolist"}]},
                {"rules": [5]}, {"rules": [{"id": 7, "effect": "permit", "actions": ["read"]}]}):
        cases.append({"fam": "shape", "policy": pol, "env": env})
    # policy sets
    pool = polgen.child_pool()
    maxk = 3
    for k in range(maxk + 1):
        for combo in itertools.product(range(len(pool)), repeat=k):
            if k == 3 and chk.tier == "quick" and (sum(combo) + chk.seed) % 4:
                continue
            for algo in polgen.ALGOS + [None]:
                ps = {"policies": [pool[i][1] for i in combo]}
                if algo is not None:
                    ps["algorithm"] = algo
                cases.append({"fam": "set%d" % k, "policy": ps, "env": env, "entry": "set",
                              "children": [pool[i][0] for i in combo], "algo": algo})
    # sets and two-level sets whose children carry no id (the schema does not require one)
    noid = [{k: v for k, v in pol.items() if k != "id"} for _n, pol in pool]
    for combo in itertools.product(range(len(pool)), repeat=2):
        for algo in polgen.ALGOS:
            if (combo[0] + 3 * combo[1] + len(algo) + chk.seed) % (3 if chk.tier == "quick" else 1):
                continue
            flat = {"algorithm": algo, "policies": [noid[combo[0]], pool[combo[1]][1]]}
            cases.append({"fam": "set_noid", "policy": flat, "env": env, "entry": "set"})
            for algo2 in polgen.ALGOS:
                two = {"algorithm": algo2, "policies": [{"algorithm": algo, "policies": [noid[combo[0]]]}, pool[combo[1]][1]]}
                cases.append({"fam": "nested_noid", "policy": two, "env": env, "entry": "set"})
                two = {"algorithm": algo2, "policies": [pool[combo[1]][1], {"id": "inner", "algorithm": algo, "policies": [noid[combo[0]]]}]}
                cases.append({"fam": "nested_noid", "policy": two, "env": env, "entry": "set"})
    # nested sets (depth 2 and 3) from a pool of inner sets
    inner = []
    for combo in itertools.product(range(len(pool)), repeat=2):
        if (combo[0] * 5 + combo[1]) % 7 == 0:
            for algo in polgen.ALGOS:
                inner.append({"id": "in_%d_%d_%s" % (combo[0], combo[1], algo[0]), "algorithm": algo,
                              "policies": [pool[combo[0]][1], pool[combo[1]][1]]})
    rng = chk.rng
    n_nested = 4000 if chk.tier == "quick" else 20000
    for _ in range(n_nested):
        def build(d):
            kids = []
            for _ in range(rng.choice([0, 1, 2, 2, 3])):
                r = rng.random()
                if d > 0 and r < 0.45:
                    kid = build(d - 1)
                elif r < 0.7:
                    kid = rng.choice(inner)
                else:
                    kid = rng.choice(pool)[1]
                if rng.random() < 0.3:      # the schema does not require ids: children and inner sets without one
                    kid = {k: v for k, v in kid.items() if k != "id"}
                    if rng.random() < 0.3:
                        kid["id"] = rng.choice([None, ""])
                kids.append(kid)
            ps = {"id": "s%d" % rng.randrange(1000), "policies": kids}
            if rng.random() < 0.3:
                del ps["id"]
            a = rng.choice(polgen.ALGOS + [None, "Deny-Overrides"])
            if a is not None:
                ps["algorithm"] = a
            return ps
        cases.append({"fam": "nested", "policy": build(rng.choice([1, 2, 3])), "env": env, "entry": "set"})
    for ps in ({"policies": None}, {"policies": "x"}, {"policies": {}}, {"policies": []}, {"policies": [5]},
               {"policies": [{"policies": []}]}, {"algorithm": "bogus", "policies": [pool[0][1], pool[1][1]]},
               {"algorithm": "bogus", "policies": [pool[1][1], pool[0][1]]}):
        cases.append({"fam": "setshape", "policy": ps, "env": env, "entry": "set"})
    plan_histories(chk, cases)
    return cases


def check_cases(chk, cases, replay=False):
    lines = []
    for c in cases:
        if c.get("entry") == "set":
            lines.append(lib.model_call("policyset.decide", c["policy"], c["env"], None))
        else:
            lines.append(lib.model_call("policy.evaluate", c.get("override"), c["policy"], c["env"], None))
    outs = [lib.dec(x) for x in lib.run_model(RUNNER, lines)]
    todo = []
    for c, m in zip(cases, outs):
        i = impl_eval(c)
        chk.count("fam:" + c.get("fam", "?"))
        if m == ["Ood"]:
            chk.count("ood")
            chk.mark(("ood", repr(c["policy"])), False)
            continue
        if isinstance(m, list):
            mm = ["Raise"]
            ii = ["Raise"] if isinstance(i, list) else i
            chk.mark(repr((c["policy"], c.get("override"))), False)
            chk.count("result:raise")
            if ii != mm:
                chk.corr_break("evaluate/decide raises in the model but not in the implementation (schema-invalid shape)",
                               c, impl=i, model=m, theorems=["c02_*"])
            continue
        nontriv = m.get("rule_id") not in (None, "")
        chk.mark(repr((c["policy"], c.get("override"), c.get("entry"))), nontriv)
        chk.count("result:%s/%s" % (m["decision"], m["reason"]))
        chk.sample({"policy": c["policy"], "entry": c.get("entry", "evaluate"), "impl": i, "model": m}, every=7919)
        if isinstance(i, list):
            chk.violation("evaluation raised", c, impl=i, model=m)
            continue
        key = KEY
        if any(i[k] != m[k] for k in key):
            chk.violation("decision / deciding rule / deciding child differ from what the combining algorithm "
                          "prescribes (model = characterisation proved in props/C02.v)", c, impl=i, model=m)
            continue
        if i != m:
            chk.corr_break("reason/obligations differ between model and implementation", c, impl=i, model=m,
                           theorems=["c02_reason_*", "C11"])
        if c.get("hist"):
            todo.append((c, i, m))
    check_histories(chk, todo)


def check_histories(chk, todo):
    """for each (case, fresh answer i, model answer m) — i agrees with m on the decision —: the same answer is due for
    the same policy OBJECT after the library saw it in an earlier state"""
    wanted = [(c, m) for c, _i, m in todo if c["hist"].get("guard_mode") and c.get("entry") == "set"]

    async def guards():
        return [await guard_history(c, c["hist"]["guard_mode"],
                                    want_fresh=(m["decision"] == "permit" and bool(m.get("obligations"))))
                for c, m in wanted]

    gres = dict(zip((id(c) for c, _m in wanted), asyncio.run(guards()))) if wanted else {}
    for c, i, m in todo:
        h = c["hist"]
        full = i == m             # then reason / obligations are the model's too, whatever happened to the object before
        bad = []
        if h.get("mode"):
            d = direct_history(c, h["mode"])
            if d is not None:
                chk.count("hist:direct:" + h["mode"])
                a = d["answer"]
                if isinstance(a, list) or any(a[k] != m[k] for k in KEY) or (full and a != m):
                    bad.append(d)
        runs, fresh = gres.get(id(c), (None, None))
        if runs:
            chk.count("hist:guard:" + h["guard_mode"])
            # Guard turns a permit whose obligations are unmet into a deny (another property's matter): the effect
            # expected then is the one a Guard on a fresh deep copy gives
            effect = fresh["decision"] if isinstance(fresh, dict) else m["decision"]
            for run in runs:
                a = run["decision"]
                if (isinstance(a, list) or a["decision"] != effect or a["rule_id"] != m["rule_id"]
                        or a["policy_id"] != m["policy_id"]
                        or (full and list(a["obligations"] or []) != list(m.get("obligations") or []))):
                    bad.append({"how": run["how"], "answer": a})
        if bad:
            chk.violation("the answer for a policy document depends on an earlier state of the same policy OBJECT: "
                          "after the object was edited in place into this policy, decision / deciding rule / deciding "
                          "child (or, where the fresh evaluation has the model's, reason / obligations) differ from "
                          "what the combining algorithm prescribes for the policy as it is now (model = "
                          "characterisation proved in props/C02.v; a fresh copy of the document is answered as the "
                          "model says)", c, impl={"fresh": i, "after_history": bad}, model=m)


def corpus_cases():
    import json
    out = []
    for f in sorted((lib.VERIF / "corpus" / "C02").glob("*.json")):
        for c in json.loads(f.read_text())["cases"]:
            out.append(lib.unjson(c))
    return out


def run(chk):
    chk.rule = ("enumerated: every sequence of rule outcomes (applicable / action mismatch / resource mismatch / "
                "condition false / condition ill-typed) x effect up to length 4 (thorough 5; the longest length with a third resp. half of the algorithm settings per pattern, rotating with the seed) x 3 algorithms + absent; "
                "algorithm argument and spellings; every set of <= 3 children over a pool of 12 child policies x "
                "algorithms; random nested sets to depth 3. non-trivial = some rule applied (a rule id is reported); "
                "distinct = distinct (document, entry point). histories (counts hist:*): the same policy object seen in an "
                "earlier state (other actions / resource targets / obligations / conditions / effects / algorithms / ids, "
                "or one rule and child fewer), edited in place into the case's policy and evaluated again — directly "
                "for every set and every 6th (thorough 3rd) policy, through Guard (update_policy(same object), a new "
                "Guard(same object), with and without a decision cache) for every 8th (thorough 2nd) set")
    cases = corpus_cases() + gen_cases(chk)
    check_cases(chk, cases)
