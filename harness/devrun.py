"""dev helper: run a property's correspondence without the proof step; prints a summary of disagreements."""
import importlib, json, os, sys, collections
sys.path.insert(0, os.path.dirname(os.path.abspath(__file__)))
import lib
prop = sys.argv[1].upper(); tier = sys.argv[2] if len(sys.argv) > 2 else "quick"
mod = importlib.import_module(prop.lower())
chk = lib.Check(prop, tier, int(os.environ.get("VERIF_SEED", "0")))
mod.run(chk)
print("evaluations", chk.evaluations, "nontrivial", len(chk.nontrivial), "violations", len(chk.violations), "corr", len(chk.corr_breaks), "known", chk.known_hits)
print({k: v for k, v in sorted(chk.dist.items()) if not k.startswith("op:")})
by = collections.Counter(v["clause"][:70] for v in chk.violations)
for k, n in by.most_common(20): print(n, k)
for v in (chk.violations + chk.corr_breaks)[: int(os.environ.get("SHOW", "8"))]:
    print(json.dumps(v, default=str)[:1200])
