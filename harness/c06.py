"""C06 — evaluation is total for schema-valid policies and JSON-valued requests.

(1) the model's schema_valid (Schema.v, hand transcription of policy.schema.json) must agree with the
    real jsonschema + bundled schema on every generated document, valid or mutated (this validates the
    hypothesis of c06_total; a disagreement is a broken correspondence);
(2) the property judged directly: every document the real validator accepts (also after a JSON and a
    YAML round trip through the loaders) is evaluated through Guard in both modes against hostile
    JSON-valued requests: no exception, allowed a bool, effect permit/deny, reason documented;
(3) the Decision is compared with the model's (skipped where the model is outside its domain)."""
import asyncio
import copy
import json
import multiprocessing as mp

import gen
import lib
import polgen

RUNNER = "engine"
REASONS = {"matched", "explicit_deny", "no_match", "action_mismatch", "resource_mismatch", "condition_mismatch",
           "condition_type_mismatch", "obligation_failed"}

HOSTILE = [None, True, False, 0, 1, -1, 2**63, -(2**63), 10**400, 1.5, 1e308, 5e-324, gen.NAN, gen.INF, -gen.INF, "", "a",
           "1", "2025-01-01T00:00:00Z", "2025-13-45T99:99:99+99:99", "not a date", "é" * 3, [], [1, "a", None], [[]],
           {}, {"a": {"b": None}}, {"attr": "x"}, 1e30, -1e30, "0001-01-01T00:00:00+23:59", 253402300800,
           # "arbitrary text": strings that str.isdigit()/isnumeric()/float()/int() treat differently from plain digits
           "\u00b2", "\u2460\u2461", "1\u00b3", "\u0661\u0662\u0663", "\uff11\uff12", "1_000", " 12 ", "+5", "1e5", "0x10",
           "\u221e", "nan", "inf", "-inf", "Infinity", "NaN", "9" * 5000, "\u00a0", "\x00", "-0", "1.", ".5", "null", "true",
           "1735689600", "1735689600.5", "\u0967\u0968", "12\u0660", "\u2160", "\u00bd",
           # collections whose members are themselves lists / objects (unhashable), in every position
           [[], "internal"], [{"name": "ops"}, "ops"], ["ops", ["legacy"]], [["doc", "read"], {"k": [None]}]]
# collections with nested list / object members, as values of the request and as literals of a policy
NESTED_COLS = [[[], "internal"], ["internal", []], [{"name": "ops"}], [{"name": "ops"}, "ops"], ["ops", {"name": "ops"}],
               ["ops", ["legacy"]], [["legacy"], "ops"], [["doc", "read"]], [["doc", "read"], ["doc", "write"]], [[1], [1.0]],
               [{}], [[]], ["a", {"k": [1, {"z": None}]}, "ops"], ["ops"], ["ops", "internal"], []]

ATTR_PATHS = ["context.a", "context.b", "subject.id", "subject.roles", "subject.attrs.x", "resource.id", "resource.type",
              "resource.attrs.k", "action", "context.a.b.c", "nokey", "context.", ""]


def g_attr(rng):
    return {"attr": rng.choice(ATTR_PATHS)}


def g_strexpr(rng):
    return rng.choice(["a", "", "abc", "2025-01-01T00:00:00Z", "é"]) if rng.random() < 0.5 else g_attr(rng)


def g_numexpr(rng):
    return rng.choice([0, 1, -5, 2.5, 10**30, 1e308]) if rng.random() < 0.5 else g_attr(rng)


def g_container(rng):
    r = rng.random()
    if r < 0.3:
        return gen.fresh(rng.choice([[], [1, "a"], ["admin", "staff"], [None], [[1]]] + NESTED_COLS[:10]))
    if r < 0.45:
        return rng.choice(["abc", ""])
    if r < 0.55:
        return rng.choice([{}, {"k": 1}])
    return g_attr(rng)


def g_dt(rng):
    return rng.choice(["2025-01-01T00:00:00Z", "2999-12-31T23:59:59+05:30", "garbage", "", "2025-01-01"]) if rng.random() < 0.5 else g_attr(rng)


def g_cond(rng, depth):
    r = rng.random()
    if depth > 0 and r < 0.3:
        op = rng.choice(["and", "or"])
        return {op: [g_cond(rng, depth - 1) for _ in range(rng.choice([0, 1, 2, 3]))]}
    if depth > 0 and r < 0.4:
        return {"not": g_cond(rng, depth - 1)}
    op = rng.choice(["==", "!=", ">", "<", ">=", "<=", "in", "contains", "startsWith", "endsWith", "before", "after",
                     "between", "hasAll", "hasAny", "rel", "bool"])
    if op == "bool":
        return rng.choice([True, False])
    if op in ("==", "!="):
        return {op: [rng.choice(HOSTILE[:20] + [g_attr(rng)]), rng.choice(HOSTILE[:20] + [g_attr(rng)])]}
    if op in (">", "<", ">=", "<="):
        return {op: [g_numexpr(rng), g_numexpr(rng)]}
    if op == "in":
        return {op: [rng.choice(["a", 1, 2.5, ""]), g_container(rng)]}
    if op == "contains":
        return {op: [g_container(rng), rng.choice(["a", 1, 2.5, ""])]}
    if op in ("startsWith", "endsWith"):
        return {op: [g_strexpr(rng), g_strexpr(rng)]}
    if op in ("before", "after"):
        return {op: [g_dt(rng), g_dt(rng)]}
    if op == "between":
        return {op: [g_dt(rng), [g_dt(rng), g_dt(rng)]]}
    if op in ("hasAll", "hasAny"):
        return {op: [g_container(rng), g_container(rng)]}
    if rng.random() < 0.5:
        return {"rel": rng.choice(["viewer", "owner"])}
    e = {"relation": rng.choice(["viewer", "x"])}
    if rng.random() < 0.5:
        e["subject"] = g_strexpr(rng)
    if rng.random() < 0.5:
        e["resource"] = g_strexpr(rng)
    if rng.random() < 0.5:
        # ctx values of every shape under keys that requests also put into context._rebac (z, limits)
        e["ctx"] = rng.choice([{}, {"ip": "1.2.3.4"}, {"n": [1, None]}, {"z": {"max": 5}}, {"z": 1}, {"z": None},
                               {"limits": {"max": 5, "min": {"a": 1}}, "z": [1]}, {"z": {"max": {"deep": 1}}}])
    return {"rel": e}


def g_rule(rng, i):
    r = {"id": rng.choice(["r%d" % i, "", "é"]), "effect": rng.choice(["permit", "deny"]),
         "actions": rng.choice([["read"], ["*"], ["read", "write"], ["x"]]),
         "resource": rng.choice([{"type": "doc"}, {"type": "*"}, {"type": ["doc", "img"]}, {"type": "doc", "id": rng.choice(HOSTILE[:12])},
                                 {"type": "doc", "attrs": {"k": rng.choice(HOSTILE[:24])}}, {"type": "doc", "attrs": {}, "extra": 1},
                                 {"type": "doc", "attrs": {"k": [1, "1", None]}}])}
    if rng.random() < 0.7:
        r["condition"] = g_cond(rng, rng.choice([0, 1, 2, 3]))
    if rng.random() < 0.4:
        r["obligations"] = rng.choice([[], [{"type": "require_mfa"}], [{"type": "require_level", "attrs": {"min": "x"}}],
                                       [{}], [{"type": 5, "on": None, "attrs": [1]}], [{"type": "require_consent", "attrs": {"key": [1]}}],
                                       [{"type": "require_reauth", "attrs": "junk"}, {"type": "http_challenge", "attrs": {"scheme": None}}]])
    return r


def g_policy(rng, in_set=False):
    p = {"rules": [g_rule(rng, i) for i in range(rng.choice([0, 1, 2, 3]))]}
    if rng.random() < 0.8:
        p["algorithm"] = rng.choice(polgen.ALGOS)
    if not in_set and rng.random() < 0.2:
        p["version"] = 1
    return p


def g_doc(rng):
    if rng.random() < 0.25:
        d = {"policies": [g_policy(rng, True) for _ in range(rng.choice([0, 1, 2, 3]))]}
        if rng.random() < 0.7:
            d["algorithm"] = rng.choice(polgen.ALGOS)
        return d
    return g_policy(rng)


def deep_cond(depth):
    c = {"==": [1, 1]}
    for i in range(depth):
        c = {"not": c} if i % 3 == 0 else ({"and": [c, True]} if i % 3 == 1 else {"or": [False, c]})
    return c


def mutate(rng, doc):
    """single-point mutations, most of them schema-invalid"""
    d = copy.deepcopy(doc)
    paths = []

    def walk(x, path):
        paths.append(path)
        if isinstance(x, dict):
            for k in x:
                walk(x[k], path + [k])
        elif isinstance(x, list):
            for i, y in enumerate(x):
                walk(y, path + [i])
    walk(d, [])
    path = rng.choice(paths)
    parent, key = None, None
    cur = d
    for s in path:
        parent, key = cur, s
        cur = cur[s]
    kind = rng.choice(["drop", "retype", "extra", "rename", "wrap"])
    if parent is None:
        if kind == "extra":
            d["policies"] = [] if "rules" in d else d.get("policies")
            if "rules" not in d:
                d["rules"] = []
        else:
            d = rng.choice([[], None, 5, "x", {}])
        return d
    if kind == "drop":
        if isinstance(parent, dict):
            del parent[key]
        else:
            parent.pop(key)
    elif kind == "retype":
        parent[key] = rng.choice([None, 5, "x", [], {}, True, [1, 2, 3], {"attr": "a"}, {"attr": 5}, [1], 1.5, "", [""]])
    elif kind == "extra":
        if isinstance(cur, dict):
            cur[rng.choice(["extra", "attr", "and", "id", "Effect"])] = rng.choice([1, "x", [], {"attr": "a"}])
        elif isinstance(cur, list):
            cur.append(rng.choice([1, "x", {}, {"attr": "a"}, None]))
        else:
            parent[key] = [cur]
    elif kind == "rename" and isinstance(parent, dict):
        parent[str(key) + "_"] = parent.pop(key)
    else:
        parent[key] = {"attr": "context.a"} if rng.random() < 0.5 else [cur, cur]
    return d


def impl_valid(doc):
    from rbacx.dsl.validate import validate_policy
    try:
        validate_policy(doc)
        return True
    except RecursionError:
        return "recursion"
    except Exception:  # noqa: BLE001
        return False


def _valid_shard(docs):
    return [impl_valid(d) for d in docs]


def requests(rng, n):
    out = []
    for _ in range(n):
        out.append({"subject": {"id": rng.choice(HOSTILE[:20]), "roles": rng.choice([[], ["admin"], [1, None, "x"], ["staff", "staff"]]),
                                "attrs": rng.choice([{}, {"x": rng.choice(HOSTILE)}])},
                    "action": rng.choice(["read", "read", "read", "write", "", "x", "read", "read", None, 5, ["read"], {"name": "read"}, True, 2.5]),
                    "resource": {"type": rng.choice(["doc", "doc", "doc", "doc", "img", None, 1, "", "*"]), "id": rng.choice(HOSTILE[:24]),
                                 "attrs": rng.choice([{}, {"k": rng.choice(HOSTILE)}])},
                    "context": rng.choice([{}, {"a": rng.choice(HOSTILE), "b": rng.choice(HOSTILE)},
                                           {"a": rng.choice(HOSTILE), "_rebac": rng.choice([{}, {"z": 1}, None, {"z": {"max": 1}}, {"z": None},
                                                                                           {"z": [1], "limits": 10}, {"z": "s", "limits": {"max": None}},
                                                                                           {"limits": {"min": 3}}])},
                                           {"mfa": rng.choice(HOSTILE[:10]), "auth_level": rng.choice(HOSTILE), "reauth_age_seconds": rng.choice(HOSTILE),
                                            "consent": rng.choice(HOSTILE)}])})
    return out


def _eval_shard(items):
    from rbacx.core.engine import Guard
    from rbacx.core.model import Action, Context, Resource, Subject

    class Checker:
        def check(self, subject, relation, resource, *, context=None):
            return len(subject) % 2 == 0

    out = []

    async def go():
        for doc, req, strict, with_checker in items:
            try:
                g = Guard(doc, strict_types=strict, relationship_checker=Checker() if with_checker else None)
                d = await g.evaluate_async(Subject(id=req["subject"]["id"], roles=list(req["subject"]["roles"]),
                                                   attrs=dict(req["subject"]["attrs"])),
                                           Action(req["action"]),
                                           Resource(type=req["resource"]["type"], id=req["resource"]["id"],
                                                    attrs=dict(req["resource"]["attrs"])),
                                           Context(attrs=dict(req["context"])))
                out.append({"allowed": d.allowed, "effect": d.effect, "reason": d.reason, "rule_id": d.rule_id,
                            "obligations": d.obligations, "challenge": d.challenge, "policy_id": d.policy_id})
            except RecursionError:
                out.append(["Raise", "RecursionError"])
            except Exception as e:  # noqa: BLE001
                out.append(["Raise", type(e).__name__, str(e)[:80]])
    asyncio.run(go())
    return out


def par(fn, items, n=12):
    if len(items) < 400:
        return fn(items)
    shards = [items[i::n] for i in range(n)]
    with mp.get_context("fork").Pool(n) as pool:
        parts = pool.map(fn, shards)
    out = [None] * len(items)
    for i, part in enumerate(parts):
        out[i::n] = part
    return out


def via_loaders(doc, how):
    from rbacx.store.policy_loader import parse_policy_text
    if how == "json":
        return parse_policy_text(json.dumps(doc), fmt="json")
    import yaml
    return parse_policy_text(yaml.safe_dump(doc, allow_unicode=True), fmt="yaml")


def check_cases(chk, cases, replay=False):
    import ast
    for c in cases:            # replay of a document whose keys JSON cannot carry: rebuilt from its Python literal
        if isinstance(c.get("python_doc"), str):
            c["doc"] = ast.literal_eval(c["python_doc"])
    # ---- (1) schema agreement
    docs = [c["doc"] for c in cases]
    lines = []
    enc_ok = []
    for d in docs:
        try:
            lines.append(lib.model_call("schema.valid", d))
            enc_ok.append(True)
        except TypeError:
            enc_ok.append(False)
    mv = iter([lib.dec(x) for x in lib.run_model(RUNNER, lines)])
    valid_cases = []
    ivs = par(_valid_shard, [c["doc"] for c in cases])
    unenc = []
    for c, ok, iv in zip(cases, enc_ok, ivs):
        chk.count("fam:" + c["fam"])
        if not ok:
            # a document the model's value type cannot hold (mapping keys that are not strings, as YAML produces):
            # no model comparison, but the property still speaks about it when the bundled schema accepts it
            chk.count("valid_unencodable:%s" % iv)
            if iv is True:
                unenc.append(c)
            continue
        m = next(mv)
        chk.count("valid:%s" % iv)
        if iv == "recursion":
            continue
        if m != iv:
            chk.corr_break("Schema.schema_valid disagrees with jsonschema on this document", c, impl=iv, model=m,
                           theorems=["c06_total (hypothesis schema_valid)", "c17_cli_rc"])
            chk.mark(("schema", repr(c["doc"])), False)
            continue
        if iv is True:
            valid_cases.append(c)
        else:
            chk.mark(("schema-invalid", repr(c["doc"])), False)
    # ---- (2') totality alone for accepted documents outside the model's value type
    uitems, umeta = [], []
    for c in unenc:
        for req in c["reqs"]:
            for strict in (False, True):
                uitems.append((c["doc"], req, strict, False))
                umeta.append((c, req, strict))
    for (c, req, strict), d in zip(umeta, par(_eval_shard, uitems)):
        chk.mark(("unenc", repr(c["doc"]), repr(req), strict), True)
        case = {"fam": c["fam"], "doc": lib.jsonable(repr(c["doc"])), "reqs": [req], "strict": strict, "python_doc": repr(c["doc"])}
        if isinstance(d, list):
            chk.count("impl:raise")
            chk.violation("evaluation of a schema-valid policy (mapping keys that are not strings, as YAML yields them) raised %s" % d[1],
                          case, impl=d, model=None)
        elif not isinstance(d["allowed"], bool) or d["effect"] not in ("permit", "deny") or d["reason"] not in REASONS \
                or (d["allowed"] != (d["effect"] == "permit")):
            chk.violation("ill-formed decision for a schema-valid policy", case, impl=d, model=None)
        else:
            chk.count("impl_unencodable:%s/%s" % (d["effect"], d["reason"]))
    # ---- (2) totality, (3) correspondence
    items, meta = [], []
    for c in valid_cases:
        for req in c["reqs"]:
            for strict in (False, True):
                doc = c["doc"]
                how = c.get("via")
                if how:
                    try:
                        doc = via_loaders(doc, how)
                    except Exception:  # noqa: BLE001  (NaN/inf/huge ints do not survive every rendering)
                        doc = c["doc"]
                items.append((doc, req, strict, c.get("checker", False)))
                meta.append((c, req, strict))
    res = par(_eval_shard, items)
    mlines = [lib.model_call("engine.eval", strict, c["doc"], req, None,
                             ([] if c.get("checker") else None)) for (c, req, strict) in meta]
    mouts = [lib.dec(x) for x in lib.run_model(RUNNER, mlines)]
    for (c, req, strict), d, m in zip(meta, res, mouts):
        nontriv = isinstance(d, dict) and d["reason"] != "no_match"
        chk.mark(repr((c["doc"], req, strict)), nontriv)
        case = {"fam": c["fam"], "doc": c["doc"], "reqs": [req], "strict": strict, "via": c.get("via"), "checker": c.get("checker", False)}
        if isinstance(d, list):
            chk.count("impl:raise")
            chk.violation("evaluation of a schema-valid policy raised %s" % d[1], case, impl=d, model=m)
            continue
        chk.count("impl:%s/%s" % (d["effect"], d["reason"]))
        chk.sample({"doc": c["doc"], "req": req, "strict": strict, "decision": d}, every=1999)
        if not isinstance(d["allowed"], bool) or d["effect"] not in ("permit", "deny") or d["reason"] not in REASONS \
                or (d["allowed"] != (d["effect"] == "permit")):
            chk.violation("ill-formed decision for a schema-valid policy", case, impl=d, model=m)
            continue
        if m in (["Ood"], ["UnknownRelQuery"]) or c.get("checker"):
            chk.count("model:skipped")
            continue
        if isinstance(m, list):
            chk.corr_break("the model raises where the implementation returns", case, impl=d, model=m, theorems=["c06_total"])
            continue
        if d != m:
            if isinstance(m, dict) and m.get("reason") == "condition_type_mismatch" and d.get("reason") in ("matched", "explicit_deny", "obligation_failed"):
                # the model's verdict rests on C04's theorems: the only rules that could apply have an ill-typed operand
                chk.violation("an ill-typed operand did not make the affected rule not apply: a rule with a type mismatch in its "
                              "condition decided the request (documented meaning of the condition: type mismatch, props/C04.v)",
                              case, impl=d, model=m)
            else:
                chk.corr_break("Decision differs from the model on a schema-valid policy", case, impl=d, model=m, theorems=["c06_total", "C01"])


def nested_case(cond, values):
    doc = {"algorithm": "first-applicable", "rules": [
        {"id": "h", "effect": "permit", "actions": ["read"], "resource": {"type": "doc"}, "condition": cond},
        {"id": "fallback", "effect": "deny", "actions": ["*"], "resource": {"type": "*"}}]}
    req = {"subject": {"id": "u", "roles": [], "attrs": {}}, "action": "read",
           "resource": {"type": "doc", "id": "1", "attrs": {}}, "context": {}}
    for path, v in values.items():
        parts = path.split(".")
        holder = req[parts[0]] if parts[0] == "context" else req[parts[0]]["attrs"]
        holder[parts[-1]] = gen.fresh(v)
    return {"fam": "nested", "doc": doc, "reqs": [req]}


def gen_cases(chk):
    rng = chk.rng
    quick = chk.tier == "quick"
    cases = []
    n_docs = 500 if quick else 8000
    for i in range(n_docs):
        doc = g_doc(rng)
        cases.append({"fam": "grammar", "doc": doc, "reqs": requests(rng, 2), "via": rng.choice([None, None, "json", "yaml"]),
                      "checker": rng.random() < 0.15})
        for _ in range(2):
            cases.append({"fam": "mutated", "doc": mutate(rng, doc), "reqs": requests(rng, 1)})
    # deep nesting (the validator itself gives up between 150 and 200 levels)
    for depth in (5, 20, 40, 80, 120):
        cases.append({"fam": "deep", "doc": {"algorithm": "deny-overrides", "rules": [
            {"id": "d", "effect": "permit", "actions": ["read"], "resource": {"type": "doc"}, "condition": deep_cond(depth)}]},
            "reqs": requests(rng, 1)})
    # hostile operand sweep: every time/order operator against every hostile value
    for op in ("before", "after", "<", ">=", "startsWith", "hasAny", "hasAll", "in", "contains", "between"):
        for v in HOSTILE:
            cond = {op: [{"attr": "context.a"}, {"attr": "context.b"}]}
            other = rng.choice(HOSTILE)
            if op in ("hasAny", "hasAll") and rng.random() < 0.7:
                other = rng.choice(NESTED_COLS)
                if rng.random() < 0.5:       # the hostile value is the second operand
                    cond = {op: [{"attr": "context.b"}, {"attr": "context.a"}]}
            if op == "in":
                cond = {op: ["a", {"attr": "context.a"}]}
            if op == "contains":
                cond = {op: [{"attr": "context.a"}, 1]}
            if op == "between":
                cond = {op: [{"attr": "context.a"}, [{"attr": "context.b"}, "2026-01-01T00:00:00Z"]]}
            doc = {"algorithm": "first-applicable", "rules": [
                {"id": "h", "effect": "permit", "actions": ["read"], "resource": {"type": "doc"}, "condition": cond},
                {"id": "fallback", "effect": "deny", "actions": ["*"], "resource": {"type": "*"}}]}
            req = {"subject": {"id": "u", "roles": [], "attrs": {}}, "action": "read",
                   "resource": {"type": "doc", "id": "1", "attrs": {}}, "context": {"a": gen.fresh(v), "b": gen.fresh(other)}}
            cases.append({"fam": "hostile", "doc": doc, "reqs": [req]})
    # reference-shaped literals: objects with an "attr" key whose value is NOT a path string ({"attr": 5}, null, list,
    # object, bool, float, ""), wherever the schema lets an arbitrary value or a container stand (the schema forces a
    # string only where an operand is validated as an attribute reference); resolve() treats any object with an "attr"
    # key as a reference — a missing path, never an exception.  The harness keeps only schema-accepted documents.
    for op in ("==", "!=", "in", "contains", "hasAny", "hasAll", ">", "startsWith", "before", "between"):
        for odd in (5, None, ["a"], {"x": 1}, True, 1.5, "", 0, [], {}):
            lit = {"attr": odd}
            for k, cond in enumerate(({op: [lit, {"attr": "context.a"}]}, {op: [{"attr": "context.a"}, lit]},
                                      {op: [lit, gen.fresh(lit)]}, {"not": {op: [lit, 1]}},
                                      {op: [{"attr": "context.a"}, [lit, lit]]})):
                doc = {"algorithm": "first-applicable", "rules": [
                    {"id": "h", "effect": "permit", "actions": ["read"], "resource": {"type": "doc"}, "condition": cond},
                    {"id": "fallback", "effect": "deny", "actions": ["*"], "resource": {"type": "*"}}]}
                req = {"subject": {"id": "u", "roles": [], "attrs": {}}, "action": "read",
                       "resource": {"type": "doc", "id": "1", "attrs": {}}, "context": {"a": [5, "x"] if k % 2 else 5}}
                cases.append({"fam": "attr-literal", "doc": doc, "reqs": [req]})
    # collections with nested list / object members: hasAll / hasAny over every pair (request value x request value,
    # request value x policy literal, literal x request value), in / contains with such a haystack
    where = ["subject.attrs.groups", "resource.attrs.labels", "context.scopes"]
    n = 0
    for i, a in enumerate(NESTED_COLS):
        for j, b in enumerate(NESTED_COLS):
            n += 1
            if quick and (i + j + chk.seed) % 6 and i != j:
                continue
            op = ("hasAll", "hasAny")[n % 2]
            pa, pb = where[n % 3], where[(n + 1) % 3]
            side = n // 2 % 3
            cond = {op: [{"attr": pa} if side != 1 else gen.fresh(a), {"attr": pb} if side != 2 else gen.fresh(b)]}
            cases.append(nested_case(cond, {pa: a, pb: b}))
    for i, c in enumerate(NESTED_COLS):
        for needle in ("ops", 1, "internal"):
            pc = where[i % 3]
            cases.append(nested_case({"in": [needle, {"attr": pc} if i % 2 else gen.fresh(c)]}, {pc: c}))
            cases.append(nested_case({"contains": [gen.fresh(c) if i % 2 else {"attr": pc}, needle]}, {pc: c}))
    # logic: every and/or over pairs of {true, false, ill-typed, holds, fails} leaves, bare, negated, and nested once
    ILL = {"<": [{"attr": "context.a"}, 3]}
    leaves = [True, False, ILL, {"==": [1, 1]}, {"==": [1, 2]}, {">": [{"attr": "context.missing"}, 3]}]
    trees = []
    for op in ("and", "or"):
        for x in leaves:
            for y in leaves:
                t = {op: [x, y]}
                trees += [t, {"not": t}, {"or" if op == "and" else "and": [t, False]}, {"not": {"and": [t, True]}}]
    for t in trees + [{"not": l} for l in leaves]:
        doc = {"algorithm": "first-applicable", "rules": [
            {"id": "h", "effect": "permit", "actions": ["read"], "resource": {"type": "doc"}, "condition": t},
            {"id": "fallback", "effect": "deny", "actions": ["*"], "resource": {"type": "*"}}]}
        req = {"subject": {"id": "u", "roles": [], "attrs": {}}, "action": "read",
               "resource": {"type": "doc", "id": "1", "attrs": {}}, "context": {"a": "high"}}
        cases.append({"fam": "logic", "doc": doc, "reqs": [req]})
    # documents as YAML yields them: mapping keys that are not strings (2024: archived, no: true, 1.5: x, null: y)
    for keyset in ({2024: "archived"}, {False: True}, {1.5: "x"}, {None: "y"}, {2024: "archived", "k": 1}, {(1, 2): "t"}):
        for where in ("attrs", "obligation", "obligation_attrs", "rule_extra"):
            rule = {"id": "y", "effect": "permit", "actions": ["read"], "resource": {"type": "doc"}}
            if where == "attrs":
                rule["resource"]["attrs"] = dict(keyset)
            elif where == "obligation":
                rule["obligations"] = [dict(keyset, type="require_mfa")]
            elif where == "obligation_attrs":
                rule["obligations"] = [{"type": "require_level", "attrs": dict(keyset, min=1)}]
            else:
                rule.update(keyset)
            doc = {"algorithm": "deny-overrides", "rules": [rule, {"id": "z", "effect": "deny", "actions": ["write"], "resource": {"type": "*"}}]}
            for rattrs in ({}, {"k": 1}, {"2024": "archived"}):
                req = {"subject": {"id": "u", "roles": [], "attrs": {}}, "action": "read",
                       "resource": {"type": "doc", "id": "1", "attrs": rattrs}, "context": {"mfa": True}}
                cases.append({"fam": "yamlkeys", "doc": doc, "reqs": [req]})
    # rel conditions: every ctx shape of the rule against every shape of the request's context._rebac (an object
    # whose values are any JSON value, the two sharing keys), with and without a relationship checker
    shapes = [None, {}, {"z": 1}, {"z": None}, {"z": "s"}, {"z": [1]}, {"z": {"max": 5}}, {"z": {"max": {"deep": 1}}},
              {"z": {"max": 5}, "limits": {"min": {"a": 1}}}, {"limits": 10, "z": {}}]
    for ctx_shape in shapes:
        for rb in shapes:
            rel = {"relation": "viewer"}
            if ctx_shape is not None:
                rel["ctx"] = ctx_shape
            doc = {"algorithm": "first-applicable", "rules": [
                {"id": "h", "effect": "permit", "actions": ["read"], "resource": {"type": "doc"}, "condition": {"rel": rel}},
                {"id": "fallback", "effect": "deny", "actions": ["*"], "resource": {"type": "*"}}]}
            ctxv = {"a": 1}
            if rb is not None:
                ctxv["_rebac"] = gen.fresh(rb)
            req = {"subject": {"id": "u", "roles": [], "attrs": {}}, "action": "read",
                   "resource": {"type": "doc", "id": "1", "attrs": {}}, "context": ctxv}
            for with_checker in (False, True):
                cases.append({"fam": "relctx", "doc": doc, "reqs": [req], "checker": with_checker})
    return cases


def corpus_cases():
    out = []
    for f in sorted((lib.VERIF / "corpus" / "C06").glob("*.json")):
        for c in json.loads(f.read_text())["cases"]:
            out.append(lib.unjson(c))
    return out


def run(chk):
    chk.rule = ("documents generated from the schema's grammar (all 19 operators, rel forms, obligations of any object "
                "shape, sets) and 2 single-point mutations each; every document validated by the real jsonschema and by "
                "the model's schema_valid; every accepted document (as is, and via JSON / YAML text through the loaders) "
                "evaluated through Guard lax+strict against hostile JSON requests (10**400, +-2**63, NaN, +-inf, 1e308, "
                "5e-324, empty/deep containers, null everywhere, absurd dates); conditions nested to 120 levels; a sweep "
                "of time/order/collection operators x every hostile value. non-trivial = evaluation got past target "
                "matching (reason is not no_match); distinct = distinct (document, request, mode)")
    chk.assumptions = ["Python's recursion limit is outside the model: jsonschema itself gives up between 150 and 200 levels of "
                       "condition nesting, evaluation only beyond ~990; documents are generated up to depth 120",
                       "context._rebac, when present, is an object or null (the property's stated domain)"]
    check_cases(chk, corpus_cases() + gen_cases(chk))
