"""Entry point: ./check <Cxx> <quick|thorough> | ./check <Cxx> --replay <path>."""
import importlib
import json
import os
import sys

sys.path.insert(0, os.path.dirname(os.path.abspath(__file__)))
import lib  # noqa: E402


def main(argv):
    if len(argv) < 2:
        print("usage: check <Cxx> <quick|thorough> | check <Cxx> --replay <path>")
        return 2
    prop = argv[0].upper()
    seed = int(os.environ.get("VERIF_SEED", "0") or 0)
    mod = importlib.import_module(prop.lower())
    lib.assert_impl_path()
    if argv[1] == "--replay":
        data = json.loads(open(argv[2]).read())
        chk = lib.Check(prop, "quick", int(data.get("seed", seed)))
        chk.proof = lib.proof_step(prop)
        if data.get("kind") == "proof-obligation-broken":
            rc = 0 if chk.proof.get("ok") else 1
            print("proof step", "ok" if rc == 0 else "still failing: " + str(chk.proof.get("error"))[:500])
            return rc
        cases = [lib.unjson(data["case"])] if "case" in data else [lib.unjson(c["case"]) for c in data.get("cases", [])]
        mod.check_cases(chk, cases, replay=True)
        bad = len(chk.violations) + len(chk.corr_breaks)
        for v in chk.violations + chk.corr_breaks:
            print(json.dumps(v, indent=1)[:3000])
        print("replay:", "still fails" if bad else "passes now")
        return 1 if bad else 0
    tier = os.environ.get("VERIF_TIER") or argv[1]
    if tier not in ("quick", "thorough"):
        tier = argv[1]
    chk = lib.Check(prop, tier, seed)
    chk.proof = lib.proof_step(prop, tier)
    ck_thread, ck_box = None, {}
    if tier == "thorough" and chk.proof.get("ok"):
        # the independent checker (coqchk -o) re-checks the property file's closure while the harness runs
        import threading
        ck_thread = threading.Thread(target=lambda: ck_box.update(lib.coqchk_step(prop)), daemon=True)
        ck_thread.start()
    if chk.proof.get("ok"):
        mod.run(chk)
    if ck_thread is not None:
        ck_thread.join()
        lib.merge_coqchk(chk.proof, ck_box or {"ok": False, "rc": None, "report": {}, "tail": "coqchk thread produced no result"})
    return chk.finish()


if __name__ == "__main__":
    sys.exit(main(sys.argv[1:]))
