"""C05 — targets match as documented in lax and strict mode, on every path.

Correspondence: rbacx.core.policy.match_resource / match_actions against the model
(Target.v; props/C05.v characterises it clause by clause), and end to end through
Guard(strict_types=...) for single policies (compiled path), the interpreter and
policy sets: the decision must be permit iff the model's target predicate holds in
the engine's mode."""
import asyncio
import itertools

import gen
import lib
import morph

RUNNER = "engine"

ID_POOL = [None, 1, "1", 1.0, True, "True", 0, "0", False, "", "a", "A", [1], "[1]", {"a": 1}, "None", 2**53 + 1,
           float(2**53), "é", -0.0, 0.0]
TYPE_POOL = [None, "doc", "Doc", "*", "", 1, "1", True, ["doc"], ["doc", "img"], ["*"], [1], ["1"], [], ["img", "*"],
             {"a": 1}, [1, 2], [1.0, 2.0], [True, 2]]
RES_TYPE_POOL = [None, "doc", "img", "*", "", 1, "1", True, ["doc"], 1.0]
ATTR_VALS = [None, 1, "1", 1.0, True, "a", ["a", "b"], [1, "1"], [], {"k": 1}, "['a', 'b']", 0, False, "",
             # one-of lists that are equal as Python values (== and hash) but spelt differently
             [1, 2], [1.0, 2.0], [True, 2], [0, 5], [False, 5.0], [None], [None, 1]]


def impl_match_resource(rdef, resource, strict_arg):
    from rbacx.core.policy import match_resource

    try:
        if strict_arg is None:
            return bool(match_resource(rdef, resource))
        return bool(match_resource(rdef, resource, strict=strict_arg))
    except Exception as e:  # noqa: BLE001
        return ["Raise"]


def impl_match_actions(rule, action):
    from rbacx.core.policy import match_actions

    try:
        return bool(match_actions(rule, action))
    except Exception:  # noqa: BLE001
        return ["Raise"]


# ---- the same target OBJECT, seen by the library in an earlier state, then edited in place -------------------------
# A policy document is a mutable dict that applications edit and hand back (update_policy / set_policy / a new Guard /
# evaluate() again).  The statement is about the target AS WRITTEN NOW, so nothing the library derived from an earlier
# state of the very same dict / list objects may show.  EDITS names how the earlier state differed ("X<-req": that part
# was taken from the request itself, so the earlier target tended to match; otherwise it was some other value).
EDITS = ("id", "id<-req", "type", "type<-req", "append", "elem", "attr", "attr<-req", "all", "all<-req",
         "key-added", "key-removed")


_KEEP = object()


def _same(a, b):
    return repr(a) == repr(b)          # type-aware (1 / True / 1.0 / "1" and -0.0 / 0.0 stay apart)


def _target_lists(w):
    out = []
    if isinstance(w.get("type"), list):
        out.append(w["type"])
    for k in ("attrs", "attributes"):
        if isinstance(w.get(k), dict):
            out.extend(v for v in w[k].values() if isinstance(v, list))
    return out


def pre_state(rdef, resource, edit):
    """the EARLIER state of the target object for one edit (a fresh object morph.morph() turns into `rdef` in place:
    the dict itself, its attrs dict and every list keep their identity), or None if the edit does not apply"""
    if not isinstance(rdef, dict) or not isinstance(resource, dict):
        return None
    w = gen.fresh(rdef)
    req_attrs = resource.get("attrs") or resource.get("attributes") or {}
    if not isinstance(req_attrs, dict):
        req_attrs = {}

    def set_id(v):
        if "id" in w:
            w["id"] = v

    def set_type(v):
        if isinstance(w.get("type"), list):
            w["type"][:] = [v]
        elif "type" in w:
            w["type"] = v

    def set_attrs(value_for):
        for k in ("attrs", "attributes"):
            at = w.get(k)
            if isinstance(at, dict):
                for ak, av in list(at.items()):
                    nv = value_for(ak)
                    if nv is _KEEP:
                        continue
                    if isinstance(av, list):
                        av[:] = [nv]
                    else:
                        at[ak] = nv

    def from_req(ak):
        return gen.fresh(req_attrs[ak]) if ak in req_attrs else _KEEP

    if edit == "id":
        set_id("zz_other_id")
    elif edit == "id<-req":
        if resource.get("id") is not None:
            set_id(gen.fresh(resource["id"]))
    elif edit == "type":
        set_type("zz_other_type")
    elif edit == "type<-req":
        if resource.get("type") is not None:
            set_type(gen.fresh(resource["type"]))
    elif edit == "append":             # every list had one element less (the edit appends in place)
        for lst in _target_lists(w):
            if lst:
                lst.pop()
    elif edit == "elem":               # every list had another first element
        for lst in _target_lists(w):
            if lst:
                lst[0] = "zz_other_value"
    elif edit == "attr":
        set_attrs(lambda ak: "zz_other_value")
    elif edit == "attr<-req":
        set_attrs(from_req)
    elif edit == "all":
        w = morph.perturbed({"rules": [{"resource": w}]}, "resource")["rules"][0]["resource"]
    elif edit == "all<-req":
        if resource.get("id") is not None:
            set_id(gen.fresh(resource["id"]))
        if resource.get("type") is not None:
            set_type(gen.fresh(resource["type"]))
        set_attrs(from_req)
    elif edit == "key-added":          # only the type was written; id / attrs keys were added later
        for k in [k for k in w if k != "type"]:
            del w[k]
    elif edit == "key-removed":        # an id and an attribute were written and deleted later
        if "id" not in w:
            w["id"] = "zz_other_id"
        if "attrs" not in w and "attributes" not in w:
            w["attrs"] = {"zz_other_key": "zz_other_value"}
    else:
        raise ValueError(edit)
    return None if _same(w, rdef) else w


def applicable_edits(rdef, resource):
    return [e for e in EDITS if pre_state(rdef, resource, e) is not None]


def morph_direct_cases(chk, direct):
    """for the target families of gen_direct: match_resource on the earlier state, edit in place, match again"""
    out = []
    k = 0
    for c in direct:
        if c["fam"] not in ("type", "id", "attr", "struct"):
            continue
        if not isinstance(c["rdef"], dict):
            continue
        k += 1
        if chk.tier == "quick" and (k + chk.seed) % 4:
            continue                   # quick: every fourth case (rotating with the seed), one edit each
        edits = applicable_edits(c["rdef"], c["resource"])
        if not edits:
            continue
        if chk.tier == "quick":
            edits = [edits[(k // 4 + chk.seed) % len(edits)]]
        for e in edits:
            out.append({"fam": "morph", "of": c["fam"], "rdef": c["rdef"], "resource": c["resource"],
                        "strict": c["strict"], "edit": e})
    return out


def run_morph_direct(c):
    from rbacx.core.policy import match_resource  # noqa: F401  (import errors surface here, not per call)

    w = pre_state(c["rdef"], c["resource"], c["edit"])
    if w is None:
        return None
    res = gen.fresh(c["resource"])
    before = impl_match_resource(w, res, c["strict"])
    morph.morph(w, c["rdef"])
    assert _same(w, c["rdef"]), (w, c["rdef"])
    return {"earlier_state": before, "now": impl_match_resource(w, res, c["strict"])}


def gen_direct(chk):
    cases = []
    # type x res_type
    for t, rt in itertools.product(TYPE_POOL, RES_TYPE_POOL):
        for strict in (None, True, False):
            rdef = {} if t is None else {"type": gen.fresh(t)}
            if t is None:
                rdef = {"id": None}
            cases.append({"fam": "type", "rdef": rdef, "resource": {"type": gen.fresh(rt), "id": "1", "attrs": {}},
                          "strict": strict})
    # id x res_id
    for i, ri in itertools.product(ID_POOL, ID_POOL):
        for strict in (None, True):
            cases.append({"fam": "id", "rdef": {"type": "doc", "id": gen.fresh(i)},
                          "resource": {"type": "doc", "id": gen.fresh(ri), "attrs": {}}, "strict": strict})
    # attrs: value x value, key variants
    for v, rv in itertools.product(ATTR_VALS, ATTR_VALS):
        for strict in (None, True):
            for rkey, skey in (("attrs", "attrs"), ("attributes", "attrs"), ("attrs", "attributes")):
                cases.append({"fam": "attr", "rdef": {"type": "doc", rkey: {"k": gen.fresh(v)}},
                              "resource": {"type": "doc", "id": "1", skey: {"k": gen.fresh(rv)}}, "strict": strict})
    # structure: missing attribute, missing attrs, empty attrs falling through to attributes, several keys, legacy flag
    structs = [
        ({"type": "doc", "attrs": {"k": 1}}, {"type": "doc", "id": "1", "attrs": {}}),
        ({"type": "doc", "attrs": {"k": 1}}, {"type": "doc", "id": "1"}),
        ({"type": "doc", "attrs": {"k": None}}, {"type": "doc", "attrs": {}}),
        ({"type": "doc", "attrs": {"k": None}}, {"type": "doc", "attrs": {"k": None}}),
        ({"type": "doc", "attrs": {}, "attributes": {"k": 1}}, {"type": "doc", "attrs": {"k": 2}}),
        ({"type": "doc", "attrs": {"k": 1}, "attributes": {"k": 2}}, {"type": "doc", "attrs": {"k": 2}}),
        ({"type": "doc", "attrs": {"a": 1, "b": 2}}, {"type": "doc", "attrs": {"a": 1, "b": 3}}),
        ({"type": "doc", "attrs": {"a": 1, "b": 2}}, {"type": "doc", "attrs": {"b": 2, "a": 1, "c": 0}}),
        ({"type": "doc", "attrs": "x"}, {"type": "doc", "attrs": {"a": 1}}),
        ({"type": "doc", "attrs": {"a": 1}}, {"type": "doc", "attrs": "x"}),
        ({"type": "doc", "attrs": {"a": 1}}, {"type": "doc", "attrs": {}, "attributes": {"a": 1}}),
        ({}, {"type": "doc"}), ({"id": 1}, {"type": None, "id": 1}), ({"id": 1}, {}),
        ({"type": "doc", "id": 1}, {"type": "doc", "id": "1", "__strict_types__": True}),
        ({"type": "doc", "attrs": {"a": 1}}, {"type": "doc", "attrs": {"a": "1"}, "__strict_types__": True}),
        ({"type": "doc", "attrs": {"a": 1}}, {"type": "doc", "attrs": {"a": "1"}, "__strict_types__": 0}),
        ({"type": "doc", "attrs": {"m": {"a": 1, "b": 2}}}, {"type": "doc", "attrs": {"m": {"b": 2, "a": 1}}}),
        ({"type": "doc", "attrs": {"m": {"a": 1, "b": 2}}}, {"type": "doc", "attrs": {"m": {"a": 1, "b": 2}}}),
    ]
    for rdef, res in structs:
        for strict in (None, True, False):
            cases.append({"fam": "struct", "rdef": rdef, "resource": res, "strict": strict})
    for rdef in (None, 5, "x", [], [1]):
        cases.append({"fam": "struct", "rdef": rdef, "resource": {"type": "doc"}, "strict": None})
    # actions
    for acts in (["read"], ["write"], ["*"], ["write", "read"], [], ["Read"], [1, "read"], [None], "read", None, 5,
                 {"read": 1}, ["read", "*"], ["rea", "d"], [["read"]], ["*read"]):
        for a in ("read", "*", "", "Read", "write"):
            cases.append({"fam": "actions", "rule": {"actions": acts}, "action": a})
    return cases


def engine_targets():
    targets = []
    for i, ri in itertools.product([1, "1", 1.0, True, "a", None], [1, "1", 1.0, True, "a", None, 0]):
        targets.append(({"type": "doc", "id": i}, {"type": "doc", "id": ri, "attrs": {}}))
    for v, rv in itertools.product([1, "1", [1, "2"], ["1"], True, None, "a"], [1, "1", "2", 2, True, None, "a"]):
        targets.append(({"type": "doc", "attrs": {"k": v}}, {"type": "doc", "id": "x", "attrs": {"k": rv}}))
    for t, rt in itertools.product(["doc", ["doc", "img"], "*", ["*"], "1", ["1"]], ["doc", "img", 1, "1", None, "*"]):
        targets.append(({"type": t}, {"type": rt, "id": "x", "attrs": {}}))
    return targets


# targets with several constraints at once, so that an edit of ONE part leaves the others deciding (engine-morph only)
MORPH_TARGETS = [
    ({"type": "doc", "id": "1", "attrs": {"k": [1, 2]}}, {"type": "doc", "id": "1", "attrs": {"k": 2}}),
    ({"type": "doc", "id": "1", "attrs": {"k": [1, 2]}}, {"type": "doc", "id": "1", "attrs": {"k": 3}}),
    ({"type": ["doc", "img"], "attributes": {"level": [1, 2, 3]}}, {"type": "img", "id": "x", "attrs": {"level": 3}}),
    ({"type": ["doc", "img"], "attributes": {"level": [1, 2, 3]}}, {"type": "img", "id": "x", "attrs": {"level": "3"}}),
    ({"type": ["doc", "img"], "id": 7, "attrs": {"a": "x", "b": ["y", "z"]}},
     {"type": "img", "id": 7, "attrs": {"a": "x", "b": "z"}}),
    ({"type": ["doc", "img"], "id": 7, "attrs": {"a": "x", "b": ["y", "z"]}},
     {"type": "doc", "id": "7", "attrs": {"a": "x", "b": "y", "c": 0}}),
    ({"type": "doc", "attrs": {"state": "draft", "n": 1}}, {"type": "doc", "id": "x", "attrs": {"state": "draft", "n": 1}}),
    ({"type": "doc", "attrs": {"state": "draft", "n": 1}}, {"type": "doc", "id": "x", "attrs": {"state": "published", "n": 1}}),
]

ROUTES = ("update_policy(same object)", "a new Guard(same object)", "evaluate() / decide() on the same objects")


def engine_morph_cases(chk):
    """end to end: the Guard answers the request while the rule's target is in an earlier state, the target is edited
    in place, then the same document goes back through update_policy / set_policy, into a new Guard, and through the
    plain interpreter; permit iff the target AS WRITTEN NOW matches in the engine's mode."""
    cases = []
    k = 0
    for rdef, res in engine_targets() + MORPH_TARGETS:
        edits = applicable_edits(rdef, res)
        if not edits:
            continue
        for strict in (False, True):
            k += 1
            shapes = ("single", "set", "nested", "shadow")
            use = [(sh, e) for sh in shapes for e in edits]
            if chk.tier == "quick":
                # one shape and one edit per (target, request, mode), rotating with the seed
                use = [(shapes[(k + chk.seed) % 4], edits[(k // 4 + chk.seed) % len(edits)])]
            for sh, e in use:
                cases.append({"fam": "engine-morph", "rdef": rdef, "resource": res, "strict": strict, "shape": sh,
                              "edit": e, "first": (k + len(cases)) % len(ROUTES)})
    return cases


def run_engine_morph_cases(cases):
    """per case: [[route, allowed-or-Raise], ...] in the order the routes were taken, or None (edit not applicable)"""
    from rbacx.core.engine import Guard
    from rbacx.core.model import Action, Context, Resource, Subject
    from rbacx.core.policy import evaluate
    from rbacx.core.policyset import decide

    out = []

    async def go():
        for c in cases:
            w = pre_state(c["rdef"], c["resource"], c["edit"])
            if w is None:
                out.append(None)
                continue
            pol = policy_for(c["shape"], w)
            rr = c["resource"]
            strict = bool(c["strict"])

            async def ev(guard):
                try:
                    d = await guard.evaluate_async(Subject(id="u"), Action("read"),
                                                   Resource(type=rr.get("type"), id=rr.get("id"), attrs=rr.get("attrs") or {}),
                                                   Context({}))
                    return d.allowed
                except Exception as e:  # noqa: BLE001
                    return ["Raise", type(e).__name__]

            def plain():
                env = {"subject": {"id": "u", "roles": [], "attrs": {}}, "action": "read",
                       "resource": {"type": rr.get("type"), "id": rr.get("id"), "attrs": dict(rr.get("attrs") or {})},
                       "context": {}}
                if strict:
                    env["__strict_types__"] = True
                try:
                    return (decide if "policies" in pol else evaluate)(pol, env).get("decision") == "permit"
                except Exception as e:  # noqa: BLE001
                    return ["Raise", type(e).__name__]

            # the library sees the earlier state: through a Guard and through the plain interpreter (same request)
            try:
                g = Guard(pol, strict_types=strict)
                await ev(g)
            except Exception:  # noqa: BLE001  (the earlier state need not be a good document)
                g = None
            plain()
            morph.morph(w, c["rdef"])
            assert _same(w, c["rdef"]), (w, c["rdef"])

            async def route(i):
                try:
                    if i == 0:
                        if g is None:
                            return None
                        (g.update_policy if c["first"] % 2 == 0 else g.set_policy)(pol)
                        return await ev(g)
                    if i == 1:
                        return await ev(Guard(pol, strict_types=strict))
                    return plain()
                except Exception as e:  # noqa: BLE001
                    return ["Raise", type(e).__name__]

            got = []
            for j in range(len(ROUTES)):
                i = (c.get("first", 0) + j) % len(ROUTES)
                a = await route(i)
                if a is not None:
                    got.append([ROUTES[i], a])
            out.append(got)

    asyncio.run(go())
    return out


def engine_cases(chk):
    """end to end: one permit rule with the target, through Guard in both modes, as single policy,
    inside a set and nested set; permit iff the target matches in the engine's mode."""
    cases = []
    for rdef, res in engine_targets():
        for strict in (False, True):
            for shape in ("single", "set", "nested", "shadow"):
                cases.append({"fam": "engine", "rdef": rdef, "resource": res, "strict": strict, "shape": shape})
    if chk.tier == "quick":
        cases = [c for i, c in enumerate(cases) if i % 2 == chk.seed % 2 or c["shape"] in ("single", "shadow")]
    return cases


def policy_for(shape, rdef):
    """the document of an engine case; the rule's "resource" IS the object `rdef` (not a copy)"""
    rule = {"id": "r", "effect": "permit", "actions": ["read"], "resource": rdef}
    pol = {"algorithm": "deny-overrides", "rules": [rule]}
    if shape == "shadow":
        # the rule under test DENIES, a wildcard rule permits: allowed iff the target does NOT match
        # (a rule whose target does not match must not shadow the more general rule, on any path)
        pol = {"algorithm": "deny-overrides", "rules": [dict(rule, effect="deny"),
                                                       {"id": "any", "effect": "permit", "actions": ["read"], "resource": {"type": "*"}}]}
    elif shape == "set":
        pol = {"algorithm": "deny-overrides", "policies": [{"id": "p", **pol}]}
    elif shape == "nested":
        pol = {"algorithm": "permit-overrides",
               "policies": [{"id": "outer", "algorithm": "first-applicable", "policies": [{"id": "p", **pol}]}]}
    return pol


def run_engine_cases(cases):
    from rbacx.core.engine import Guard
    from rbacx.core.model import Action, Context, Resource, Subject

    out = []

    async def go():
        for c in cases:
            pol = policy_for(c["shape"], c["rdef"])
            g = Guard(pol, strict_types=c["strict"])
            r = c["resource"]

            async def ev(guard, rr):
                try:
                    d = await guard.evaluate_async(Subject(id="u"), Action("read"),
                                                   Resource(type=rr.get("type"), id=rr.get("id"), attrs=rr.get("attrs") or {}),
                                                   Context({}))
                    return d.allowed
                except Exception as e:  # noqa: BLE001
                    return ["Raise", type(e).__name__]

            cold = await ev(g, r)
            # the same request on a Guard that has already answered sibling requests (same type and id with
            # other attributes, other id, other type): the answer must not depend on that past
            g2 = Guard(pol, strict_types=c["strict"])
            sibs = [{**r, "attrs": {"k": "zz-other"}}, {**r, "attrs": {}}, {**r, "attrs": {"k": 1, "x": 2}},
                    {**r, "id": "zz-other-id"}, {**r, "type": "img"}]
            for sres in sibs:
                await ev(g2, sres)
            warm = await ev(g2, r)
            out.append(cold if warm == cold else ["History", cold, warm])

    asyncio.run(go())
    return out


def check_morph_cases(chk, direct, eng):
    """the model's answer for the target as written NOW is the only allowed one, whatever the object held before"""
    lines = [lib.model_call("target.resource", c["rdef"], c["resource"], c["strict"]) for c in direct]
    lines += [lib.model_call("target.resource", c["rdef"], {**c["resource"]}, True if c["strict"] else None) for c in eng]
    uniq = sorted(set(lines))
    ans = dict(zip(uniq, (lib.dec(x) for x in lib.run_model(RUNNER, uniq)))) if uniq else {}
    for c, line in zip(direct, lines):
        m = ans[line]
        i = run_morph_direct(c)
        if i is None:
            continue
        chk.count("fam:morph:" + c["edit"])
        if m == ["Ood"]:
            chk.count("ood")
            chk.mark(("ood", repr(c)), False)
            continue
        mm = ["Raise"] if isinstance(m, list) and m[0] == "Raise" else m
        chk.mark(repr(c), isinstance(m, bool))
        chk.sample({**c, "impl": i, "model": m}, every=997)
        if i["now"] != mm:
            chk.violation(f"{c.get('of', 'target')} clause on a target object that match_resource had seen in an earlier "
                          f"state (edit '{c['edit']}', then edited in place into this target; the earlier state answered "
                          f"{i['earlier_state']}): implementation {i['now']}, documented meaning of the target as written "
                          f"now (model Target.v, props/C05.v) {mm}", c, impl=i, model=m)
    iouts = run_engine_morph_cases(eng) if eng else []
    for c, line, got in zip(eng, lines[len(direct):], iouts):
        m = ans[line]
        if got is None:
            continue
        chk.count("fam:engine-morph:" + c["shape"])
        chk.count("fam:engine-morph:" + c["edit"])
        if m == ["Ood"] or not isinstance(m, bool):
            chk.count("ood")
            continue
        chk.mark(("engine-morph", repr(c)), True)
        want = (not m) if c["shape"] == "shadow" else m
        for how, a in got:
            chk.count("engine_morph_result:" + str(a))
            if a != want:
                chk.violation(f"engine path {c['shape']} strict={c['strict']}: the rule's target, matched once in an earlier "
                              f"state (edit '{c['edit']}'), was edited in place inside the policy document; then {how}: "
                              f"allowed={a}, but the target as written now {'matches' if m else 'does not match'} in that mode"
                              f"{' (the rule under test denies, a wildcard rule permits)' if c['shape'] == 'shadow' else ''} "
                              "(c05_applicable_only_if_target_matches, c05_engine_mode)", c, impl=got, model=m)
                break


def check_cases(chk, cases, replay=False):
    direct = [c for c in cases if c.get("fam") not in ("engine", "morph", "engine-morph")]
    eng = [c for c in cases if c.get("fam") == "engine"]
    check_morph_cases(chk, [c for c in cases if c.get("fam") == "morph"],
                      [c for c in cases if c.get("fam") == "engine-morph"])
    lines = []
    for c in direct:
        if c["fam"] == "actions":
            lines.append(lib.model_call("target.actions", c["rule"], c["action"]))
        else:
            lines.append(lib.model_call("target.resource", c["rdef"], c["resource"], c["strict"]))
    outs = [lib.dec(x) for x in lib.run_model(RUNNER, lines)]
    for c, m in zip(direct, outs):
        chk.count("fam:" + c["fam"])
        if c["fam"] == "actions":
            i = impl_match_actions(c["rule"], c["action"])
        else:
            i = impl_match_resource(c["rdef"], c["resource"], c["strict"])
        if m == ["Ood"]:
            chk.count("ood")
            chk.mark(("ood", repr(c)), False)
            continue
        mm = ["Raise"] if isinstance(m, list) and m[0] == "Raise" else m
        chk.mark(repr(c), isinstance(m, bool))
        chk.count("result:" + str(mm))
        chk.sample({**c, "impl": i, "model": m}, every=997)
        if i != mm:
            chk.violation(f"{c['fam']} clause: implementation {i}, documented meaning (model Target.v, props/C05.v) {mm}",
                          c, impl=i, model=m)
    if eng:
        lines = [lib.model_call("target.resource", c["rdef"], {**c["resource"]}, True if c["strict"] else None)
                 for c in eng]
        mouts = [lib.dec(x) for x in lib.run_model(RUNNER, lines)]
        iouts = run_engine_cases(eng)
        for c, m, i in zip(eng, mouts, iouts):
            chk.count("fam:engine:" + c["shape"])
            if m == ["Ood"]:
                chk.count("ood")
                continue
            chk.mark(("engine", repr(c)), True)
            chk.count("engine_result:" + str(i))
            if isinstance(i, list) and i and i[0] == "History":
                chk.violation(f"engine path {c['shape']} strict={c['strict']}: a fresh Guard answers allowed={i[1]} but a Guard "
                              f"that has answered sibling requests (other attributes / id / type) answers {i[2]} for the "
                              f"same request; the target {'matches' if m is True else 'does not match'} (c05_applicable_only_if_target_matches, c05_engine_mode)",
                              c, impl=i, model=m)
            elif c["shape"] == "shadow":
                if isinstance(m, bool) and i != (not m):
                    chk.violation(f"engine path with a wildcard permit behind a denying rule, strict={c['strict']}: allowed={i} "
                                  f"but the denying rule's target {'matches' if m else 'does not match'} in that mode "
                                  "(c05_applicable_only_if_target_matches, c05_engine_mode)", c, impl=i, model=m)
            elif i != m:
                chk.violation(f"engine path {c['shape']} strict={c['strict']}: allowed={i} but the target "
                              f"{'matches' if m is True else 'does not match'} in that mode (c05_applicable_only_if_target_matches, c05_engine_mode)",
                              c, impl=i, model=m)


def corpus_cases():
    import json
    out = []
    for f in sorted((lib.VERIF / "corpus" / "C05").glob("*.json")):
        for c in json.loads(f.read_text())["cases"]:
            c = lib.unjson(c)
            out.append(c)
    return out


def run(chk):
    chk.rule = ("enumerated cross products: rule type (string/list/'*'/absent/non-string) x request type; rule id x "
                "request id over a pool of near-duplicates (1, '1', 1.0, True, ...); attribute value x request "
                "attribute (scalars, one-of lists, objects) x attrs/attributes key; structural cases; action lists; "
                "each in lax, strict and legacy-flag mode; plus end-to-end through Guard(strict_types) as single "
                "policy (compiled path), policy set and nested set; plus the same target OBJECT seen by the library "
                "in an earlier state (id / type / one list element / one attrs value changed, list shorter, keys "
                "added or removed; other values or the request's own), edited in place, then matched again directly "
                "and through update_policy / set_policy / a new Guard / plain evaluate() on the same objects "
                "(quick: a rotating quarter of the direct cases and one shape+edit per engine pair). "
                "non-trivial = the model answers a boolean; "
                "distinct = distinct case")
    chk.assumptions = ["str() of values containing non-printable/non-ASCII strings inside containers is outside the model (ood)"]
    direct = gen_direct(chk)
    cases = corpus_cases() + direct + engine_cases(chk) + morph_direct_cases(chk, direct) + engine_morph_cases(chk)
    check_cases(chk, cases)
    chk.exhaustive = True
