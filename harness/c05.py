"""C05 — targets match as documented in lax and strict mode, on every path.

Correspondence: rbacx.core.policy.match_resource / match_actions against the model
(Target.v; props/C05.v characterises it clause by clause), and end to end through
Guard(strict_types=...) for single policies (compiled path), the interpreter and
policy sets: the decision must be permit iff the model's target predicate holds in
the engine's mode."""
import asyncio
import itertools

import gen
import lib

RUNNER = "engine"

ID_POOL = [None, 1, "1", 1.0, True, "True", 0, "0", False, "", "a", "A", [1], "[1]", {"a": 1}, "None", 2**53 + 1,
           float(2**53), "é", -0.0, 0.0]
TYPE_POOL = [None, "doc", "Doc", "*", "", 1, "1", True, ["doc"], ["doc", "img"], ["*"], [1], ["1"], [], ["img", "*"],
             {"a": 1}, [1, 2], [1.0, 2.0], [True, 2]]
RES_TYPE_POOL = [None, "doc", "img", "*", "", 1, "1", True, ["doc"], 1.0]
ATTR_VALS = [None, 1, "1", 1.0, True, "a", ["a", "b"], [1, "1"], [], {"k": 1}, "['a', 'b']", 0, False, "",
             # one-of lists that are equal as Python values (== and hash) but spelt differently
             [1, 2], [1.0, 2.0], [True, 2], [0, 5], [False, 5.0], [None], [None, 1]]


def impl_match_resource(rdef, resource, strict_arg):
    from rbacx.core.policy import match_resource

    try:
        if strict_arg is None:
            return bool(match_resource(rdef, resource))
        return bool(match_resource(rdef, resource, strict=strict_arg))
    except Exception as e:  # noqa: BLE001
        return ["Raise"]


def impl_match_actions(rule, action):
    from rbacx.core.policy import match_actions

    try:
        return bool(match_actions(rule, action))
    except Exception:  # noqa: BLE001
        return ["Raise"]


def gen_direct(chk):
    cases = []
    # type x res_type
    for t, rt in itertools.product(TYPE_POOL, RES_TYPE_POOL):
        for strict in (None, True, False):
            rdef = {} if t is None else {"type": gen.fresh(t)}
            if t is None:
                rdef = {"id": None}
            cases.append({"fam": "type", "rdef": rdef, "resource": {"type": gen.fresh(rt), "id": "1", "attrs": {}},
                          "strict": strict})
    # id x res_id
    for i, ri in itertools.product(ID_POOL, ID_POOL):
        for strict in (None, True):
            cases.append({"fam": "id", "rdef": {"type": "doc", "id": gen.fresh(i)},
                          "resource": {"type": "doc", "id": gen.fresh(ri), "attrs": {}}, "strict": strict})
    # attrs: value x value, key variants
    for v, rv in itertools.product(ATTR_VALS, ATTR_VALS):
        for strict in (None, True):
            for rkey, skey in (("attrs", "attrs"), ("attributes", "attrs"), ("attrs", "attributes")):
                cases.append({"fam": "attr", "rdef": {"type": "doc", rkey: {"k": gen.fresh(v)}},
                              "resource": {"type": "doc", "id": "1", skey: {"k": gen.fresh(rv)}}, "strict": strict})
    # structure: missing attribute, missing attrs, empty attrs falling through to attributes, several keys, legacy flag
    structs = [
        ({"type": "doc", "attrs": {"k": 1}}, {"type": "doc", "id": "1", "attrs": {}}),
        ({"type": "doc", "attrs": {"k": 1}}, {"type": "doc", "id": "1"}),
        ({"type": "doc", "attrs": {"k": None}}, {"type": "doc", "attrs": {}}),
        ({"type": "doc", "attrs": {"k": None}}, {"type": "doc", "attrs": {"k": None}}),
        ({"type": "doc", "attrs": {}, "attributes": {"k": 1}}, {"type": "doc", "attrs": {"k": 2}}),
        ({"type": "doc", "attrs": {"k": 1}, "attributes": {"k": 2}}, {"type": "doc", "attrs": {"k": 2}}),
        ({"type": "doc", "attrs": {"a": 1, "b": 2}}, {"type": "doc", "attrs": {"a": 1, "b": 3}}),
        ({"type": "doc", "attrs": {"a": 1, "b": 2}}, {"type": "doc", "attrs": {"b": 2, "a": 1, "c": 0}}),
        ({"type": "doc", "attrs": "x"}, {"type": "doc", "attrs": {"a": 1}}),
        ({"type": "doc", "attrs": {"a": 1}}, {"type": "doc", "attrs": "x"}),
        ({"type": "doc", "attrs": {"a": 1}}, {"type": "doc", "attrs": {}, "attributes": {"a": 1}}),
        ({}, {"type": "doc"}), ({"id": 1}, {"type": None, "id": 1}), ({"id": 1}, {}),
        ({"type": "doc", "id": 1}, {"type": "doc", "id": "1", "__strict_types__": True}),
        ({"type": "doc", "attrs": {"a": 1}}, {"type": "doc", "attrs": {"a": "1"}, "__strict_types__": True}),
        ({"type": "doc", "attrs": {"a": 1}}, {"type": "doc", "attrs": {"a": "1"}, "__strict_types__": 0}),
        ({"type": "doc", "attrs": {"m": {"a": 1, "b": 2}}}, {"type": "doc", "attrs": {"m": {"b": 2, "a": 1}}}),
        ({"type": "doc", "attrs": {"m": {"a": 1, "b": 2}}}, {"type": "doc", "attrs": {"m": {"a": 1, "b": 2}}}),
    ]
    for rdef, res in structs:
        for strict in (None, True, False):
            cases.append({"fam": "struct", "rdef": rdef, "resource": res, "strict": strict})
    for rdef in (None, 5, "x", [], [1]):
        cases.append({"fam": "struct", "rdef": rdef, "resource": {"type": "doc"}, "strict": None})
    # actions
    for acts in (["read"], ["write"], ["*"], ["write", "read"], [], ["Read"], [1, "read"], [None], "read", None, 5,
                 {"read": 1}, ["read", "*"], ["rea", "d"], [["read"]], ["*read"]):
        for a in ("read", "*", "", "Read", "write"):
            cases.append({"fam": "actions", "rule": {"actions": acts}, "action": a})
    return cases


def engine_cases(chk):
    """end to end: one permit rule with the target, through Guard in both modes, as single policy,
    inside a set and nested set; permit iff the target matches in the engine's mode."""
    cases = []
    rng = chk.rng
    targets = []
    for i, ri in itertools.product([1, "1", 1.0, True, "a", None], [1, "1", 1.0, True, "a", None, 0]):
        targets.append(({"type": "doc", "id": i}, {"type": "doc", "id": ri, "attrs": {}}))
    for v, rv in itertools.product([1, "1", [1, "2"], ["1"], True, None, "a"], [1, "1", "2", 2, True, None, "a"]):
        targets.append(({"type": "doc", "attrs": {"k": v}}, {"type": "doc", "id": "x", "attrs": {"k": rv}}))
    for t, rt in itertools.product(["doc", ["doc", "img"], "*", ["*"], "1", ["1"]], ["doc", "img", 1, "1", None, "*"]):
        targets.append(({"type": t}, {"type": rt, "id": "x", "attrs": {}}))
    for rdef, res in targets:
        for strict in (False, True):
            for shape in ("single", "set", "nested", "shadow"):
                cases.append({"fam": "engine", "rdef": rdef, "resource": res, "strict": strict, "shape": shape})
    if chk.tier == "quick":
        cases = [c for i, c in enumerate(cases) if i % 2 == chk.seed % 2 or c["shape"] in ("single", "shadow")]
    return cases


def run_engine_cases(cases):
    from rbacx.core.engine import Guard
    from rbacx.core.model import Action, Context, Resource, Subject

    out = []

    async def go():
        for c in cases:
            rule = {"id": "r", "effect": "permit", "actions": ["read"], "resource": c["rdef"]}
            pol = {"algorithm": "deny-overrides", "rules": [rule]}
            if c["shape"] == "shadow":
                # the rule under test DENIES, a wildcard rule permits: allowed iff the target does NOT match
                # (a rule whose target does not match must not shadow the more general rule, on any path)
                pol = {"algorithm": "deny-overrides", "rules": [dict(rule, effect="deny"),
                                                               {"id": "any", "effect": "permit", "actions": ["read"], "resource": {"type": "*"}}]}
            elif c["shape"] == "set":
                pol = {"algorithm": "deny-overrides", "policies": [{"id": "p", **pol}]}
            elif c["shape"] == "nested":
                pol = {"algorithm": "permit-overrides",
                       "policies": [{"id": "outer", "algorithm": "first-applicable", "policies": [{"id": "p", **pol}]}]}
            g = Guard(pol, strict_types=c["strict"])
            r = c["resource"]

            async def ev(guard, rr):
                try:
                    d = await guard.evaluate_async(Subject(id="u"), Action("read"),
                                                   Resource(type=rr.get("type"), id=rr.get("id"), attrs=rr.get("attrs") or {}),
                                                   Context({}))
                    return d.allowed
                except Exception as e:  # noqa: BLE001
                    return ["Raise", type(e).__name__]

            cold = await ev(g, r)
            # the same request on a Guard that has already answered sibling requests (same type and id with
            # other attributes, other id, other type): the answer must not depend on that past
            g2 = Guard(pol, strict_types=c["strict"])
            sibs = [{**r, "attrs": {"k": "zz-other"}}, {**r, "attrs": {}}, {**r, "attrs": {"k": 1, "x": 2}},
                    {**r, "id": "zz-other-id"}, {**r, "type": "img"}]
            for sres in sibs:
                await ev(g2, sres)
            warm = await ev(g2, r)
            out.append(cold if warm == cold else ["History", cold, warm])

    asyncio.run(go())
    return out


def check_cases(chk, cases, replay=False):
    direct = [c for c in cases if c.get("fam") != "engine"]
    eng = [c for c in cases if c.get("fam") == "engine"]
    lines = []
    for c in direct:
        if c["fam"] == "actions":
            lines.append(lib.model_call("target.actions", c["rule"], c["action"]))
        else:
            lines.append(lib.model_call("target.resource", c["rdef"], c["resource"], c["strict"]))
    outs = [lib.dec(x) for x in lib.run_model(RUNNER, lines)]
    for c, m in zip(direct, outs):
        chk.count("fam:" + c["fam"])
        if c["fam"] == "actions":
            i = impl_match_actions(c["rule"], c["action"])
        else:
            i = impl_match_resource(c["rdef"], c["resource"], c["strict"])
        if m == ["Ood"]:
            chk.count("ood")
            chk.mark(("ood", repr(c)), False)
            continue
        mm = ["Raise"] if isinstance(m, list) and m[0] == "Raise" else m
        chk.mark(repr(c), isinstance(m, bool))
        chk.count("result:" + str(mm))
        chk.sample({**c, "impl": i, "model": m}, every=997)
        if i != mm:
            chk.violation(f"{c['fam']} clause: implementation {i}, documented meaning (model Target.v, props/C05.v) {mm}",
                          c, impl=i, model=m)
    if eng:
        lines = [lib.model_call("target.resource", c["rdef"], {**c["resource"]}, True if c["strict"] else None)
                 for c in eng]
        mouts = [lib.dec(x) for x in lib.run_model(RUNNER, lines)]
        iouts = run_engine_cases(eng)
        for c, m, i in zip(eng, mouts, iouts):
            chk.count("fam:engine:" + c["shape"])
            if m == ["Ood"]:
                chk.count("ood")
                continue
            chk.mark(("engine", repr(c)), True)
            chk.count("engine_result:" + str(i))
            if isinstance(i, list) and i and i[0] == "History":
                chk.violation(f"engine path {c['shape']} strict={c['strict']}: a fresh Guard answers allowed={i[1]} but a Guard "
                              f"that has answered sibling requests (other attributes / id / type) answers {i[2]} for the "
                              f"same request; the target {'matches' if m is True else 'does not match'} (c05_applicable_only_if_target_matches, c05_engine_mode)",
                              c, impl=i, model=m)
            elif c["shape"] == "shadow":
                if isinstance(m, bool) and i != (not m):
                    chk.violation(f"engine path with a wildcard permit behind a denying rule, strict={c['strict']}: allowed={i} "
                                  f"but the denying rule's target {'matches' if m else 'does not match'} in that mode "
                                  "(c05_applicable_only_if_target_matches, c05_engine_mode)", c, impl=i, model=m)
            elif i != m:
                chk.violation(f"engine path {c['shape']} strict={c['strict']}: allowed={i} but the target "
                              f"{'matches' if m is True else 'does not match'} in that mode (c05_applicable_only_if_target_matches, c05_engine_mode)",
                              c, impl=i, model=m)


def corpus_cases():
    import json
    out = []
    for f in sorted((lib.VERIF / "corpus" / "C05").glob("*.json")):
        for c in json.loads(f.read_text())["cases"]:
            c = lib.unjson(c)
            out.append(c)
    return out


def run(chk):
    chk.rule = ("enumerated cross products: rule type (string/list/'*'/absent/non-string) x request type; rule id x "
                "request id over a pool of near-duplicates (1, '1', 1.0, True, ...); attribute value x request "
                "attribute (scalars, one-of lists, objects) x attrs/attributes key; structural cases; action lists; "
                "each in lax, strict and legacy-flag mode; plus end-to-end through Guard(strict_types) as single "
                "policy (compiled path), policy set and nested set. non-trivial = the model answers a boolean; "
                "distinct = distinct case")
    chk.assumptions = ["str() of values containing non-printable/non-ASCII strings inside containers is outside the model (ood)"]
    cases = corpus_cases() + gen_direct(chk) + engine_cases(chk)
    check_cases(chk, cases)
    chk.exhaustive = True
