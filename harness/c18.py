"""C18 — role expansion = reflexive-transitive closure, used as is by the engine.

Correspondence: StaticRoleResolver.expand vs the extracted Coq model Roles.expand
(the closure theorem makes the model's answer the unique answer the property
allows, so any difference is a violation with the case as failing input); and
Guard(role_resolver=...) with sync / async / raising resolvers: the roles seen by
conditions and by the audit payload are exactly that list (or the subject's own
roles when the resolver fails)."""
import asyncio
import itertools

import lib


def _model_expand(cases):
    lines = [lib.model_call("roles.expand", c["graph"], c["roles"]) for c in cases]
    return [lib.dec(x) for x in lib.run_model("roles", lines)]


def gen_cases(chk):
    rng = chk.rng
    names = ["a", "b", "c"]
    cases = []
    # every graph on 3 names (each node: any subset of parents, in name order) x every role list of
    # length <= 3 over the 3 names + one name absent from the graph
    subsets = [list(s) for k in range(4) for s in itertools.combinations(names, k)]
    pool = names + ["zz"]
    rolelists = [list(t) for k in range(4) for t in itertools.product(pool, repeat=k)]
    graphs = [dict(zip(names, ps)) for ps in itertools.product(subsets, repeat=3)]
    step = 1 if chk.tier == "thorough" else 3
    for gi, g in enumerate(graphs):
        for ri, rl in enumerate(rolelists):
            if (gi + ri) % step == 0:
                cases.append({"graph": g, "roles": rl, "fam": "enum3"})
    chk.exhaustive = step == 1
    # None / empty
    cases.append({"graph": {"a": ["b"]}, "roles": None, "fam": "none"})
    cases.append({"graph": {}, "roles": ["x", "x"], "fam": "emptygraph"})
    # no graph at all: StaticRoleResolver() / StaticRoleResolver(None) behave like the empty graph
    for rl in (["x", "x"], ["b", "a"], [], None):
        cases.append({"graph": {}, "roles": rl, "fam": "nograph", "ctor": "none"})
        cases.append({"graph": {}, "roles": rl, "fam": "nograph", "ctor": "default"})
    # random larger graphs: cycles, diamonds, self-loops, duplicate parents, keys missing, non-ASCII names
    n_rand = 1000 if chk.tier == "quick" else 14000
    for _ in range(n_rand):
        n = rng.randint(1, 30)
        nodes = [rng.choice(["r", "Role", "é", "ß", "role-", ""]) + str(i) for i in range(n)]
        g = {}
        for x in nodes:
            if rng.random() < 0.8:
                k = rng.choice([0, 1, 1, 2, 3, 5])
                ps = [rng.choice(nodes + ["ghost"]) for _ in range(k)]
                if ps and rng.random() < 0.2:
                    ps.append(ps[0])  # duplicate parent
                if rng.random() < 0.1:
                    ps.append(x)  # self-loop
                g[x] = ps
        for _q in range(3):        # several queries per graph: the shared-instance run enters the graph at different roles
            rl = [rng.choice(nodes + ["nobody"]) for _ in range(rng.choice([0, 1, 1, 2, 3, 6]))]
            cases.append({"graph": g, "roles": rl, "fam": "random"})
    return cases


def impl_expand(c):
    from rbacx.core.roles import StaticRoleResolver

    try:
        if c.get("ctor") == "none":
            return StaticRoleResolver(None).expand(c["roles"])
        if c.get("ctor") == "default":
            return StaticRoleResolver().expand(c["roles"])
        return StaticRoleResolver(c["graph"]).expand(c["roles"])
    except Exception as e:  # noqa: BLE001
        return ["!raise", type(e).__name__]


_SHARED = {}


def impl_expand_shared(c):
    """the same query on a resolver instance that has already answered other queries for this graph"""
    import copy
    from rbacx.core.roles import StaticRoleResolver

    key = repr(c["graph"])
    if c.get("history") is not None:            # replay of a recorded failure: same instance history
        g = copy.deepcopy(c["graph"])
        inst, hist = StaticRoleResolver(g), []
        for q in c["history"]:
            try:
                inst.expand(None if q is None else list(q))
            except Exception:  # noqa: BLE001
                pass
    else:
        if key not in _SHARED:
            if len(_SHARED) > 64:
                _SHARED.clear()
            g = copy.deepcopy(c["graph"])
            _SHARED[key] = (StaticRoleResolver(g), g, [])
        inst, g, hist = _SHARED[key]
        c["_hist"] = list(hist)
        hist.append(c["roles"])
    try:
        out = inst.expand(None if c["roles"] is None else list(c["roles"]))
    except Exception as e:  # noqa: BLE001
        out = ["!raise", type(e).__name__]
    if g != c["graph"]:
        out = ["!graph-mutated", out]
    return out


def engine_roles(c, flavour, cache=False):
    """roles as conditions and the audit sink see them through Guard."""
    from rbacx.core.engine import Guard
    from rbacx.core.model import Action, Context, Resource, Subject
    from rbacx.core.roles import StaticRoleResolver

    base = StaticRoleResolver(c["graph"])

    class SyncR:
        def expand(self, roles):
            return base.expand(roles)

    class AsyncR:
        async def expand(self, roles):
            await asyncio.sleep(0)
            return base.expand(roles)

    class RaisingR:
        def expand(self, roles):
            raise RuntimeError("resolver down")

    class AsyncRaisingR:                      # fails while awaited, not at the call
        async def expand(self, roles):
            await asyncio.sleep(0)
            raise RuntimeError("resolver down (awaited)")

    class DefRaisingAwaitableR:               # plain def handing back an awaitable that fails
        def expand(self, roles):
            async def later():
                raise RuntimeError("resolver down (awaitable)")
            return later()

    class _Later:                             # awaitable only through __await__
        def __init__(self, roles):
            self.roles = roles

        def __await__(self):
            return AsyncR().expand(self.roles).__await__()

    class CustomAwaitableR:
        def expand(self, roles):
            return _Later(roles)

    class DefCoroutineR:                      # plain def delegating to an async implementation
        def expand(self, roles):
            return AsyncR().expand(roles)

    class Sink:
        def __init__(self):
            self.payloads = []

        def log(self, payload):
            self.payloads.append(payload)

    universe = sorted(set(c["graph"]) | {p for ps in c["graph"].values() for p in ps} | set(c["roles"] or []))
    ref = {"attr": "subject.roles"}
    # membership of one role, through each of the four operators of the property text in turn
    # (theorems c18_has_any / c18_has_all / c18_contains / c18_in: all four decide `r in roles`)
    forms = [lambda r: {"hasAny": [ref, [r]]}, lambda r: {"hasAll": [ref, [r]]},
             lambda r: {"contains": [ref, r]}, lambda r: {"in": [r, ref]}]
    rules = [{"id": f"r{i}", "effect": "permit", "actions": [f"a{i}"], "resource": {"type": "doc"},
              "condition": forms[(i + len(universe)) % 4](r)} for i, r in enumerate(universe)]
    pol = {"algorithm": "deny-overrides", "rules": rules}
    sink = Sink()
    res = {"sync": SyncR, "async": AsyncR, "raising": RaisingR, "raising-async": AsyncRaisingR,
           "raising-awaitable": DefRaisingAwaitableR, "def-coroutine": DefCoroutineR,
           "custom-awaitable": CustomAwaitableR}[flavour]()
    kw = {}
    if cache:
        from rbacx.core.cache import DefaultInMemoryCache
        kw["cache"] = DefaultInMemoryCache(256)
    g = Guard(pol, role_resolver=res, logger_sink=sink, **kw)
    subj = Subject(id="u", roles=list(c["roles"] or []))
    seen = []

    async def go():
        for rnd in range(2 if cache else 1):       # with a cache: every request again (served from the cache)
            for i, r in enumerate(universe):
                d = await g.evaluate_async(subj, Action(f"a{i}"), Resource(type="doc", id="1"), Context({}))
                if d.allowed and rnd == 0:
                    seen.append(r)
                elif rnd == 1 and d.allowed != (r in seen):
                    seen.append("!cached-decision-differs:" + r)

    try:
        asyncio.run(go())
    except Exception as e:  # noqa: BLE001  (an evaluation that raises is reported through `seen`)
        seen.append("!evaluation-raised:" + type(e).__name__)
    audit = [p["env"]["subject"]["roles"] for p in sink.payloads]
    return sorted(seen), audit, universe


def check_cases(chk, cases, replay=False):
    model = _model_expand(cases)
    for c, m in zip(cases, model):
        out = impl_expand(c)
        nontriv = bool(c["roles"]) and any(c["graph"].get(r) for r in (c["roles"] or []))
        chk.mark(("expand", repr(c["graph"]), repr(c["roles"])), nontriv)
        chk.count("fam:" + c.get("fam", "?"))
        chk.count("out_len:%d" % min(len(out), 6))
        chk.sample({"graph": c["graph"], "roles": c["roles"], "impl": out, "model": m}, every=9973)
        if out != m:
            chk.violation("expand != reflexive-transitive closure, sorted, deduplicated (model Roles.expand, "
                          "theorems c18_closure/c18_sorted_nodup)", c, impl=out, model=m)
            continue
        out2 = impl_expand_shared(c)
        if out2 != m:
            chk.violation("expand on a resolver instance that has answered earlier queries for the same graph != "
                          "reflexive-transitive closure (the answer must not depend on earlier queries)",
                          {"graph": c["graph"], "roles": c["roles"], "fam": c.get("fam"),
                           "history": c.get("history", c.get("_hist", []))}, impl=out2, model=m)
    # engine part on a subset
    sub = [c for i, c in enumerate(cases) if c.get("engine") or (not replay and i % (97 if chk.tier == "quick" else 23) == 0)]
    if replay:
        sub = [c for c in cases if c.get("engine")]
    msub = _model_expand(sub)
    for c, m in zip(sub, msub):
        for flavour, cache in (("sync", False), ("async", False), ("raising", False), ("sync", True), ("async", True),
                               ("raising-async", False), ("raising-awaitable", False), ("def-coroutine", False), ("custom-awaitable", False),
                               ("raising-async", True)):
            seen, audit, universe = engine_roles(c, flavour, cache)
            own = list(c["roles"] or [])
            expect = m if not flavour.startswith("raising") else own
            chk.mark(("engine", flavour, repr(c["graph"]), repr(c["roles"])), bool(universe))
            chk.count("engine:" + flavour + ("+cache" if cache else ""))
            flavour = flavour + (" resolver, decision cache on, every request twice" if cache else "")
            want_seen = sorted(set(expect) & set(universe))
            if seen != want_seen:
                chk.violation(f"conditions do not see exactly the expanded roles ({flavour} resolver; theorems c18_engine_roles/c18_has_any/c18_has_all/c18_contains/c18_in)",
                              {**c, "engine": True}, impl=seen, model=want_seen)
            if any(a != expect for a in audit):
                chk.violation(f"audit payload roles differ from the expanded roles ({flavour} resolver; theorem c18_audit_roles)",
                              {**c, "engine": True}, impl=audit[:2], model=expect)


def run(chk):
    chk.rule = ("enumerated: every inheritance graph on 3 role names x every role list of length <= 3 over those "
                "names and one absent name (quick: every 3rd), plus random graphs up to 30 nodes with cycles, "
                "self-loops, duplicate parents, ghost parents, non-ASCII names; a subset also through Guard with "
                "sync/async/raising resolvers. non-trivial = some given role has at least one parent; distinct = "
                "distinct (graph, roles[, resolver flavour])")
    chk.assumptions = ["role names are strings (what the property quantifies over)",
                       "Python str ordering on code points = byte order of the UTF-8 encoding (model sorts bytes)"]
    check_cases(chk, gen_cases(chk))
