"""C18 — role expansion = reflexive-transitive closure, used as is by the engine.

Correspondence: StaticRoleResolver.expand vs the extracted Coq model Roles.expand
(the closure theorem makes the model's answer the unique answer the property
allows, so any difference is a violation with the case as failing input); and
Guard(role_resolver=...) with sync / async / raising resolvers: the roles seen by
conditions and by the audit payload are exactly that list (or the subject's own
roles when the resolver fails)."""
import asyncio
import itertools

import lib


def _model_expand(cases):
    lines = [lib.model_call("roles.expand", c["graph"], c["roles"]) for c in cases]
    return [lib.dec(x) for x in lib.run_model("roles", lines)]


def gen_cases(chk):
    rng = chk.rng
    names = ["a", "b", "c"]
    cases = []
    # every graph on 3 names (each node: any subset of parents, in name order) x every role list of
    # length <= 3 over the 3 names + one name absent from the graph
    subsets = [list(s) for k in range(4) for s in itertools.combinations(names, k)]
    pool = names + ["zz"]
    rolelists = [list(t) for k in range(4) for t in itertools.product(pool, repeat=k)]
    graphs = [dict(zip(names, ps)) for ps in itertools.product(subsets, repeat=3)]
    step = 1 if chk.tier == "thorough" else 3
    for gi, g in enumerate(graphs):
        for ri, rl in enumerate(rolelists):
            if (gi + ri) % step == 0:
                cases.append({"graph": g, "roles": rl, "fam": "enum3"})
    chk.exhaustive = step == 1
    # None / empty
    cases.append({"graph": {"a": ["b"]}, "roles": None, "fam": "none"})
    cases.append({"graph": {}, "roles": ["x", "x"], "fam": "emptygraph"})
    # no graph at all: StaticRoleResolver() / StaticRoleResolver(None) behave like the empty graph
    for rl in (["x", "x"], ["b", "a"], [], None):
        cases.append({"graph": {}, "roles": rl, "fam": "nograph", "ctor": "none"})
        cases.append({"graph": {}, "roles": rl, "fam": "nograph", "ctor": "default"})
    # random larger graphs: cycles, diamonds, self-loops, duplicate parents, keys missing, non-ASCII names
    n_rand = 1000 if chk.tier == "quick" else 14000
    for _ in range(n_rand):
        n = rng.randint(1, 30)
        nodes = [rng.choice(["r", "Role", "é", "ß", "role-", ""]) + str(i) for i in range(n)]
        g = {}
        for x in nodes:
            if rng.random() < 0.8:
                k = rng.choice([0, 1, 1, 2, 3, 5])
                ps = [rng.choice(nodes + ["ghost"]) for _ in range(k)]
                if ps and rng.random() < 0.2:
                    ps.append(ps[0])  # duplicate parent
                if rng.random() < 0.1:
                    ps.append(x)  # self-loop
                g[x] = ps
        for _q in range(3):        # several queries per graph: the shared-instance run enters the graph at different roles
            rl = [rng.choice(nodes + ["nobody"]) for _ in range(rng.choice([0, 1, 1, 2, 3, 6]))]
            cases.append({"graph": g, "roles": rl, "fam": "random"})
    return cases


def impl_expand(c):
    from rbacx.core.roles import StaticRoleResolver

    try:
        if c.get("ctor") == "none":
            return StaticRoleResolver(None).expand(c["roles"])
        if c.get("ctor") == "default":
            return StaticRoleResolver().expand(c["roles"])
        return StaticRoleResolver(c["graph"]).expand(c["roles"])
    except Exception as e:  # noqa: BLE001
        return ["!raise", type(e).__name__]


_SHARED = {}


def impl_expand_shared(c):
    """the same query on a resolver instance that has already answered other queries for this graph"""
    import copy
    from rbacx.core.roles import StaticRoleResolver

    key = repr(c["graph"])
    if c.get("history") is not None:            # replay of a recorded failure: same instance history
        g = copy.deepcopy(c["graph"])
        inst, hist = StaticRoleResolver(g), []
        for q in c["history"]:
            try:
                inst.expand(None if q is None else list(q))
            except Exception:  # noqa: BLE001
                pass
    else:
        if key not in _SHARED:
            if len(_SHARED) > 64:
                _SHARED.clear()
            g = copy.deepcopy(c["graph"])
            _SHARED[key] = (StaticRoleResolver(g), g, [])
        inst, g, hist = _SHARED[key]
        c["_hist"] = list(hist)
        hist.append(c["roles"])
    try:
        out = inst.expand(None if c["roles"] is None else list(c["roles"]))
    except Exception as e:  # noqa: BLE001
        out = ["!raise", type(e).__name__]
    if g != c["graph"]:
        out = ["!graph-mutated", out]
    return out


def _prior_policy(kind, universe):
    """a policy the Guard held before the roles-testing one was installed (Guards 'with a past')"""
    if kind == "empty":
        return {"algorithm": "deny-overrides", "rules": []}
    if kind == "noroles":          # decides on other attributes only
        return {"algorithm": "permit-overrides", "rules": [
            {"id": "p0", "effect": "permit", "actions": ["a0", "boot"], "resource": {"type": "doc"},
             "condition": {"==": [{"attr": "subject.id"}, "nobody"]}}]}
    if kind == "noroles-set":      # a policy set, still no mention of roles
        return {"algorithm": "deny-overrides", "policies": [
            {"id": "ps0", "algorithm": "deny-overrides", "rules": [
                {"id": "p0", "effect": "deny", "actions": ["boot"], "resource": {"type": "doc"}}]}]}
    if kind == "otherroles":       # tests the roles too, but differently
        return {"algorithm": "deny-overrides", "rules": [
            {"id": "p0", "effect": "permit", "actions": ["boot"], "resource": {"type": "doc"},
             "condition": {"hasAny": [{"attr": "subject.roles"}, ["!no-such-role"]]}}]}
    raise ValueError("unknown prior policy kind " + repr(kind))


PRIOR_KINDS = ("empty", "noroles", "noroles-set", "otherroles")
PAST_HOWS = ("set_policy", "update_policy", "reload")


def _install(g, how, pol):
    """replace the Guard's policy the way an application would"""
    if how == "set_policy":
        g.set_policy(pol)
    elif how == "update_policy":
        g.update_policy(pol)
    elif how == "reload":           # hot reload from a source whose content changed
        from rbacx.policy.loader import HotReloader

        class Src:
            def etag(self):
                return "v2"

            def load(self):
                return pol

        if not HotReloader(g, Src(), initial_load=True, poll_interval=None).check_and_reload():
            raise RuntimeError("C18 harness: hot reload did not apply the policy")
    else:
        raise ValueError("unknown way to install a policy " + repr(how))


def _roles_policy(universe):
    ref = {"attr": "subject.roles"}
    # membership of one role, through each of the four operators of the property text in turn
    # (theorems c18_has_any / c18_has_all / c18_contains / c18_in: all four decide `r in roles`)
    forms = [lambda r: {"hasAny": [ref, [r]]}, lambda r: {"hasAll": [ref, [r]]},
             lambda r: {"contains": [ref, r]}, lambda r: {"in": [r, ref]}]
    rules = [{"id": f"r{i}", "effect": "permit", "actions": [f"a{i}"], "resource": {"type": "doc"},
              "condition": forms[(i + len(universe)) % 4](r)} for i, r in enumerate(universe)]
    return {"algorithm": "deny-overrides", "rules": rules}


def _universe(graph, rolelists):
    return sorted(set(graph) | {p for ps in graph.values() for p in ps} | {r for rl in rolelists for r in (rl or [])})


def engine_roles(c, flavour, cache=False, sink=True, past=None):
    """roles as conditions and the audit sink see them through Guard.

    sink=False: no logger sink configured (roles observable through decisions only).
    past={"how": set_policy|update_policy|reload, "prior": [kinds...], "eval_before": bool}: the Guard is constructed
    with another policy (then possibly further ones), evaluates under it or not, and only then gets the roles-testing
    policy installed."""
    from rbacx.core.engine import Guard
    from rbacx.core.model import Action, Context, Resource, Subject
    from rbacx.core.roles import StaticRoleResolver

    base = StaticRoleResolver(c["graph"])

    class SyncR:
        def expand(self, roles):
            return base.expand(roles)

    class AsyncR:
        async def expand(self, roles):
            await asyncio.sleep(0)
            return base.expand(roles)

    class RaisingR:
        def expand(self, roles):
            raise RuntimeError("resolver down")

    class AsyncRaisingR:                      # fails while awaited, not at the call
        async def expand(self, roles):
            await asyncio.sleep(0)
            raise RuntimeError("resolver down (awaited)")

    class DefRaisingAwaitableR:               # plain def handing back an awaitable that fails
        def expand(self, roles):
            async def later():
                raise RuntimeError("resolver down (awaitable)")
            return later()

    class _Later:                             # awaitable only through __await__
        def __init__(self, roles):
            self.roles = roles

        def __await__(self):
            return AsyncR().expand(self.roles).__await__()

    class CustomAwaitableR:
        def expand(self, roles):
            return _Later(roles)

    class DefCoroutineR:                      # plain def delegating to an async implementation
        def expand(self, roles):
            return AsyncR().expand(roles)

    class Sink:
        def __init__(self):
            self.payloads = []

        def log(self, payload):
            self.payloads.append(payload)

    universe = _universe(c["graph"], [c["roles"]])
    pol = _roles_policy(universe)
    sink = Sink() if sink else None
    class ScribbleRaisingR:                   # edits the list it is handed, then fails (finding F28)
        def expand(self, roles):
            roles.append("!scribble")
            raise RuntimeError("resolver down (after editing its argument)")

    class ExtendRaisingR:                     # worklist on its argument, fails when done
        def expand(self, roles):
            roles.extend(x for x in base.expand(roles) if x not in roles)
            raise RuntimeError("resolver down (after expanding in place)")

    class AsyncExtendRaisingR:
        async def expand(self, roles):
            roles.extend(x for x in base.expand(roles) if x not in roles)
            await asyncio.sleep(0)
            roles.sort()
            raise RuntimeError("resolver down (after expanding in place, awaited)")

    # resolver objects that are falsy as Python objects: configured all the same, consulted like any other
    class FalsyListR(list):
        expand = SyncR.expand

    class FalsyDictR(dict):
        expand = SyncR.expand

    class FalsyLenR(SyncR):
        def __len__(self):
            return 0

    class FalsyBoolR(SyncR):
        def __bool__(self):
            return False

    class FalsyLenAsyncR(AsyncR):
        def __len__(self):
            return 0

    res = {"sync": SyncR, "async": AsyncR, "raising": RaisingR, "raising-async": AsyncRaisingR,
           "raising-awaitable": DefRaisingAwaitableR, "def-coroutine": DefCoroutineR,
           "custom-awaitable": CustomAwaitableR, "raising-scribble": ScribbleRaisingR, "raising-extend": ExtendRaisingR,
           "raising-extend-async": AsyncExtendRaisingR, "falsy-list": FalsyListR, "falsy-dict": FalsyDictR,
           "falsy-len0": FalsyLenR, "falsy-bool": FalsyBoolR, "falsy-len0-async": FalsyLenAsyncR}[flavour]()
    kw = {}
    if cache:
        from rbacx.core.cache import DefaultInMemoryCache
        kw["cache"] = DefaultInMemoryCache(256)
    subj = Subject(id="u", roles=list(c["roles"] or []))
    seen = []
    if past:
        priors = list(past.get("prior") or ["empty"])
        g = Guard(_prior_policy(priors[0], universe), role_resolver=res, logger_sink=sink, **kw)
        try:
            for k in priors[1:]:
                _install(g, past["how"], _prior_policy(k, universe))
            if past.get("eval_before"):
                # (its audit payload stays in the sink: the resolver is configured, so it carries expanded roles too)
                g.evaluate_sync(subj, Action("boot"), Resource(type="doc", id="1"), Context({}))
            _install(g, past["how"], pol)
        except Exception as e:  # noqa: BLE001
            seen.append("!install-raised:" + type(e).__name__)
    else:
        g = Guard(pol, role_resolver=res, logger_sink=sink, **kw)

    async def go():
        for rnd in range(2 if cache else 1):       # with a cache: every request again (served from the cache)
            for i, r in enumerate(universe):
                d = await g.evaluate_async(subj, Action(f"a{i}"), Resource(type="doc", id="1"), Context({}))
                if d.allowed and rnd == 0:
                    seen.append(r)
                elif rnd == 1 and d.allowed != (r in seen):
                    seen.append("!cached-decision-differs:" + r)

    try:
        asyncio.run(go())
    except Exception as e:  # noqa: BLE001  (an evaluation that raises is reported through `seen`)
        seen.append("!evaluation-raised:" + type(e).__name__)
    audit = [p["env"]["subject"]["roles"] for p in sink.payloads] if sink is not None else []
    return sorted(seen), audit, universe


# ---------------------------------------------------------------------------------------------------------------
# overlapping evaluations on one Guard: a resolver that suspends at a gate the harness controls
# ---------------------------------------------------------------------------------------------------------------

WATCHDOG = 60.0     # seconds; running into it is harness trouble (or a hang, which is C14's), never a verdict
PARK_WAIT = 3.0     # how long the controller waits for an evaluation to arrive at the gate (or to finish) before going on
GRACE = 0.5         # how long the controller waits for an evaluation that was not asked to park before going on;
                    # only shapes the schedule — the judgement holds for every schedule


class _Gate:
    """Parks resolver calls until the controller releases them.  No sleeps: a parked async call awaits a future of
    its own loop (set through call_soon_threadsafe), a parked sync call blocks on a threading.Event."""

    def __init__(self):
        import threading
        self.cv = threading.Condition()
        self.park_next = 0       # this many of the next calls park
        self.parked = []         # release callables in order of arrival (None once released)
        self.entered = 0
        self.open = False        # once open, nobody parks any more

    def _take(self):
        # under self.cv
        if self.open or self.park_next <= 0:
            return False
        self.park_next -= 1
        return True

    async def pass_async(self):
        with self.cv:
            if not self._take():
                return
            loop = asyncio.get_running_loop()
            fut = loop.create_future()

            def rel():
                try:
                    loop.call_soon_threadsafe(lambda: fut.done() or fut.set_result(None))
                except RuntimeError:      # loop already closed: nothing is waiting any more
                    pass
            self.parked.append(rel)
            self.entered += 1
            self.cv.notify_all()
        await fut

    def pass_sync(self):
        import threading
        with self.cv:
            if not self._take():
                return
            ev = threading.Event()
            self.parked.append(ev.set)
            self.entered += 1
            self.cv.notify_all()
        ev.wait(WATCHDOG)

    def release(self, which):
        with self.cv:
            idx = [i for i, r in enumerate(self.parked) if r is not None]
            if not idx:
                return
            i = idx[0] if which == "first" else idx[-1]
            rel, self.parked[i] = self.parked[i], None
        rel()

    def release_all(self):
        with self.cv:
            self.open = True
            rels, self.parked = [r for r in self.parked if r is not None], [None] * len(self.parked)
        for rel in rels:
            rel()


OVERLAP_FLAVOURS = ("async", "def-coroutine", "custom-awaitable", "raising-async", "sync")


def run_overlap(c):
    """One Guard, several evaluations that overlap inside the resolver.  c: {"graph", "flavour", "cache", "sink",
    "evals": [{"roles", "via": thread|loop|loop-sync, "park": bool, "probe": role, "release_after": [first|last...]}]}.
    Returns {"results": [{"allowed"| "error"}...], "audit": {subject id: [roles...]}, "trouble": str|None}."""
    import threading
    from rbacx.core.engine import Guard
    from rbacx.core.model import Action, Context, Resource, Subject
    from rbacx.core.roles import StaticRoleResolver

    base = StaticRoleResolver(c["graph"])
    gate = _Gate()
    flavour = c["flavour"]

    class AsyncR:
        async def expand(self, roles):
            await gate.pass_async()
            if flavour == "raising-async":
                raise RuntimeError("resolver down (awaited)")
            return base.expand(roles)

    class DefCoroutineR:
        def expand(self, roles):
            return AsyncR().expand(roles)

    class _Later:
        def __init__(self, roles):
            self.roles = roles

        def __await__(self):
            return AsyncR().expand(self.roles).__await__()

    class CustomAwaitableR:
        def expand(self, roles):
            return _Later(roles)

    class SyncR:                               # blocks its thread at the gate (driven from threads only)
        def expand(self, roles):
            gate.pass_sync()
            return base.expand(roles)

    class Sink:
        def __init__(self):
            self.payloads = []

        def log(self, payload):
            self.payloads.append(payload)

    res = {"async": AsyncR, "raising-async": AsyncR, "def-coroutine": DefCoroutineR,
           "custom-awaitable": CustomAwaitableR, "sync": SyncR}[flavour]()
    evals = c["evals"]
    universe = _universe(c["graph"], [e["roles"] for e in evals] + [[e["probe"]] for e in evals])
    sink = Sink() if c.get("sink", True) else None
    kw = {}
    if c.get("cache"):
        from rbacx.core.cache import DefaultInMemoryCache
        kw["cache"] = DefaultInMemoryCache(256)
    g = Guard(_roles_policy(universe), role_resolver=res, logger_sink=sink, **kw)

    n = len(evals)
    results = [None] * n
    done = [False] * n

    def finish(i, value):
        with gate.cv:
            results[i] = value
            done[i] = True
            gate.cv.notify_all()

    def request(i):
        e = evals[i]
        return (Subject(id=f"u{i}", roles=list(e["roles"] or [])), Action("a%d" % universe.index(e["probe"])),
                Resource(type="doc", id="1"), Context({}))

    # the shared loop ("one running loop"): asyncio.run in a thread of its own, parked on a future until the end
    box, ready = {}, threading.Event()

    async def loop_main():
        box["loop"] = asyncio.get_running_loop()
        box["stop"] = box["loop"].create_future()
        ready.set()
        await box["stop"]

    loop_thread = None
    if any(e["via"] != "thread" for e in evals):
        loop_thread = threading.Thread(target=lambda: asyncio.run(loop_main()), daemon=True)
        loop_thread.start()
        if not ready.wait(WATCHDOG):
            return {"results": [], "audit": {}, "trouble": "the shared event loop did not start"}

    threads = []

    def start(i):
        via = evals[i]["via"]
        if via == "thread":                              # evaluate_sync in a thread of its own
            def body():
                try:
                    finish(i, {"allowed": bool(g.evaluate_sync(*request(i)).allowed)})
                except BaseException as ex:  # noqa: BLE001
                    finish(i, {"error": type(ex).__name__})
            t = threading.Thread(target=body, daemon=True)
            threads.append(t)
            t.start()
            return

        async def body_async():
            try:
                if via == "loop":                        # evaluate_async, a task of the shared loop
                    d = await g.evaluate_async(*request(i))
                else:                                    # "loop-sync": evaluate_sync called from inside the running loop
                    d = g.evaluate_sync(*request(i))
                finish(i, {"allowed": bool(d.allowed)})
            except BaseException as ex:  # noqa: BLE001
                finish(i, {"error": type(ex).__name__})
        asyncio.run_coroutine_threadsafe(body_async(), box["loop"])

    trouble, pending = None, 0
    try:
        for i, e in enumerate(evals):
            with gate.cv:
                before = gate.entered
                if e.get("park"):
                    gate.park_next += 1
            start(i)
            with gate.cv:
                if e.get("park"):
                    # parked in the resolver, or finished without getting there, or (an engine that makes it wait
                    # for an evaluation already parked) neither: go on, the gates are all opened at the end
                    if not gate.cv.wait_for(lambda: gate.entered > before or done[i], PARK_WAIT):
                        pending += 1
                    elif done[i] and gate.entered == before:
                        gate.park_next = 0
                elif not gate.cv.wait_for(lambda: done[i], GRACE):
                    pending += 1
            for which in e.get("release_after") or []:
                gate.release(which)
    finally:
        gate.release_all()
        with gate.cv:
            if not gate.cv.wait_for(lambda: all(done), WATCHDOG):
                trouble = f"evaluations {[i for i in range(n) if not done[i]]} did not finish within {WATCHDOG} s after every gate was opened"
        if loop_thread is not None:
            try:
                box["loop"].call_soon_threadsafe(lambda: box["stop"].done() or box["stop"].set_result(None))
            except RuntimeError:
                pass
            loop_thread.join(5.0 if trouble else WATCHDOG)
        for t in threads:
            t.join(0.0 if trouble else WATCHDOG)
    audit = {}
    if sink is not None:
        for p in list(sink.payloads):
            audit.setdefault(p["env"]["subject"]["id"], []).append(p["env"]["subject"]["roles"])
    return {"results": list(results), "audit": audit, "trouble": trouble, "pending": pending}


def gen_overlap(chk, bases, n):
    """n scenarios over (graph, roles) pairs taken from the generated cases"""
    rng = chk.rng
    out = []
    if not bases:
        return out
    for k in range(n):
        b = bases[rng.randrange(len(bases))] if k >= len(bases) else bases[k]
        graph, roles = b["graph"], list(b["roles"] or [])
        nodes = sorted(set(graph) | {p for ps in graph.values() for p in ps} | set(roles)) or ["x"]
        flavour = rng.choice(["async", "async", "async", "def-coroutine", "custom-awaitable", "raising-async", "sync"])
        shape = "threads" if flavour == "sync" else rng.choice(["threads", "loop", "sync-in-loop", "mixed"])
        ne = rng.choice([2, 2, 3, 4])
        evals = []
        for i in range(ne):
            u = rng.random()
            if i == 0 or u < 0.55:
                rl = list(roles)                         # the same role list
            elif u < 0.7:
                rl = list(reversed(roles))               # same set, another order
            else:
                rl = [rng.choice(nodes) for _ in range(rng.choice([0, 1, 1, 2, 3]))]
            if shape == "threads":
                via = "thread"
            elif shape == "loop":
                via = "loop"
            elif shape == "sync-in-loop":
                via = "loop" if i == 0 else rng.choice(["loop-sync", "loop-sync", "loop"])
            else:
                via = rng.choice(["thread", "loop", "loop-sync"])
            # an evaluate_sync inside the running loop blocks that loop: it is never asked to park
            park = via != "loop-sync" and (i == 0 or rng.random() < 0.5)
            rel = [rng.choice(["first", "last"])] if rng.random() < 0.25 else []
            evals.append({"roles": rl, "via": via, "park": park, "release_after": rel, "probe": None})
        out.append({"overlap": True, "graph": graph, "flavour": flavour, "shape": shape,
                    "cache": rng.random() < 0.25, "sink": rng.random() < 0.8, "evals": evals})
    # probes: a role the expansion adds (where a fall-back to the own roles shows), else any role of the universe
    flat = [{"graph": s["graph"], "roles": e["roles"]} for s in out for e in s["evals"]]
    ms = iter(_model_expand(flat))
    for s in out:
        for e in s["evals"]:
            m = next(ms)
            uni = _universe(s["graph"], [x["roles"] for x in s["evals"]]) or ["x"]
            added = [r for r in m if r not in e["roles"]]
            e["probe"] = rng.choice(added) if added and rng.random() < 0.7 else rng.choice(uni)
    return out


def check_overlap(chk, scen):
    flat = [{"graph": s["graph"], "roles": e["roles"]} for s in scen for e in s["evals"]]
    ms = iter(_model_expand(flat))
    for s in scen:
        exp = [next(ms) for _ in s["evals"]]
        r = run_overlap(s)
        chk.count("overlap:" + s.get("shape", "?"))
        chk.count("overlap-flavour:" + s["flavour"])
        if r.get("pending"):
            chk.count("overlap:went-on-before-an-evaluation-parked-or-finished", r["pending"])
        if r["trouble"]:
            # not a verdict: a hang is C14's to judge, a slow machine nobody's
            chk.count("overlap:harness-timeout")
            chk.notes.append("C18 overlap scenario not judged (harness trouble): " + r["trouble"])
            continue
        same = len({tuple(e["roles"]) for e in s["evals"]}) < len(s["evals"])
        what = (f"{s['flavour']} resolver suspended at a gate, {len(s['evals'])} overlapping evaluations on one Guard "
                f"via {'/'.join(e['via'] for e in s['evals'])}, {'equal' if same else 'different'} role lists")
        for i, (e, m) in enumerate(zip(s["evals"], exp)):
            expect = m if not s["flavour"].startswith("raising") else list(e["roles"])
            chk.mark(("overlap", s["flavour"], repr(s["graph"]), repr([(x["roles"], x["via"], x["park"]) for x in s["evals"]]), i),
                     any(s["graph"].get(x) for x in e["roles"]))
            want = {"allowed": e["probe"] in expect}
            if r["results"][i] != want:
                chk.violation(f"conditions do not see exactly the expanded roles (evaluation {i}; {what}; theorems "
                              "c18_engine_roles/c18_has_any/c18_has_all/c18_contains/c18_in)",
                              s, impl=r["results"], model=[{"allowed": x["probe"] in (mm if not s["flavour"].startswith("raising") else x["roles"])}
                                                           for x, mm in zip(s["evals"], exp)])
                break
            got = r["audit"].get(f"u{i}", [])
            if any(a != expect for a in got):
                chk.violation(f"audit payload roles differ from the expanded roles (evaluation {i}; {what}; theorem c18_audit_roles)",
                              s, impl=got[:2], model=expect)
                break


# ---------------------------------------------------------------------------------------------------------------
# histories on one Guard: collaborators and callers that keep or edit what they are handed / what they own
# ---------------------------------------------------------------------------------------------------------------

# "scribble-raise" / "extend-raise": edit the argument, then fail (finding F28, fixed: corpus/C18/F28_*.json)
HIST_KINDS = ("pure", "inplace-same", "extend-arg", "sort-arg", "clear-arg", "same-if-equal",
              "raise", "scribble-raise", "extend-raise")
HIST_FALSY = (None, "list", "dict", "len0", "boolfalse")


def _hist_resolver(spec, state):
    """a resolver that answers with the closure under state["base"] (the graph configured now) and treats the list it
    is handed as its own: edits it in place (kind), returns it or a new list, or fails after scribbling on it"""
    kind = spec["kind"]

    def core(roles):
        base = state["base"]
        if kind == "pure":
            return base.expand(roles)
        if kind == "inplace-same":               # computes the closure on its argument and returns it
            roles[:] = base.expand(roles)
            return roles
        if kind == "extend-arg":                 # worklist on the argument, answer is a new list
            out = base.expand(roles)
            roles.extend(x for x in out if x not in roles)
            return out
        if kind == "sort-arg":
            roles.sort()
            return base.expand(roles)
        if kind == "clear-arg":
            out = base.expand(roles)
            del roles[:]
            return out
        if kind == "same-if-equal":              # nothing to add: hands its argument back
            out = base.expand(roles)
            return roles if out == roles else out
        if kind == "raise":
            raise ConnectionError("role directory unreachable")
        if kind == "scribble-raise":
            roles.append(spec.get("scribble", "!scribble"))
            raise ConnectionError("role directory unreachable")
        if kind == "extend-raise":
            roles.extend(x for x in base.expand(roles) if x not in roles)
            raise ConnectionError("role directory unreachable")
        raise ValueError("unknown resolver kind " + repr(kind))

    if spec.get("async"):
        async def expand(self, roles):
            await asyncio.sleep(0)
            return core(roles)
    else:
        def expand(self, roles):
            return core(roles)
    falsy = spec.get("falsy")
    ns = {"expand": expand}
    if falsy == "len0":
        ns["__len__"] = lambda self: 0
    if falsy == "boolfalse":
        ns["__bool__"] = lambda self: False
    bases = {"list": (list,), "dict": (dict,)}.get(falsy, (object,))
    return type("HistResolver", bases, ns)()


def _hist_apply_edit(lst, op):
    """the caller edits the list it owns (the one its Subjects are built from)"""
    if op[1] == "append":
        lst.append(op[2])
    elif op[1] == "remove":
        if op[2] in lst:
            lst.remove(op[2])
    elif op[1] == "sort":
        lst.sort()
    elif op[1] == "clear":
        del lst[:]
    else:
        raise ValueError("unknown caller edit " + repr(op))


def _hist_shadow(c):
    """(graph, own roles) at every eval op of the history, as the caller means them"""
    graph, own, out = c["graph"], list(c["roles"] or []), []
    for op in c["ops"]:
        if op[0] == "eval":
            out.append({"graph": graph, "roles": list(own)})
        elif op[0] == "graph":
            graph = op[1]
        elif op[0] == "edit":
            _hist_apply_edit(own, op)
    return out


def _hist_universe(c):
    gs = [c["graph"]] + [op[1] for op in c["ops"] if op[0] == "graph"]
    names = set(c["roles"] or [])
    if c["resolver"].get("scribble"):
        names.add(c["resolver"]["scribble"])
    for g in gs:
        names |= set(g) | {p for ps in g.values() for p in ps}
    for op in c["ops"]:
        if op[0] == "eval":
            names |= set(op[1])
        elif op[0] == "edit" and len(op) > 2:
            names.add(op[2])
    return sorted(names)


def run_history(c):
    """c: {"graph", "roles", "resolver": {kind, async, falsy}, "cache", "via": sync|async, "subject": reuse|fresh,
    "ops": [["eval", [probes]] | ["graph", g] | ["edit", how, role?]]}.  The sink keeps the payload objects; they are
    read only after the whole history.  Returns one record per eval op."""
    from rbacx.core.engine import Guard
    from rbacx.core.model import Action, Context, Resource, Subject
    from rbacx.core.roles import StaticRoleResolver

    state = {"base": StaticRoleResolver(c["graph"])}
    res = _hist_resolver(c["resolver"], state)

    class Sink:
        def __init__(self):
            self.payloads = []

        def log(self, payload):
            self.payloads.append(payload)

    universe = _hist_universe(c)
    sink = Sink()
    kw = {}
    if c.get("cache"):
        from rbacx.core.cache import DefaultInMemoryCache
        kw["cache"] = DefaultInMemoryCache(256)
    g = Guard(_roles_policy(universe), role_resolver=res, logger_sink=sink, **kw)
    caller = list(c["roles"] or [])           # the caller's own list; every Subject is built from this object
    subj = Subject(id="u", roles=caller)
    recs = []

    async def one(s, probe):
        a = (s, Action("a%d" % universe.index(probe)), Resource(type="doc", id="1"), Context({}))
        try:
            return bool((await g.evaluate_async(*a)).allowed)
        except Exception as e:  # noqa: BLE001
            return "!evaluation-raised:" + type(e).__name__

    def one_sync(s, probe):
        try:
            return bool(g.evaluate_sync(s, Action("a%d" % universe.index(probe)), Resource(type="doc", id="1"), Context({})).allowed)
        except Exception as e:  # noqa: BLE001
            return "!evaluation-raised:" + type(e).__name__

    async def go_async():
        for op in c["ops"]:
            if op[0] == "eval":
                s = subj if c.get("subject") == "reuse" else Subject(id="u", roles=caller)
                n0 = len(sink.payloads)
                before = list(caller)
                allowed = [await one(s, p) for p in op[1]]
                recs.append({"allowed": allowed, "caller_before": before, "caller_after": list(caller),
                             "payloads": sink.payloads[n0:]})
            elif op[0] == "graph":
                state["base"] = StaticRoleResolver(op[1])
            else:
                _hist_apply_edit(caller, op)

    def go_sync():
        for op in c["ops"]:
            if op[0] == "eval":
                s = subj if c.get("subject") == "reuse" else Subject(id="u", roles=caller)
                n0 = len(sink.payloads)
                before = list(caller)
                allowed = [one_sync(s, p) for p in op[1]]
                recs.append({"allowed": allowed, "caller_before": before, "caller_after": list(caller),
                             "payloads": sink.payloads[n0:]})
            elif op[0] == "graph":
                state["base"] = StaticRoleResolver(op[1])
            else:
                _hist_apply_edit(caller, op)

    if c.get("via") == "sync":
        go_sync()
    else:
        asyncio.run(go_async())
    # the audit records, read now: after everything the caller did to its list later on
    for r in recs:
        r["audit"] = [list(p["env"]["subject"]["roles"]) if isinstance(p["env"]["subject"]["roles"], list)
                      else repr(p["env"]["subject"]["roles"]) for p in r.pop("payloads")]
    return recs


def gen_histories(chk, bases, n):
    rng = chk.rng
    out = []
    if not bases:
        return out
    for k in range(n):
        b = bases[k] if k < len(bases) else bases[rng.randrange(len(bases))]
        graph = {x: list(ps) for x, ps in b["graph"].items()}
        own = list(b["roles"] or [])
        nodes = sorted(set(graph) | {p for ps in graph.values() for p in ps} | set(own)) or ["x"]
        ops, g = [["eval", []]], graph
        for _ in range(rng.choice([1, 1, 2, 3])):
            u = rng.random()
            if u < 0.6:                                    # the graph changes between two evaluations
                g2 = {x: list(ps) for x, ps in g.items()}
                v = rng.random()
                have = [x for x in own if g2.get(x)] or [x for x in g2 if g2[x]]
                if v < 0.6 and have:                       # an inheritance edge (or all of a role's) is removed
                    x = rng.choice(have)
                    if rng.random() < 0.5:
                        g2[x] = []
                    else:
                        g2[x] = [p for p in g2[x] if p != rng.choice(g2[x])]
                elif v < 0.8:
                    g2 = {}
                else:
                    g2.setdefault(rng.choice(nodes), []).append(rng.choice(nodes + ["newrole"]))
                ops.append(["graph", g2])
                g = g2
            if u >= 0.4:                                   # the caller edits its own list
                how = rng.choice(["append", "append", "remove", "sort", "clear"])
                if how == "append":
                    ops.append(["edit", "append", rng.choice(nodes + ["granted-later"])])
                elif how == "remove" and own:
                    ops.append(["edit", "remove", rng.choice(own)])
                else:
                    ops.append(["edit", how if how != "remove" else "sort"])
            ops.append(["eval", []])
        ops.append(["edit", "append", "granted-later"])    # ... and once more after the last evaluation
        if rng.random() < 0.3:
            ops.append(["edit", rng.choice(["sort", "clear"])])
        kind = rng.choice(HIST_KINDS)
        out.append({"hist": True, "graph": graph, "roles": own, "ops": ops,
                    "resolver": {"kind": kind, "async": rng.random() < 0.4, "falsy": rng.choice(HIST_FALSY + (None, None))},
                    "cache": rng.random() < 0.2, "via": rng.choice(["sync", "async", "async"]),
                    "subject": rng.choice(["reuse", "reuse", "fresh"])})
    # probes: roles whose membership differs from the step before (revoked / granted), roles the expansion adds, others
    flat = [x for c in out for x in _hist_shadow(c)]
    ms = iter(_model_expand(flat))
    for c in out:
        uni = _hist_universe(c)
        prev = None
        for op in c["ops"]:
            if op[0] != "eval":
                continue
            m = next(ms)
            cand = [r for r in uni if prev is not None and ((r in m) != (r in prev))]
            rng.shuffle(cand)
            probes = cand[:2]
            probes += [r for r in m if r not in probes][:1]
            probes.append(rng.choice(uni))
            op[1] = sorted(set(probes))
            prev = m
    return out


def check_histories(chk, hs):
    flat = [x for c in hs for x in _hist_shadow(c)]
    ms = iter(_model_expand(flat))
    for c in hs:
        shadow = _hist_shadow(c)
        exp = [next(ms) for _ in shadow]
        try:
            recs = run_history(c)
        except Exception as e:  # noqa: BLE001  (trouble of the harness itself must not look like a verdict)
            raise RuntimeError("C18 history runner failed on %r: %r" % (c, e)) from e
        failing = c["resolver"]["kind"] in ("raise", "scribble-raise", "extend-raise")
        spec = c["resolver"]
        what = (f"resolver {spec['kind']}{' async' if spec.get('async') else ''}{' falsy:' + spec['falsy'] if spec.get('falsy') else ''}, "
                f"{'one Subject reused' if c.get('subject') == 'reuse' else 'a new Subject from the same caller list each time'}, "
                f"evaluate_{'sync' if c.get('via') == 'sync' else 'async'}{', decision cache on' if c.get('cache') else ''}; history "
                + " > ".join(op[0] if op[0] != "edit" else "caller-" + op[1] for op in c["ops"]))
        chk.count("history:" + spec["kind"])
        chk.count("history-falsy:" + str(spec.get("falsy")))
        evals = [op for op in c["ops"] if op[0] == "eval"]
        if c.get("expect"):                      # corpus witness: what was recorded must also be what is seen
            got = {"allowed": [r["allowed"] for r in recs], "audit": [r["audit"] for r in recs]}
            if got != c["expect"]:
                chk.violation(f"corpus witness {c.get('fam', '')}: decisions / audit roles differ from the recorded ones ({what})",
                              c, impl=got, model=c["expect"])
                continue
        for i, (op, sh, m, r) in enumerate(zip(evals, shadow, exp, recs)):
            expect = list(sh["roles"]) if failing else m
            chk.mark(("history", repr(spec), repr(c["graph"]), repr(c["ops"]), i), any(sh["graph"].get(x) for x in sh["roles"]))
            if r["caller_after"] != r["caller_before"] or r["caller_before"] != sh["roles"]:
                chk.violation(f"evaluation modified the caller's roles list (Subject.roles), which the engine must only read "
                              f"(evaluation {i}; {what}; theorem c18_engine_roles: own roles = the subject's)",
                              c, impl={"before": r["caller_before"], "after": r["caller_after"]}, model=sh["roles"])
                break
            want = [p in expect for p in op[1]]
            if r["allowed"] != want:
                chk.violation(f"conditions do not see exactly the expanded roles of the subject's current roles under the current graph "
                              f"(evaluation {i}, probes {op[1]}; {what}; theorems c18_engine_roles/c18_has_any/c18_has_all/c18_contains/c18_in)",
                              c, impl=r["allowed"], model=want)
                break
            if any(a != expect for a in r["audit"]):
                chk.violation(f"audit payload roles (payload objects kept by the sink, read after the history) differ from the roles "
                              f"the decision was taken with (evaluation {i}; {what}; theorem c18_audit_roles)",
                              c, impl=r["audit"][:2], model=expect)
                break


ENGINE_STD = (("sync", False), ("async", False), ("raising", False), ("sync", True), ("async", True),
              ("raising-async", False), ("raising-awaitable", False), ("def-coroutine", False), ("custom-awaitable", False),
              ("raising-async", True))
ENGINE_FLAVOURS = ("sync", "async", "raising", "raising-async", "raising-awaitable", "def-coroutine", "custom-awaitable",
                   "raising-scribble", "raising-extend", "raising-extend-async",
                   "falsy-list", "falsy-dict", "falsy-len0", "falsy-bool", "falsy-len0-async")


def _extra_cfgs(rng, quick, idx):
    """Guard configurations beyond the standard ten: no logger sink; Guards with a past (constructed with another
    policy, the roles-testing one installed later through set_policy / update_policy / a hot reload); both.
    quick: one per case in turn (both, no sink, both, past); thorough: each of the three."""
    def past():
        return {"how": rng.choice(PAST_HOWS), "prior": [rng.choice(PRIOR_KINDS) for _ in range(rng.choice([1, 1, 2]))],
                "eval_before": rng.random() < 0.5}
    shapes = [[(False, True), (False, False), (False, True), (True, True)][idx % 4]] if quick else [(False, True), (False, False), (True, True)]
    return [{"flavour": rng.choice(("sync", "sync", "async", "async") + ENGINE_FLAVOURS),
             "cache": rng.random() < 0.25, "sink": sink, "past": past() if p else None} for sink, p in shapes]


def _cfg_text(cfg):
    t = cfg["flavour"] + " resolver"
    if cfg.get("cache"):
        t += ", decision cache on, every request twice"
    if not cfg.get("sink", True):
        t += ", no logger sink"
    if cfg.get("past"):
        p = cfg["past"]
        t += (f", Guard constructed with policy {'+'.join(p['prior'])}" + (", evaluated" if p.get("eval_before") else "")
              + f", roles policy installed by {p['how']}")
    return t


def check_cases(chk, cases, replay=False):
    scen = [c for c in cases if c.get("overlap")]
    hists = [c for c in cases if c.get("hist")]
    cases = [c for c in cases if not c.get("overlap") and not c.get("hist")]
    model = _model_expand(cases)
    for c, m in zip(cases, model):
        if c.get("cfg"):           # replay of an engine-side failure under one Guard configuration: engine part only
            continue
        out = impl_expand(c)
        nontriv = bool(c["roles"]) and any(c["graph"].get(r) for r in (c["roles"] or []))
        chk.mark(("expand", repr(c["graph"]), repr(c["roles"])), nontriv)
        chk.count("fam:" + c.get("fam", "?"))
        chk.count("out_len:%d" % min(len(out), 6))
        chk.sample({"graph": c["graph"], "roles": c["roles"], "impl": out, "model": m}, every=9973)
        if out != m:
            chk.violation("expand != reflexive-transitive closure, sorted, deduplicated (model Roles.expand, "
                          "theorems c18_closure/c18_sorted_nodup)", c, impl=out, model=m)
            continue
        out2 = impl_expand_shared(c)
        if out2 != m:
            chk.violation("expand on a resolver instance that has answered earlier queries for the same graph != "
                          "reflexive-transitive closure (the answer must not depend on earlier queries)",
                          {"graph": c["graph"], "roles": c["roles"], "fam": c.get("fam"),
                           "history": c.get("history", c.get("_hist", []))}, impl=out2, model=m)
    # engine part on a subset
    sub = [c for i, c in enumerate(cases) if c.get("engine") or (not replay and i % (97 if chk.tier == "quick" else 23) == 0)]
    if replay:
        sub = [c for c in cases if c.get("engine")]
    msub = _model_expand(sub)
    for ci, (c, m) in enumerate(zip(sub, msub)):
        if c.get("cfg"):
            cfgs = [c["cfg"]]
        else:
            cfgs = [{"flavour": f, "cache": k, "sink": True, "past": None} for f, k in ENGINE_STD]
            if not replay:
                cfgs += _extra_cfgs(chk.rng, chk.tier == "quick", ci)
        for cfg in cfgs:
            flavour, cache = cfg["flavour"], bool(cfg.get("cache"))
            seen, audit, universe = engine_roles(c, flavour, cache, sink=cfg.get("sink", True), past=cfg.get("past"))
            own = list(c["roles"] or [])
            expect = m if not flavour.startswith("raising") else own
            std = cfg.get("sink", True) and not cfg.get("past")
            chk.mark(("engine", flavour if std else _cfg_text(cfg), repr(c["graph"]), repr(c["roles"])), bool(universe))
            if std:
                chk.count("engine:" + flavour + ("+cache" if cache else ""))
            else:
                chk.count("engine-extra:" + ("sink" if cfg.get("sink", True) else "nosink")
                          + ("+past:" + cfg["past"]["how"] if cfg.get("past") else ""))
                chk.count("engine-extra-flavour:" + flavour + ("+cache" if cache else ""))
            desc = (flavour + (" resolver, decision cache on, every request twice" if cache else "") + " resolver") if std else _cfg_text(cfg)
            fail = {**c, "engine": True} if std else {**{k: v for k, v in c.items() if not k.startswith("_")}, "engine": True, "cfg": cfg}
            want_seen = sorted(set(expect) & set(universe))
            if seen != want_seen:
                chk.violation(f"conditions do not see exactly the expanded roles ({desc}; theorems c18_engine_roles/c18_has_any/c18_has_all/c18_contains/c18_in)",
                              fail, impl=seen, model=want_seen)
            if any(a != expect for a in audit):
                chk.violation(f"audit payload roles differ from the expanded roles ({desc}; theorem c18_audit_roles)",
                              fail, impl=audit[:2], model=expect)
    # overlapping evaluations on one Guard (resolver suspended at a gate)
    if not replay:
        nontriv = [c for c in sub if c["roles"] and any(c["graph"].get(r) for r in c["roles"])]
        scen = scen + gen_overlap(chk, nontriv + sub, 120 if chk.tier == "quick" else 2500)
    check_overlap(chk, scen)
    # histories: resolvers that edit their argument, Subjects reused, graphs and caller lists edited in between
    if not replay:
        hists = hists + gen_histories(chk, nontriv + sub, 90 if chk.tier == "quick" else 3000)
    check_histories(chk, hists)


def corpus_cases():
    """witnesses of findings (fixed or open) and minimised past failures: corpus/C18/*.json, {"cases": [case | {"case": case}, ...]} or {"case": ...}"""
    import json
    out = []
    d = lib.VERIF / "corpus" / "C18"
    if d.is_dir():
        for f in sorted(d.glob("*.json")):
            data = json.loads(f.read_text())
            for c in data.get("cases", [data["case"]] if "case" in data else []):
                c = lib.unjson(c["case"] if set(c) == {"case"} else c)     # {"case": ...} entries: --replay reads the file too
                c.setdefault("fam", "corpus:" + f.stem)
                out.append(c)
    return out


def laws_check(chk, cases):
    """closure-operator laws (coq/props/C18.v: c18_extensive, c18_closed, c18_roles_as_set, c18_idempotent, c18_union)
    on the implementation itself, all calls of a case on ONE resolver instance; str role lists only."""
    from rbacx.core.roles import StaticRoleResolver

    rng = chk.rng
    for c in cases:
        roles = c.get("roles")
        if not isinstance(roles, list) or c.get("ctor") or c.get("cfg"):
            continue
        g = c["graph"]
        res = StaticRoleResolver(g)
        perm = list(roles)
        rng.shuffle(perm)
        perm += [rng.choice(roles) for _ in range(rng.randint(0, 2))] if roles else []
        k = rng.randint(0, len(roles))
        try:
            l = res.expand(list(roles))
            lp = res.expand(perm)
            l2 = res.expand(list(l))
            la, lb = res.expand(roles[:k]), res.expand(roles[k:])
            again = res.expand(list(roles))
        except Exception as e:  # noqa: BLE001
            chk.violation("expand raised %s on a list of str roles (c18_terminates)" % type(e).__name__, c)
            continue
        chk.count("fam:laws")
        bad = None
        if not set(roles) <= set(l):
            bad = ("a given role is missing from the answer (c18_extensive)", l)
        elif any(p not in l for x in l for p in (g.get(x) or [])):
            bad = ("the answer is not closed under the inheritance edges (c18_closed)", l)
        elif set(lp) != set(l):
            bad = ("the same roles in another order / repeated give another answer (c18_roles_as_set)", {"perm": perm, "l": l, "lp": lp})
        elif set(l2) != set(l):
            bad = ("expanding an answer changes it (c18_idempotent)", {"l": l, "l2": l2})
        elif set(la) | set(lb) != set(l):
            bad = ("expand(r1 + r2) is not the union of expand(r1) and expand(r2) (c18_union)", {"k": k, "l": l, "la": la, "lb": lb})
        elif again != l:
            bad = ("the same call on the same instance answers differently the second time", {"l": l, "again": again})
        if bad:
            chk.violation(bad[0], {"graph": g, "roles": roles, "fam": "laws"}, impl=bad[1])


def run(chk):
    chk.rule = ("enumerated: every inheritance graph on 3 role names x every role list of length <= 3 over those "
                "names and one absent name (quick: every 3rd), plus random graphs up to 30 nodes with cycles, "
                "self-loops, duplicate parents, ghost parents, non-ASCII names; a subset also through Guard with "
                "sync/async/raising resolvers, also without a logger sink and on Guards constructed with another "
                "policy (roles policy installed by set_policy / update_policy / hot reload); overlapping evaluations on "
                "one Guard (threads, one loop, evaluate_sync inside a running loop) with the resolver suspended at a "
                "gate; histories on one Guard (resolvers editing their argument, falsy resolver objects, Subjects reused, "
                "graph and caller's list edited between evaluations, payload objects read afterwards). "
                "non-trivial = some given role has at least one parent; distinct = "
                "distinct (graph, roles[, resolver flavour / Guard configuration / schedule])")
    chk.assumptions = ["role names are strings (what the property quantifies over)",
                       "Python str ordering on code points = byte order of the UTF-8 encoding (model sorts bytes)"]
    cc = corpus_cases()                         # corpus first
    chk.count("corpus", len(cc))
    check_cases(chk, cc, replay=True)
    gc = gen_cases(chk)
    check_cases(chk, gc)
    laws_check(chk, [c for c in gc if c.get("fam") in ("random", "enum3")])
