"""morph.py — "the same policy object, edited in place" scenarios, shared by the engine-facing harnesses.

A policy document is a plain mutable dict that applications edit and re-install (`Guard.update_policy(obj)`,
`Guard.set_policy(obj)`, `Guard(obj)`, or `policy.evaluate(obj, env)` / `policyset.decide(obj, env)` directly).  Every
property is about the document AS IT IS NOW, so anything the library remembers about an earlier state of the very
same dict / list objects (an identity-keyed memo of targets, actions, obligations, conditions, compiled children, ...)
must not show.  The scenario: build a PERTURBED copy of the case's policy (one aspect changed everywhere: actions,
resource targets, obligations, conditions, effects, algorithms, ids), let the library see it (same request), then turn
that object INTO the case's policy in place — keeping the identity of every dict and list that exists in both — and
ask again.  The answer must be the one a freshly parsed copy gets (which is what the model judges).
"""
import copy

MODES = ("actions", "resource", "obligations", "condition", "effect", "algorithm", "ids")


def _leaf_policies(p):
    if isinstance(p, dict) and isinstance(p.get("policies"), list):
        for ch in p["policies"]:
            yield from _leaf_policies(ch)
    elif isinstance(p, dict):
        yield p


def _all_policies(p):
    if isinstance(p, dict):
        yield p
        if isinstance(p.get("policies"), list):
            for ch in p["policies"]:
                yield from _all_policies(ch)


def _rules(p):
    for leaf in _leaf_policies(p):
        rs = leaf.get("rules")
        if isinstance(rs, list):
            for r in rs:
                if isinstance(r, dict):
                    yield r


def perturbed(policy, mode):
    """a deep copy of `policy` with one aspect changed in every rule / policy (containers kept where they exist, so
    that morph() can turn it back in place)"""
    p = copy.deepcopy(policy)
    for r in _rules(p):
        if mode == "actions":
            a = r.get("actions")
            if isinstance(a, list):
                a[:] = ["zz_other_action"]
            elif "actions" in r:
                r["actions"] = ["zz_other_action"]
        elif mode == "resource":
            res = r.get("resource")
            if isinstance(res, dict):
                if "id" in res:
                    res["id"] = "zz_other_id"
                t = res.get("type")
                if isinstance(t, list):
                    t[:] = ["zz_other_type"]
                elif "type" in res:
                    res["type"] = "zz_other_type"
                for k in ("attrs", "attributes"):
                    at = res.get(k)
                    if isinstance(at, dict):
                        for ak, av in list(at.items()):
                            if isinstance(av, list):
                                av[:] = ["zz_other_value"]
                            else:
                                at[ak] = "zz_other_value"
                if not res:
                    res["type"] = "zz_other_type"
        elif mode == "obligations":
            obs = r.get("obligations")
            if isinstance(obs, list):
                for o in obs:
                    if isinstance(o, dict):
                        o["type"] = "zz_unknown_obligation"      # unknown types are ignored by the checker
        elif mode == "condition":
            c = r.get("condition")
            if isinstance(c, dict):
                c.clear()
                c["=="] = [1, 1]
        elif mode == "effect":
            if r.get("effect") in ("permit", "deny"):
                r["effect"] = "deny" if r["effect"] == "permit" else "permit"
        elif mode == "ids":
            if "id" in r:
                r["id"] = "zz_" + str(r["id"])
    if mode == "algorithm":
        for pol in _all_policies(p):
            alg = pol.get("algorithm")
            pol["algorithm"] = "first-applicable" if alg != "first-applicable" else "deny-overrides"
    if mode == "ids":
        for pol in _all_policies(p):
            if "id" in pol:
                pol["id"] = "zz_" + str(pol["id"])
    return p


def morph(dst, src):
    """make dst equal to src IN PLACE, keeping the identity of every dict / list present at the same place in both"""
    if isinstance(dst, dict) and isinstance(src, dict):
        for k in [k for k in dst if k not in src]:
            del dst[k]
        # keep src's key order: re-insert in order
        items = []
        for k, v in src.items():
            if k in dst and type(dst[k]) is type(v) and isinstance(v, (dict, list)):
                morph(dst[k], v)
                items.append((k, dst[k]))
            else:
                items.append((k, copy.deepcopy(v)))
        dst.clear()
        dst.update(items)
    elif isinstance(dst, list) and isinstance(src, list):
        n = min(len(dst), len(src))
        for i in range(n):
            if type(dst[i]) is type(src[i]) and isinstance(src[i], (dict, list)):
                morph(dst[i], src[i])
            else:
                dst[i] = copy.deepcopy(src[i])
        del dst[n:]
        dst.extend(copy.deepcopy(x) for x in src[n:])
    else:
        raise TypeError("morph: containers of the same type expected")


def mode_for(index):
    return MODES[index % len(MODES)]


async def morph_runs(mk_guard, policy, ask, modes):
    """for each mode: Guard(perturbed copy) answers the request, the object is morphed into `policy` in place, then
    (a) update_policy(same object) on that Guard, (b) set_policy(same object) on it, (c) a new Guard(same object) —
    each asked again.  mk_guard(policy_obj) -> Guard; ask(guard) -> awaitable decision (any comparable value).
    Returns [{"how": text, "decision": value-or-["Raise", name]}]"""
    out = []
    for mode in modes:
        obj = perturbed(policy, mode)
        if obj == policy:
            continue                                  # nothing of that aspect in this policy
        try:
            g = mk_guard(obj)
            await ask(g)
        except Exception:  # noqa: BLE001  (the perturbed document need not be a good policy)
            g = None
        morph(obj, policy)
        assert obj == policy
        steps = []
        if g is not None:
            steps.append(("update_policy(same object)", lambda: (g.update_policy(obj), g)[1]))
        steps.append(("a new Guard(same object)", lambda: mk_guard(obj)))
        for name, install in steps:
            how = f"after the policy object, seen by the library with other {mode}, was edited in place into this policy: {name}"
            try:
                gg = install()
                out.append({"how": how, "decision": await ask(gg)})
            except Exception as e:  # noqa: BLE001
                out.append({"how": how, "decision": ["Raise", type(e).__name__]})
    return out
