"""C14 — context independence: sync = async, no cross-talk, no mutation, no deadlock.

Part (a), differential on the implementation (the property demands equality, so any
difference is a violation): for small policies x requests x collaborator sets the full
Decision, the decision-log payloads and the metric labels are compared across
  evaluate_async under asyncio.run | evaluate_sync in a plain thread | evaluate_sync in the
  main thread | evaluate_sync called from inside a running event loop (helper-thread path) |
  evaluate_sync in a worker thread of a running loop | is_allowed_sync (plain, in loop) |
  is_allowed_async,
each with synchronous and with asynchronous role resolver / obligation checker /
relationship checker / log sink / metrics sink; N concurrent evaluate_async calls
(asyncio.gather) and concurrent evaluate_sync calls from threads on two engines with
different policies and different relationship checkers must equal the sequential results;
policy and request objects must be deep-equal and identical (same nested containers)
afterwards.  Non-mutation is also exercised with collaborators that edit in place what the engine hands them (kind
"hostile": a log sink that overwrites/deletes/adds keys in payload["env"] subject/resource attrs, context and role
list; the shipped DecisionLogger(redact_in_place=True) with redactions over every attribute path of the requests or
with the default redactions; a role resolver editing the list it is given; an obligation checker editing the raw
decision; a relationship checker editing its context dict; a metrics sink editing the labels — sync and async
versions, under evaluate_async, evaluate_sync in a plain thread / the main thread / inside a running loop / a worker
thread of a loop): each request is evaluated twice on one Guard; the caller's Subject/Action/Resource/Context and
the policy must equal their deep snapshots and keep their containers, the second decision must equal the first and
both the decision of a fresh Guard with inert collaborators.  Cross-talk through shared mutable state that only a
particular thread interleaving shows (kind "interleave"): two different requests are evaluated on ONE Guard from two
real threads under the deterministic cooperative scheduler (harness/sched.py); the stop points are derived from the
source (lines touching self./closure/mutable-global names, with lines, loop headers), the decision's to_thread worker
is traced as part of its evaluation; all schedules with one pre-emption and a seeded sample with two are run, and
every Decision must equal the one the request gets alone on a fresh Guard; the failing schedule is the replay.  Edits of the containers the engine assembles (level
"top") must never reach the caller: violation.  Edits of containers nested inside attribute values / obligation
objects / relationship-context values (level "nested") reach the caller on the current tree: open finding tagged
"c14-nested-alias" in KNOWN_FINDINGS.json (known only when the observed change is confined to such nested
containers; anything else is a violation).  Not exercised: an obligation checker editing the Context object (it is
handed the caller's own object by contract).

Part (b), deadlock watchdog: every blocking entry point (Guard.evaluate_sync,
HotReloader.check_and_reload / refresh_if_needed / poll_once / start / stop) is called in
each calling context (plain thread; inside a running loop), alone, in sequence, next to a
second caller, and with the polling thread held mid-check (inside source.load(), between the
two lock sections) or while it holds the reloader lock (inside Guard.set_policy) — in a child
process, in a daemon thread under a watchdog.  A call that does not return within T seconds
is a violation; the verdict is compared with the Coq lock model's verdict for the same
configuration (runner "conc": exhaustive exploration, sound by c14_exploration_sound).  A third calling context,
"several coroutines of one running loop" (kind "coloop": overlapping check_and_reload_async tasks under
asyncio.gather, blocking entry points called by a coroutine while an async check of the same reloader is suspended
on that loop, with sources that really suspend, with and without the polling thread), is judged on the
implementation alone — the lock model has threads, not suspended coroutines holding a lock.

Tie of the hand-transcribed lock programs to the source: the watchdog runs, and a comparison
of the lock skeleton of loader.py / engine.py (derived from the abstract syntax tree on every
run) with the skeleton the model was transcribed from (Conc.skeletons)."""
import ast
import asyncio
import copy
import dataclasses
import json
import os
import re
import subprocess
import sys
import threading
import time

import lib

T_HANG = 5.0          # watchdog: an entry point that has not returned after this many seconds hangs
THEOREMS = ["c14_start_stop_deadlock_free", "c14_exploration_sound"]
HERE = os.path.abspath(__file__)

# =====================================================================================
# case generation (parent)
# =====================================================================================


def rule(rid, effect, actions=("read",), rtype="doc", cond=None, obligations=None, res_id=None, attrs=None):
    r = {"id": rid, "effect": effect, "actions": list(actions), "resource": {"type": rtype}}
    if res_id is not None:
        r["resource"]["id"] = res_id
    if attrs is not None:
        r["resource"]["attrs"] = attrs
    if cond is not None:
        r["condition"] = cond
    if obligations is not None:
        r["obligations"] = obligations
    return r


A = lambda p: {"attr": p}  # noqa: E731

ROLE_GRAPH = {"lead": ["editor", "admin"], "editor": ["viewer"], "intern": []}
REL_A = [["user:alice", "owner", "doc:1"], ["user:bob", "viewer", "folder:f1"], ["user:alice", "viewer", "folder:f1"],
         ["user:carol", "owner", "doc:2", "tenant"]]
REL_B = [["user:bob", "owner", "doc:1"], ["user:carol", "viewer", "folder:f1"]]


def policies():
    P = {}
    P["permit_simple"] = {"algorithm": "deny-overrides", "rules": [rule("p1", "permit")]}
    P["deny_simple"] = {"algorithm": "deny-overrides", "rules": [rule("d1", "deny")]}
    P["do_mix"] = {"algorithm": "deny-overrides",
                   "rules": [rule("p1", "permit", ("read", "write")), rule("d1", "deny", ("write",))]}
    P["po_mix"] = {"algorithm": "permit-overrides",
                   "rules": [rule("d1", "deny", ("*",)), rule("p1", "permit", ("read",), obligations=[{"type": "require_mfa"}])]}
    P["fa_mix"] = {"algorithm": "first-applicable",
                   "rules": [rule("d1", "deny", ("write",)), rule("p1", "permit", ("*",), rtype="*")]}
    P["cond_eq"] = {"algorithm": "deny-overrides", "rules": [
        rule("p1", "permit", cond={"==": [A("subject.attrs.dept"), A("resource.attrs.dept")]})]}
    P["cond_in"] = {"algorithm": "deny-overrides", "rules": [
        rule("p1", "permit", cond={"in": [A("context.ip"), ["10.0.0.1", "10.0.0.2"]]})]}
    P["cond_num"] = {"algorithm": "deny-overrides", "rules": [
        rule("p1", "permit", cond={">=": [A("subject.attrs.level"), 3]}),
        rule("d1", "deny", cond={"<": [A("subject.attrs.level"), 0]})]}
    P["cond_logic"] = {"algorithm": "permit-overrides", "rules": [
        rule("p1", "permit", cond={"or": [{"and": [{"==": [A("context.ip"), "10.0.0.1"]},
                                                    {"not": {"==": [A("subject.attrs.dept"), "ops"]}}]},
                                           {"contains": [A("subject.attrs.tags"), "vip"]}]})]}
    P["roles_any"] = {"algorithm": "deny-overrides", "rules": [
        rule("p1", "permit", cond={"hasAny": [A("subject.roles"), ["admin"]]}),
        rule("p2", "permit", ("write",), cond={"hasAll": [A("subject.roles"), ["editor", "viewer"]]})]}
    P["oblig_mfa"] = {"algorithm": "deny-overrides", "rules": [
        rule("p1", "permit", obligations=[{"type": "require_mfa", "on": "permit"}])]}
    P["oblig_level"] = {"algorithm": "deny-overrides", "rules": [
        rule("p1", "permit", obligations=[{"type": "require_level", "attrs": {"min": 2}},
                                          {"type": "require_terms_accept"}])]}
    P["oblig_deny"] = {"algorithm": "deny-overrides", "rules": [
        rule("d1", "deny", obligations=[{"type": "http_challenge", "on": "deny", "attrs": {"scheme": "Bearer"}}])]}
    P["oblig_custom"] = {"algorithm": "first-applicable", "rules": [
        rule("p1", "permit", obligations=[{"type": "need_ticket", "attrs": {"queue": "sec"}}])]}
    P["rel_owner"] = {"algorithm": "deny-overrides", "rules": [rule("p1", "permit", cond={"rel": "owner"})]}
    P["rel_dict"] = {"algorithm": "deny-overrides", "rules": [
        rule("p1", "permit", cond={"rel": {"relation": "viewer", "resource": A("resource.attrs.parent"),
                                           "ctx": {"tenant": "t1"}}})]}
    P["rel_and"] = {"algorithm": "deny-overrides", "rules": [
        rule("p1", "permit", ("read", "write"), cond={"and": [{"rel": "owner"}, {"rel": "owner"},
                                                               {"!=": [A("context.ip"), "6.6.6.6"]}]}),
        rule("d1", "deny", ("write",), cond={"not": {"rel": {"relation": "owner", "subject": A("subject.id")}}})]}
    P["target_id"] = {"algorithm": "deny-overrides", "rules": [
        rule("p1", "permit", res_id="1"), rule("p2", "permit", ("write",), attrs={"dept": ["eng", "ops"]})]}
    P["set_do"] = {"algorithm": "deny-overrides", "policies": [
        {"id": "A", **P["permit_simple"]}, {"id": "B", "algorithm": "deny-overrides", "rules": [
            rule("d9", "deny", cond={"==": [A("subject.attrs.dept"), "ops"]})]}]}
    P["set_po"] = {"algorithm": "permit-overrides", "policies": [
        {"id": "A", **P["deny_simple"]}, {"id": "B", **P["oblig_mfa"]}]}
    P["set_fa"] = {"algorithm": "first-applicable", "policies": [
        {"id": "A", **P["cond_in"]}, {"id": "B", **P["rel_owner"]}, {"id": "C", **P["deny_simple"]}]}
    P["no_rules"] = {"algorithm": "deny-overrides", "rules": []}
    return P


def requests_pool():
    def rq(sid, roles, sattrs, action, rtype, rid, rattrs, ctx):
        return {"subject": {"id": sid, "roles": roles, "attrs": sattrs}, "action": action,
                "resource": {"type": rtype, "id": rid, "attrs": rattrs}, "context": ctx}
    return [
        rq("alice", ["lead"], {"dept": "eng", "level": 5, "tags": ["vip", "x"]}, "read", "doc", "1",
           {"dept": "eng", "parent": "folder:f1"}, {"ip": "10.0.0.1", "mfa": True, "auth_level": 3, "tos_accepted": True,
                                                    "ticket": "T-1"}),
        rq("bob", ["editor"], {"dept": "ops", "level": 1, "tags": []}, "read", "doc", "1",
           {"dept": "eng", "parent": "folder:f1"}, {"ip": "10.0.0.9", "mfa": False, "auth_level": 1}),
        rq("alice", [], {"dept": "eng", "level": "5"}, "read", "doc", "2", {"dept": "ops", "parent": "f1"},
           {"ip": "10.0.0.2", "mfa": True, "auth_level": 2, "_rebac": {"tenant": "t1"}}),
        rq("carol", ["intern", "ghost"], {"dept": "ops", "level": -1, "tags": "vip"}, "write", "doc", "2",
           {"dept": "fin"}, {"ip": "6.6.6.6", "tos_accepted": True, "auth_level": 2, "_rebac": {"tenant": True}}),
        rq("dave", ["viewer"], {}, "delete", "img", None, {}, {}),
        rq("alice", ["admin"], {"dept": "eng", "level": 3.0}, "read", "doc", 1, {"dept": "eng"}, None),
    ]


COLLABS = [
    {"roles": True, "rel": "A", "oblig": "basic", "strict": False, "cache": False},
    {"roles": True, "rel": "A", "oblig": "custom", "strict": True, "cache": True},
    {"roles": False, "rel": None, "oblig": "basic", "strict": False, "cache": True},
]


def flavour_cases(chk):
    P = policies()
    reqs = requests_pool()
    cases = []
    for name, pol in P.items():
        for ci, collab in enumerate(COLLABS):
            if chk.tier == "quick" and ci == 2 and not name.startswith(("rel", "roles", "set")):
                continue
            cases.append({"kind": "flavours", "name": name, "policy": pol, "requests": reqs, "collab": collab})
    # random beyond: sets assembled from the pool, rules shuffled, algorithms varied, requests perturbed
    rng = chk.rng
    n_rand = 12 if chk.tier == "quick" else 150
    names = [n for n in P if "policies" not in P[n]]
    for i in range(n_rand):
        if rng.random() < 0.5:
            rules = []
            for n in rng.sample(names, rng.randint(1, 3)):
                rules.extend(copy.deepcopy(P[n]["rules"]))
            rng.shuffle(rules)
            for j, r in enumerate(rules):
                r["id"] = f"{r['id']}_{j}"
            pol = {"algorithm": rng.choice(["deny-overrides", "permit-overrides", "first-applicable"]), "rules": rules}
        else:
            pol = {"algorithm": rng.choice(["deny-overrides", "permit-overrides", "first-applicable"]),
                   "policies": [{"id": f"P{j}", **copy.deepcopy(P[n])} for j, n in enumerate(rng.sample(names, rng.randint(1, 3)))]}
        rs = copy.deepcopy(rng.sample(reqs, 3))
        for r in rs:
            if rng.random() < 0.3:
                r["action"] = rng.choice(["read", "write", "delete"])
            if rng.random() < 0.3:
                r["context"] = dict(r["context"] or {}, mfa=rng.random() < 0.5, ip=rng.choice(["10.0.0.1", "6.6.6.6"]))
        collab = {"roles": rng.random() < 0.7, "rel": rng.choice(["A", "B", None]), "oblig": rng.choice(["basic", "custom"]),
                  "strict": rng.random() < 0.3, "cache": rng.random() < 0.5}
        cases.append({"kind": "flavours", "name": f"random{i}", "policy": pol, "requests": rs, "collab": collab})
    return cases


def nested_requests():
    """requests whose attribute values are themselves containers (for the level-"nested" collaborators)"""
    def rq(sid, roles, sattrs, action, rtype, rid, rattrs, ctx):
        return {"subject": {"id": sid, "roles": roles, "attrs": sattrs}, "action": action,
                "resource": {"type": rtype, "id": rid, "attrs": rattrs}, "context": ctx}
    return [
        rq("alice", ["lead"], {"dept": "eng", "level": 5, "tags": ["vip", "x"], "profile": {"email": "a@corp.example"}},
           "read", "doc", "1", {"dept": "eng", "parent": "folder:f1", "meta": {"owner": "alice"}},
           {"ip": "10.0.0.1", "mfa": True, "auth_level": 3, "tos_accepted": True,
            "headers": {"authorization": "Bearer abc"}, "_rebac": {"tenant": {"id": "t1"}}}),
        rq("carol", ["editor"], {"dept": "ops", "level": 1, "tags": ["vip"], "profile": {"email": "c@other.example"}},
           "read", "doc", "2", {"dept": "ops", "meta": {"owner": "carol"}},
           {"ip": "10.0.0.2", "mfa": False, "auth_level": 1, "headers": {"authorization": "Basic xyz"},
            "_rebac": {"tenant": {"id": "t2"}}}),
    ]


HOSTILE_SETS = {
    # what each collaborator does with what it is handed, besides answering like the inert one
    "all": {"sink": "mutator", "roles": True, "oblig": True, "rel": True, "metrics": True},
    "declogger": {"sink": "declogger", "roles": True, "oblig": False, "rel": False, "metrics": False},
    "declogger_default": {"sink": "declogger_default", "roles": False, "oblig": False, "rel": True, "metrics": True},
    "nosink": {"sink": None, "roles": True, "oblig": True, "rel": True, "metrics": True},
    "sink_only": {"sink": "mutator", "roles": False, "oblig": False, "rel": False, "metrics": False},
}


def hostile_case(name, pol, reqs, collab, hset, level="top"):
    h = dict(HOSTILE_SETS[hset], level=level)
    if level == "top" and collab.get("cache"):
        # with a decision cache the raw decision handed to the obligation checker is the cached object itself
        # (DefaultInMemoryCache stores values as they are): editing its top-level keys is then editing the cache
        h["oblig"] = False
    return {"kind": "hostile", "name": f"{name}|{hset}|{level}", "policy": pol, "requests": reqs, "collab": collab,
            "hostile": h}


def hostile_cases(chk):
    """collaborators that edit in place what the engine hands them (log payload and its env, role list, raw
    decision, relationship context, metric labels)."""
    P = policies()
    reqs = requests_pool()
    rng = chk.rng
    cases = []
    sets = list(HOSTILE_SETS)
    for pi, (name, pol) in enumerate(P.items()):
        if chk.tier == "quick":
            # every policy with the all-editing set, and with one of the other sets in rotation (half the requests)
            cases.append(hostile_case(name, pol, reqs if pi % 2 == 0 else reqs[:4], COLLABS[0], "all"))
            cases.append(hostile_case(name, pol, rng.sample(reqs, 3), COLLABS[1 + pi % 2], sets[1 + pi % 4]))
        else:
            for si, hset in enumerate(sets):          # every set, the collaborator sets in rotation
                cases.append(hostile_case(name, pol, reqs, COLLABS[(pi + si) % 3], hset))
            for ci in (1, 2):                         # the all-editing set with every collaborator set
                cases.append(hostile_case(name, pol, reqs, COLLABS[(pi + ci) % 3], "all"))
    names = [n for n in P if "policies" not in P[n]]
    for i in range(6 if chk.tier == "quick" else 80):
        rules = []
        for n in rng.sample(names, rng.randint(1, 3)):
            rules.extend(copy.deepcopy(P[n]["rules"]))
        rng.shuffle(rules)
        for j, r in enumerate(rules):
            r["id"] = f"{r['id']}_{j}"
        pol = {"algorithm": rng.choice(["deny-overrides", "permit-overrides", "first-applicable"]), "rules": rules}
        if rng.random() < 0.4:
            pol = {"algorithm": rng.choice(["deny-overrides", "permit-overrides", "first-applicable"]),
                   "policies": [{"id": "P0", **pol}, {"id": "P1", **copy.deepcopy(P[rng.choice(names)])}]}
        collab = {"roles": rng.random() < 0.7, "rel": rng.choice(["A", "B", None]), "oblig": rng.choice(["basic", "custom"]),
                  "strict": rng.random() < 0.3, "cache": rng.random() < 0.5}
        cases.append(hostile_case(f"random{i}", pol, copy.deepcopy(rng.sample(reqs, 3)), collab, rng.choice(sets)))
    # level "nested": the same collaborators editing only what lies INSIDE the attribute values / obligation objects
    NP = {
        "nested_cond": {"algorithm": "deny-overrides", "rules": [
            rule("p1", "permit", cond={"and": [{"endsWith": [A("subject.attrs.profile.email"), "@corp.example"]},
                                               {"startsWith": [A("context.headers.authorization"), "Bearer "]}]}),
            rule("p2", "permit", cond={"contains": [A("subject.attrs.tags"), "x"]})]},
        "nested_rel": {"algorithm": "deny-overrides", "rules": [
            rule("p1", "permit", cond={"rel": {"relation": "owner", "ctx": {"scope": {"kind": "doc"}}}})]},
        "nested_oblig": {"algorithm": "deny-overrides", "rules": [
            rule("p1", "permit", obligations=[{"type": "require_level", "attrs": {"min": 2}},
                                              {"type": "require_mfa", "on": "permit"}])]},
    }
    nreqs = nested_requests()
    for name, pol in NP.items():
        for hset in ("all", "declogger", "declogger_default"):
            for collab in COLLABS[:1] if chk.tier == "quick" else COLLABS[:2]:
                cases.append(hostile_case(name, pol, nreqs, collab, hset, level="nested"))
    return cases


def interleave_policies():
    """policies on which two different requests take different routes through shared objects: several obligations
    per permit (checked one after the other), rules in several specificity tiers (id / attrs / type / wildcard) with
    a relationship condition in front of the deciding rule"""
    OB3 = [{"type": "require_mfa"}, {"type": "require_level", "attrs": {"min": 2}}, {"type": "require_terms_accept"}]
    P = {}
    P["il_oblig3"] = {"algorithm": "deny-overrides", "rules": [rule("p1", "permit", ("read", "write"), obligations=OB3)]}
    P["il_oblig_mix"] = {"algorithm": "first-applicable", "rules": [
        rule("w1", "permit", ("write",), obligations=[{"type": "require_consent", "attrs": {"key": "share"}},
                                                      {"type": "require_reauth", "attrs": {"max_age": 300}},
                                                      {"type": "require_mfa"}]),
        rule("r1", "permit", ("read",), obligations=[{"type": "require_terms_accept"}, {"type": "require_captcha"},
                                                     {"type": "require_level", "attrs": {"min": 3}}])]}
    tiers = [
        rule("a1", "permit", res_id="1", cond={"rel": "owner"}),
        rule("a2", "permit", res_id="1", cond={"==": [A("subject.attrs.dept"), "ops"]}, obligations=OB3[:2]),
        rule("b1", "deny", attrs={"dept": "fin"}),
        rule("b2", "permit", attrs={"dept": "fin"}, cond={"rel": {"relation": "viewer", "resource": A("resource.attrs.parent")}}),
        rule("c1", "permit", cond={"rel": "owner"}),
        rule("c2", "permit", cond={"in": [A("context.ip"), ["10.0.0.1", "10.0.0.2", "10.0.0.9"]]}, obligations=OB3[1:]),
        rule("d1", "deny", ("*",), rtype="*"),
    ]
    for algo in ("first-applicable", "deny-overrides", "permit-overrides"):
        P["il_tiers_" + algo.split("-")[0]] = {"algorithm": algo, "rules": copy.deepcopy(tiers)}
    P["il_set"] = {"algorithm": "first-applicable", "policies": [
        {"id": "T", "algorithm": "permit-overrides", "rules": copy.deepcopy(tiers[:6])},
        {"id": "O", **copy.deepcopy(P["il_oblig3"])}]}
    return P


def interleave_requests():
    def rq(sid, roles, sattrs, action, rtype, rid, rattrs, ctx):
        return {"subject": {"id": sid, "roles": roles, "attrs": sattrs}, "action": action,
                "resource": {"type": rtype, "id": rid, "attrs": rattrs}, "context": ctx}
    full = {"ip": "10.0.0.1", "mfa": True, "auth_level": 3, "tos_accepted": True, "captcha_passed": True,
            "consent": {"share": True}, "reauth_age_seconds": 10}
    return [
        rq("alice", ["lead"], {"dept": "eng"}, "read", "doc", "1", {"dept": "eng", "parent": "folder:f1"}, dict(full)),
        rq("bob", ["editor"], {"dept": "ops"}, "read", "doc", "1", {"dept": "eng", "parent": "folder:f1"},
           dict(full, tos_accepted=False, auth_level=1)),
        rq("bob", ["editor"], {"dept": "ops"}, "read", "doc", "2", {"dept": "eng"}, dict(full, mfa=False, ip="10.0.0.9")),
        rq("carol", [], {"dept": "fin"}, "read", "doc", "3", {"dept": "fin", "parent": "folder:f1"},
           dict(full, captcha_passed=False)),
        rq("carol", [], {"dept": "fin"}, "write", "doc", "2", {"dept": "eng"},
           dict(full, consent={}, reauth_age_seconds=900, tos_accepted=False)),
        rq("dave", ["viewer"], {}, "read", "doc", "9", {"dept": "eng"}, {"ip": "6.6.6.6", "mfa": True, "auth_level": 2}),
        rq("erin", [], {"dept": "ops"}, "delete", "img", None, {}, {}),
    ]


IL_COLLAB = {"roles": True, "rel": "A", "oblig": "basic", "strict": False, "cache": False}


def interleave_cases(chk):
    """pairs of requests for one Guard.  Quick: every policy of interleave_policies() with one or two request pairs
    in rotation; thorough: all 21 pairs (two policies) or 10 drawn pairs (the others), a third of them also with a
    decision cache and strict types, plus pairs from the general policy / request pool."""
    rng = chk.rng
    P = interleave_policies()
    reqs = interleave_requests()
    pairs = [(i, j) for i in range(len(reqs)) for j in range(i + 1, len(reqs))]
    cases = []

    def add(name, pol, ra, rb, collab, two):
        cases.append({"kind": "interleave", "name": name, "policy": pol, "requests": [ra, rb], "collab": collab,
                      "seed": rng.randrange(1 << 30), "two": two})
    for pi, (name, pol) in enumerate(P.items()):
        if chk.tier == "quick":
            chosen = [pairs[(5 * pi + 3 * k) % len(pairs)] for k in range(1 if name in ("il_oblig_mix", "il_set") else 2)]
        elif name in ("il_oblig3", "il_tiers_first"):
            chosen = pairs
        else:
            chosen = rng.sample(pairs, 10)
        for (i, j) in chosen:
            add(f"{name}|{i},{j}", pol, reqs[i], reqs[j], IL_COLLAB, 6 if chk.tier == "quick" else 20)
            if chk.tier == "thorough" and (i + j) % 3 == 0:
                add(f"{name}|{i},{j}|cache", pol, reqs[i], reqs[j], dict(IL_COLLAB, cache=True, strict=True), 10)
    if chk.tier == "thorough":
        GP, greqs = policies(), requests_pool()
        for name in ("po_mix", "oblig_level", "oblig_custom", "rel_and", "rel_dict", "target_id", "set_fa", "set_po", "roles_any"):
            for _ in range(2):
                i, j = rng.sample(range(len(greqs)), 2)
                add(f"{name}|pool{i},{j}", GP[name], greqs[i], greqs[j],
                    dict(IL_COLLAB, oblig="custom" if name == "oblig_custom" else "basic"), 10)
    return cases


def gather_cases(chk):
    P = policies()
    reqs = requests_pool()
    rng = chk.rng
    cases = []
    n = 50
    pairs = [("rel_owner", "rel_owner"), ("rel_and", "rel_dict"), ("set_fa", "rel_owner"), ("roles_any", "oblig_mfa"),
             ("po_mix", "set_po")]
    if chk.tier == "thorough":
        names = list(P)
        pairs += [(rng.choice(names), rng.choice(names)) for _ in range(25)]
    for (pa, pb) in pairs:
        for modes in (["sync", "sync"], ["async", "async"], ["sync", "async"]):
            jobs = [[rng.randrange(2), rng.randrange(len(reqs))] for _ in range(n)]
            cases.append({"kind": "gather", "name": f"{pa}|{pb}|{modes[0]}{modes[1]}",
                          "engines": [
                              {"policy": P[pa], "mode": modes[0],
                               "collab": {"roles": True, "rel": "A", "oblig": "basic", "strict": False, "cache": False}},
                              {"policy": P[pb], "mode": modes[1],
                               "collab": {"roles": False, "rel": "B", "oblig": "custom", "strict": False, "cache": False}}],
                          "requests": reqs, "jobs": jobs})
    # one engine only, with a cache
    for pa in ("set_fa", "rel_and"):
        jobs = [[0, rng.randrange(len(reqs))] for _ in range(n)]
        cases.append({"kind": "gather", "name": f"{pa}|single|cache",
                      "engines": [{"policy": P[pa], "mode": "async",
                                   "collab": {"roles": True, "rel": "A", "oblig": "basic", "strict": False, "cache": True}}],
                      "requests": reqs, "jobs": jobs})
    return cases


def wd(ctx, main, other=(), xctx="plain", sched="free", src="sync", fault=None):
    return {"kind": "watchdog", "ctx": ctx, "main": [list(c) for c in main], "xctx": xctx,
            "other": [list(c) for c in other], "sched": sched, "src": src, "fault": fault}


def watchdog_cases(chk):
    B = [False, True]
    rng = chk.rng
    cases = []
    starts = [("start", False, False), ("start", True, False), ("start", True, True)]
    for ctx in ("plain", "loop"):
        # single entry points (refresh_if_needed and poll_once are check_and_reload())
        for call in [("check", False), ("check", True), ("refresh",), ("poll_once",), ("eval",),
                     ("stop", False), ("stop", True)] + starts:
            cases.append(wd(ctx, [call], src=rng.choice(["sync", "async"])))
        cases.append(wd(ctx, [("check", False)], fault="load_raises"))
        cases.append(wd(ctx, [("check", True)], fault="setpol_raises"))
        cases.append(wd(ctx, [("check", False)], fault="etag_raises", src="async"))
        # an error, then checks inside the suppression window (the early return from inside the lock section)
        cases.append(wd(ctx, [("check", False), ("check", False), ("check", True)], fault="load_raises"))
        cases.append(wd(ctx, [("check", False), ("check", False), ("stop", True)], [("check", False)], fault="load_raises"))
        cases.append(wd(ctx, [("start", True, False), ("check", False), ("stop", False)], fault="load_raises", src="async"))
        # start; stop with the polling thread wherever it happens to be / held mid-check / holding the lock
        for st in starts:
            for timed in B:
                for sched in ("free", "midcheck", "holding"):
                    cases.append(wd(ctx, [st, ("stop", timed)], sched=sched, src=rng.choice(["sync", "async"]),
                                    fault=rng.choice([None, None, "load_raises_later"])))
        # start; check; stop
        for f in B:
            for timed in B:
                cases.append(wd(ctx, [("start", rng.random() < 0.5, False), ("check", f), ("stop", timed)],
                                sched=rng.choice(["free", "midcheck"])))
        # a second caller
        for other in [("check", False), ("check", True), ("eval",), ("stop", False), ("stop", True)]:
            st = rng.choice(starts)
            cases.append(wd(ctx, [st, ("stop", rng.random() < 0.5)], [other], sched=rng.choice(["free", "midcheck"])))
            cases.append(wd(ctx, [rng.choice([("check", False), ("check", True), ("eval",), st])], [other]))
        # racing starts
        for st in starts:
            cases.append(wd(ctx, [st], [("start", rng.random() < 0.5, False)]))
        # second caller under a running loop as well (outside the theorem's family; the model is asked all the same)
        cases.append(wd(ctx, [("start", True, False), ("stop", False)], [("check", True)], xctx="loop", sched="midcheck"))
    if chk.tier == "thorough" or getattr(chk, "_c14_full_family", False):
        base = list(cases) if chk.tier == "thorough" else []
        # every configuration of the theorem's family (mirror of Conc.current_configs), under each way of
        # holding the polling thread and with both kinds of source
        for cfg in theorem_family():
            for sched in ("free", "midcheck", "holding"):
                if sched != "free" and not any(k[0] == "start" for k in cfg["main"]):
                    continue
                for src in ("sync", "async"):
                    cases.append(wd(cfg["ctx"], cfg["main"], cfg["other"], sched=sched, src=src))
        for rep in range(6):
            for c in base:
                c2 = dict(c, src=rng.choice(["sync", "async"]), rep=rep + 1, jitter=rng.random() * 0.02)
                cases.append(c2)
    return cases


def coloop_cases(chk):
    """calling context "several coroutines of one running loop": overlapping reloader / engine entry points as tasks
    of ONE event loop (asyncio.gather), against sources whose etag()/load() return at once, yield, sleep, or wait for an
    asyncio.Event that another task sets; blocking entry points called from a coroutine while an async check of the
    same reloader is suspended on that loop; the same with the polling thread running."""
    rng = chk.rng
    S = {
        "sync": {"kind": "sync"},
        "async_now": {"kind": "async", "etag_wait": None, "load_wait": None},
        "async_yield": {"kind": "async", "etag_wait": "yield", "load_wait": "yield"},
        "async_sleep": {"kind": "async", "etag_wait": "yield", "load_wait": "sleep"},
        "async_etag_sleep": {"kind": "async", "etag_wait": "sleep", "load_wait": None},
    }
    ac = lambda force=False, delay=0: {"op": "acheck", "force": force, "delay": delay}  # noqa: E731
    op = lambda k, delay=1, **kw: dict({"op": k, "delay": delay}, **kw)  # noqa: E731
    SETS = {
        "2acheck": [ac(), ac()], "2acheck_ft": [ac(), ac(True)], "2acheck_tt": [ac(True), ac(True, 1)],
        "3acheck": [ac(), ac(False, 1), ac(True, 2)],
        "acheck+check": [ac(), op("check", force=False)], "acheck+check_force": [ac(True), op("check", force=True)],
        "acheck+start": [ac(), op("start", initial=True, force=False)],
        "acheck+start_noinit+stop": [ac(), op("start", initial=False), op("stop", 2, timed=True)],
        "acheck+stop": [ac(), op("stop", timed=False)],
        "acheck+eval": [ac(), op("eval"), op("aeval")],
        "2acheck+check+eval": [ac(), ac(True, 1), op("check", 2, force=False), op("eval", 2)],
    }
    cases = []

    def add(sname, tname, ops, poller):
        cases.append({"kind": "coloop", "name": f"{sname}|{tname}|{'poller' if poller else 'nopoller'}", "src": S[sname]
                      if sname in S else sname, "ops": copy.deepcopy(ops), "poller": poller})
    for sname in S:
        for tname, ops in SETS.items():
            for poller in (False, True):
                if poller and chk.tier == "quick" and tname not in ("2acheck", "acheck+check", "acheck+stop", "3acheck"):
                    continue
                add(sname, tname, ops, poller)
    # an asyncio.Event that another task of the loop sets (only with awaiting entry points: the event belongs to the loop)
    ev = {"kind": "async", "etag_wait": None, "load_wait": "event"}
    ev2 = {"kind": "async", "etag_wait": "event", "load_wait": "yield"}
    for src in (ev, ev2):
        for tname in ("2acheck", "2acheck_ft", "3acheck"):
            cases.append({"kind": "coloop", "name": f"async_event|{tname}|nopoller", "src": src,
                          "ops": copy.deepcopy(SETS[tname]) + [{"op": "set_event", "delay": 3}, {"op": "aeval", "delay": 1}],
                          "poller": False})
    if chk.tier == "thorough":
        base = list(cases)
        for rep_ in range(4):
            for c in base:
                if c["src"].get("load_wait") == "event" or c["src"].get("etag_wait") == "event":
                    continue
                c2 = copy.deepcopy(c)
                for o in c2["ops"]:
                    o["delay"] = rng.randrange(0, 4)
                rng.shuffle(c2["ops"])
                c2["name"] += "|rep%d" % (rep_ + 1)
                cases.append(c2)
    return cases


def theorem_family():
    """Python mirror of Conc.current_configs (its size is compared with the model's on every run)."""
    B = [False, True]
    starts = [[("start", False, False)], [("start", True, False)], [("start", True, True)]]
    single = [[("check", f)] for f in B] + [[("eval",)]] + [[("stop", t)] for t in B] + starts
    start_stop = [st + [("stop", t)] for st in starts for t in B]
    start_check_stop = [[("start", i, False), ("check", f), ("stop", t)] for i in B for f in B for t in B]
    second = [[("check", f)] for f in B] + [[("eval",)]] + [[("stop", t)] for t in B]
    out = []
    for ctx in ("plain", "loop"):
        for m in single + start_stop + start_check_stop:
            out.append({"ctx": ctx, "main": m, "other": []})
    for ctx in ("plain", "loop"):
        for m in single + start_stop:
            for o in second:
                out.append({"ctx": ctx, "main": m, "other": o})
    for ctx in ("plain", "loop"):
        for m in starts:
            for i in B:
                out.append({"ctx": ctx, "main": m, "other": [("start", i, False)]})
    return out


def corpus_cases():
    d = lib.VERIF / "corpus" / "C14"
    out = []
    for f in sorted(d.glob("*.json")):
        data = json.loads(f.read_text())
        items = [data] if "case" in data else data.get("cases", [])
        for it in items:
            c = lib.unjson(it["case"])
            c["fam"] = "corpus:" + f.stem
            out.append(c)
    return out


# =====================================================================================
# source skeleton (parent): the lock structure of loader.py / engine.py as a string
# =====================================================================================

CALL_TOKENS = [
    ("asyncio.get_running_loop", "getloop"), ("asyncio.run", "run"), ("self.check_and_reload_async", "core"),
    ("self._evaluate_core_async", "core"), ("self.check_and_reload", "check"), ("self.source.etag", "src"),
    ("self.source.load", "src"), ("self.guard.set_policy", "setpol"), ("self._register_error", "regerr"),
    ("self._stop_event.set", "set"), ("self._stop_event.clear", "clear"), ("self._stop_event.wait", "wait"),
    ("self._stop_event.is_set", "isset"), ("self._thread.start", "spawn"), ("self._lock.acquire", "ACQ"),
    ("self._lock.release", "REL"), ("threading.RLock", "RLock"), ("threading.Lock", "Lock"), ("threading.Event", "Event"),
]
SUFFIX_TOKENS = [(".submit", "submit"), (".result", "result"), (".join", "join"), (".acquire", "ACQ"), (".release", "REL")]


def _dotted(n):
    if isinstance(n, ast.Name):
        return n.id
    if isinstance(n, ast.Attribute):
        b = _dotted(n.value)
        return (b + "." if b else "?.") + n.attr
    return ""


class _Skel(ast.NodeVisitor):
    """tokens in evaluation order; L(..) with self._lock, X(..) with ThreadPoolExecutor, ?(a|b) if/else,
    W(..) while, T(..)E(..) try/except, def(..) nested function, ret, brk"""

    def __init__(self):
        self.out = []

    def emit(self, t):
        self.out.append(t)

    def block(self, stmts):
        for s in stmts:
            self.visit(s)

    def sub(self, stmts):
        k = _Skel()
        k.block(stmts)
        return " ".join(k.out)

    def visit_Call(self, node):
        self.generic_visit(node)           # receiver and arguments first
        name = _dotted(node.func)
        for full, tok in CALL_TOKENS:
            if name == full:
                self.emit(tok)
                return
        for suf, tok in SUFFIX_TOKENS:
            if name.endswith(suf):
                self.emit(tok)
                return

    def visit_With(self, node):
        items = [_dotted(i.context_expr) if not isinstance(i.context_expr, ast.Call) else _dotted(i.context_expr.func)
                 for i in node.items]
        body = self.sub(node.body)
        if any(i.endswith("_lock") for i in items):
            self.emit("L(" + body + ")")
        elif any("ThreadPoolExecutor" in i for i in items):
            self.emit("X(" + body + ")")
        else:
            for i in node.items:
                self.visit(i.context_expr)
            self.emit("with(" + body + ")")

    visit_AsyncWith = visit_With

    def visit_If(self, node):
        self.visit(node.test)
        a, b = self.sub(node.body), self.sub(node.orelse)
        if a or b:
            self.emit("?(" + a + "|" + b + ")")

    def visit_While(self, node):
        k = _Skel()
        k.visit(node.test)
        k.block(node.body)
        self.emit("W(" + " ".join(k.out) + ")")

    def visit_Try(self, node):
        parts = [self.sub(node.body)] + [self.sub(h.body) for h in node.handlers] + [self.sub(node.finalbody)]
        if any(parts):
            s = "T(" + parts[0] + ")"
            for h in parts[1:-1]:
                s += "E(" + h + ")"
            if parts[-1]:
                s += "F(" + parts[-1] + ")"
            self.emit(s)
        self.block(node.orelse)

    def visit_Return(self, node):
        if node.value is not None:
            self.visit(node.value)
        self.emit("ret")

    def visit_Break(self, node):
        self.emit("brk")

    def visit_FunctionDef(self, node):
        self.emit("def(" + self.sub(node.body) + ")")

    visit_AsyncFunctionDef = visit_FunctionDef

    def visit_Lambda(self, node):
        self.emit("def(" + self.sub([ast.Expr(node.body)]) + ")")


def source_skeletons():
    out = {}
    for rel, cls, methods, prefix in [
        ("src/rbacx/policy/loader.py", "HotReloader",
         ["__init__", "check_and_reload", "check_and_reload_async", "refresh_if_needed", "poll_once", "start", "stop",
          "_register_error", "_run_loop"], ""),
        ("src/rbacx/core/engine.py", "Guard",
         ["__init__", "evaluate_sync", "set_policy", "_install_policy", "_current_policy_version"], "Guard."),
    ]:
        tree = ast.parse((lib.REPO / rel).read_text())
        for node in ast.walk(tree):
            if isinstance(node, ast.ClassDef) and node.name == cls:
                for f in node.body:
                    if isinstance(f, (ast.FunctionDef, ast.AsyncFunctionDef)) and f.name in methods:
                        k = _Skel()
                        k.block(f.body)
                        out[prefix + f.name] = " ".join(k.out)
    return out


# =====================================================================================
# child side: runs cases against the implementation
# =====================================================================================


def guarded(fn, T):
    """run fn() in a daemon thread; ['!hang'] if it has not returned after T seconds."""
    box = {}

    def tgt():
        try:
            box["v"] = fn()
        except BaseException as e:  # noqa: BLE001
            box["e"] = ["!raise", type(e).__name__, str(e)[:160]]

    th = threading.Thread(target=tgt, daemon=True)
    th.start()
    th.join(T)
    if th.is_alive():
        return ["!hang"]
    return box["e"] if "e" in box else box.get("v")


class _Hang(BaseException):
    pass


def guarded_main(fn, T):
    """run fn() in the main thread; SIGALRM after T seconds interrupts a blocked lock/selector wait."""
    import signal

    def on_alarm(signum, frame):
        raise _Hang()

    old = signal.signal(signal.SIGALRM, on_alarm)
    signal.setitimer(signal.ITIMER_REAL, T)
    try:
        return fn()
    except _Hang:
        return ["!hang"]
    except Exception as e:  # noqa: BLE001
        return ["!raise", type(e).__name__, str(e)[:160]]
    finally:
        signal.setitimer(signal.ITIMER_REAL, 0)
        signal.signal(signal.SIGALRM, old)


def in_loop(fn):
    def run():
        async def main():
            return fn()                      # a synchronous call made while this thread's loop is running
        return asyncio.run(main())
    return run


def idmap(x, path="", out=None):
    """identity of every nested container (to notice replaced — not just changed — parts)."""
    if out is None:
        out = []
    if isinstance(x, dict):
        out.append((path, id(x)))
        for k, v in x.items():
            idmap(v, f"{path}/{k}", out)
    elif isinstance(x, list):
        out.append((path, id(x)))
        for i, v in enumerate(x):
            idmap(v, f"{path}[{i}]", out)
    return out


class Collab:
    """role resolver / obligation checker / relationship checker / log sink / metrics sink, sync or async."""

    def __init__(self, spec, mode):
        from rbacx.core.obligations import BasicObligationChecker
        from rbacx.core.roles import StaticRoleResolver

        self.logs = []
        self.metrics_calls = []
        self.rel_calls = []
        me = self
        is_async = mode == "async"
        base_roles = StaticRoleResolver(ROLE_GRAPH)
        base_obl = BasicObligationChecker()
        tuples = {"A": REL_A, "B": REL_B}.get(spec.get("rel") or "", [])

        def rel_check(subject, relation, resource, context=None):
            me.rel_calls.append((subject, relation, resource))
            for t in tuples:
                if t[0] == subject and t[1] == relation and t[2] == resource:
                    if len(t) > 3 and not (context or {}).get(t[3]):
                        continue
                    return True
            return False

        def obl_check(raw, context):
            if spec.get("oblig") == "custom":
                for ob in raw.get("obligations") or []:
                    if (ob or {}).get("type") == "need_ticket":
                        attrs = getattr(context, "attrs", None) or {}
                        if not attrs.get("ticket"):
                            return False, "ticket"
            return base_obl.check(raw, context)

        if is_async:
            class Roles:
                async def expand(self, roles):
                    await asyncio.sleep(0)
                    return base_roles.expand(roles)

            class Obl:
                async def check(self, raw, context):
                    await asyncio.sleep(0)
                    return obl_check(raw, context)

            class Rel:
                async def check(self, subject, relation, resource, *, context=None):
                    await asyncio.sleep(0.0005)
                    return rel_check(subject, relation, resource, context)

            class Sink:
                async def log(self, payload):
                    await asyncio.sleep(0)
                    me.logs.append(copy.deepcopy(payload))

            class Metrics:
                async def inc(self, name, labels=None):
                    me.metrics_calls.append(["inc", name, dict(labels or {})])

                async def observe(self, name, value, labels=None):
                    me.metrics_calls.append(["observe", name, dict(labels or {})])
        elif mode == "awaitable":
            # asynchronous collaborators whose methods are plain `def`s handing back an object that is awaitable
            # only through __await__ (neither a coroutine nor a Future: e.g. a lazy query object)
            class Later:
                def __init__(self, fn):
                    self.fn = fn

                def __await__(self):
                    yield from asyncio.sleep(0).__await__()
                    return self.fn()

            class Roles:
                def expand(self, roles):
                    return Later(lambda: base_roles.expand(roles))

            class Obl:
                def check(self, raw, context):
                    return Later(lambda: obl_check(raw, context))

            class Rel:
                def check(self, subject, relation, resource, *, context=None):
                    return Later(lambda: rel_check(subject, relation, resource, context))

            class Sink:              # sinks are called, not awaited, unless their method is an `async def`: stay sync
                def log(self, payload):
                    me.logs.append(copy.deepcopy(payload))

            class Metrics:
                def inc(self, name, labels=None):
                    me.metrics_calls.append(["inc", name, dict(labels or {})])

                def observe(self, name, value, labels=None):
                    me.metrics_calls.append(["observe", name, dict(labels or {})])
        else:
            class Roles:
                def expand(self, roles):
                    return base_roles.expand(roles)

            class Obl:
                def check(self, raw, context):
                    return obl_check(raw, context)

            class Rel:
                def check(self, subject, relation, resource, *, context=None):
                    time.sleep(0.0002)
                    return rel_check(subject, relation, resource, context)

            class Sink:
                def log(self, payload):
                    me.logs.append(copy.deepcopy(payload))

            class Metrics:
                def inc(self, name, labels=None):
                    me.metrics_calls.append(["inc", name, dict(labels or {})])

                def observe(self, name, value, labels=None):
                    me.metrics_calls.append(["observe", name, dict(labels or {})])

        self.kw = {
            "logger_sink": Sink(), "metrics": Metrics(), "obligation_checker": Obl(),
            "role_resolver": Roles() if spec.get("roles") else None,
            "relationship_checker": Rel() if spec.get("rel") else None,
            "strict_types": bool(spec.get("strict")),
        }
        if spec.get("cache"):
            from rbacx.core.cache import DefaultInMemoryCache
            self.kw["cache"] = DefaultInMemoryCache()


def mk_objs(req):
    from rbacx.core.model import Action, Context, Resource, Subject
    s = req["subject"]
    r = req["resource"]
    subj = Subject(id=s["id"], roles=s["roles"], attrs=s["attrs"])
    res = Resource(type=r["type"], id=r["id"], attrs=r["attrs"])
    ctx = Context(attrs=req["context"]) if req["context"] is not None else None
    return subj, Action(req["action"]), res, ctx


def dec_dict(d):
    return dataclasses.asdict(d) if dataclasses.is_dataclass(d) else d


FLAVOURS = ["async_run", "sync_plain", "sync_main", "sync_inloop", "sync_worker_of_loop",
            "allowed_sync", "allowed_sync_inloop", "allowed_async"]


def call_flavour(g, fl, objs, T):
    if fl == "async_run":
        return guarded(lambda: dec_dict(asyncio.run(g.evaluate_async(*objs))), T)
    if fl == "sync_plain":
        return guarded(lambda: dec_dict(g.evaluate_sync(*objs)), T)
    if fl == "sync_main":                        # the child's main thread; watchdog = interval timer signal
        return guarded_main(lambda: dec_dict(g.evaluate_sync(*objs)), T)
    if fl == "sync_inloop":
        return guarded(in_loop(lambda: dec_dict(g.evaluate_sync(*objs))), T)
    if fl == "sync_worker_of_loop":
        def run():
            async def main():
                return await asyncio.to_thread(lambda: dec_dict(g.evaluate_sync(*objs)))
            return asyncio.run(main())
        return guarded(run, T)
    if fl == "allowed_sync":
        return guarded(lambda: g.is_allowed_sync(*objs), T)
    if fl == "allowed_sync_inloop":
        return guarded(in_loop(lambda: g.is_allowed_sync(*objs)), T)
    if fl == "allowed_async":
        return guarded(lambda: asyncio.run(g.is_allowed_async(*objs)), T)
    raise ValueError(fl)


def run_flavours(case, T):
    from rbacx.core.engine import Guard
    policy = case["policy"]
    pol_before, pol_ids = copy.deepcopy(policy), idmap(policy)
    out = {"dec": {}, "logs": {}, "metrics": {}, "mut": []}
    for mode in ("sync", "async", "awaitable"):
        col = Collab(case["collab"], mode)
        g = Guard(policy, **col.kw)
        for ri, req in enumerate(case["requests"]):
            req_before = copy.deepcopy(req)
            objs = mk_objs(req)
            req_ids = idmap(req)
            for fl in FLAVOURS:
                del col.logs[:]
                del col.metrics_calls[:]
                k = f"{mode}/{fl}/{ri}"
                out["dec"][k] = call_flavour(g, fl, objs, T)
                out["logs"][k] = lib.jsonable(list(col.logs))
                out["metrics"][k] = list(col.metrics_calls)
                if out["dec"][k] == ["!hang"]:
                    out["aborted_at"] = k            # one hang is enough; do not wait T for every later call
                    return out
                if req != req_before or idmap(req) != req_ids:
                    out["mut"].append(f"request {ri} changed by {k}")
                    req_before, req_ids = copy.deepcopy(req), idmap(req)
                s, _, r, c = objs
                if s.attrs is not req["subject"]["attrs"] or s.roles is not req["subject"]["roles"] \
                        or r.attrs is not req["resource"]["attrs"] or (c is not None and c.attrs is not req["context"]):
                    out["mut"].append(f"request object {ri} re-bound by {k}")
        if g.policy is not policy:
            out["mut"].append(f"guard.policy replaced ({mode})")
    if policy != pol_before:
        out["mut"].append("policy changed")
    elif idmap(policy) != pol_ids:
        out["mut"].append("policy containers replaced")
    return out


# ---- collaborators that edit in place whatever they are handed --------------------------------------------------
# The ports do not forbid it, and the shipped DecisionLogger(redact_in_place=True) does it by design: what a
# collaborator is handed must therefore not be (part of) the caller's request objects, the policy, or anything a
# later evaluation reads.  Every collaborator here first computes the answer its inert counterpart gives, then edits.
# Level "top": the containers the engine assembles (log payload, env, env.subject/resource, the attrs/context
# mappings themselves, role list, raw decision's top-level keys, relationship context's top-level keys, labels).
# Level "nested": only containers found INSIDE attribute values / obligation objects.

HOSTILE_FLAVOURS = ["async_run", "sync_plain", "sync_main", "sync_inloop", "sync_worker_of_loop"]
MARK = "[hostile]"


def _edit_top(m, edits):
    """overwrite every value of a mapping, delete a key, add a key"""
    if not isinstance(m, dict):
        return
    keys = list(m)
    for k in keys:
        m[k] = MARK
    if keys:
        del m[keys[0]]
    m["hostile_added"] = MARK
    edits.append("top")


def _edit_inner(x, edits):
    """edit a container and everything inside it"""
    if isinstance(x, dict):
        for k in list(x):
            if isinstance(x[k], (dict, list)):
                _edit_inner(x[k], edits)
            else:
                x[k] = MARK
        x["hostile_added"] = MARK
        edits.append("nested")
    elif isinstance(x, list):
        for y in x:
            _edit_inner(y, edits)
        x.append(MARK)
        edits.append("nested")


def _edit_nested(m, edits):
    """edit the containers that are values of a mapping; the mapping itself is left alone"""
    if isinstance(m, dict):
        for v in list(m.values()):
            _edit_inner(v, edits)


def wreck_payload(p, level, edits):
    env = p.get("env") if isinstance(p, dict) else None
    if not isinstance(env, dict):
        return
    subj, res, ctx = env.get("subject"), env.get("resource"), env.get("context")
    maps = [subj.get("attrs") if isinstance(subj, dict) else None, res.get("attrs") if isinstance(res, dict) else None, ctx]
    if level == "nested":
        for m in maps:
            _edit_nested(m, edits)
        for ob in p.get("obligations") or []:
            _edit_inner(ob, edits)
        return
    for m in maps:
        _edit_top(m, edits)
    if isinstance(subj, dict) and isinstance(subj.get("roles"), list):
        subj["roles"].append(MARK)
        subj["roles"].reverse()
        del subj["roles"][-1:]
    for m in (subj, res, env, p):
        _edit_top(m, edits)


def redaction_specs(requests, level):
    """redact_fields / mask_fields over every attribute path that occurs in the requests"""
    top, nested = set(), set()
    for rq in requests:
        for prefix, m in (("subject.attrs", rq["subject"]["attrs"]), ("resource.attrs", rq["resource"]["attrs"]),
                          ("context", rq["context"])):
            for k, v in (m or {}).items():
                if not isinstance(k, str) or not k or any(ch in k for ch in ".[]"):
                    continue
                top.add(f"{prefix}.{k}")
                if isinstance(v, dict):
                    nested.update(f"{prefix}.{k}.{k2}" for k2 in v if isinstance(k2, str) and k2 and not any(ch in k2 for ch in ".[]"))
                elif isinstance(v, list):
                    nested.add(f"{prefix}.{k}[0]")
    if level == "nested":
        fields = sorted(nested)
    else:
        fields = sorted(top) + ["subject.roles[0]", "subject.id", "resource.id", "subject.attrs.hostile_added",
                                "resource.attrs.hostile_added", "context.hostile_added"]
    return [{"type": "redact_fields", "fields": fields[0::2]},
            {"type": "mask_fields", "fields": fields[1::2], "placeholder": "***"}]


def _port(is_async, **methods):
    """an object whose methods are the given functions — plain, or coroutine functions that yield once first"""
    ns = {}
    for name, fn in methods.items():
        if is_async:
            def mk(fn):
                async def m(self, *a, **k):
                    await asyncio.sleep(0)
                    return fn(*a, **k)
                return m
        else:
            def mk(fn):
                def m(self, *a, **k):
                    return fn(*a, **k)
                return m
        ns[name] = mk(fn)
    return type("HostilePort", (), ns)()


def hostile_kw(spec, hostile, mode, requests, edits):
    """Guard keyword arguments: the collaborators of Collab(spec), each wrapped so that it edits what it is handed"""
    import logging
    from rbacx.logging.decision_logger import DecisionLogger

    audit = logging.getLogger("rbacx.audit")
    if not audit.handlers:
        audit.addHandler(logging.NullHandler())
    col = Collab(spec, "sync")
    kw = dict(col.kw)
    level = hostile.get("level", "top")
    is_async = mode == "async"
    inner_roles, inner_obl, inner_rel, inner_metrics = (kw["role_resolver"], kw["obligation_checker"],
                                                        kw["relationship_checker"], kw["metrics"])
    sink = hostile.get("sink")
    if sink == "mutator":
        kw["logger_sink"] = _port(is_async, log=lambda payload: wreck_payload(payload, level, edits))
    elif sink in ("declogger", "declogger_default"):
        if sink == "declogger":
            dl = DecisionLogger(redactions=redaction_specs(requests, level), redact_in_place=True)
        else:
            dl = DecisionLogger(use_default_redactions=True, redact_in_place=True)

        def dl_log(payload):
            dl.log(payload)
            edits.append("declogger")
        kw["logger_sink"] = _port(is_async, log=dl_log)
    else:
        kw["logger_sink"] = None

    if hostile.get("roles") and level == "top":
        def expand(roles):
            out = inner_roles.expand(list(roles or [])) if inner_roles is not None else list(roles or [])
            if isinstance(roles, list):
                roles.append(MARK)
                roles.reverse()
                del roles[-1:]
                edits.append("roles")
            return out
        kw["role_resolver"] = _port(is_async, expand=expand)

    if hostile.get("oblig"):
        def check(raw, context):
            ans = inner_obl.check(raw, context)
            if isinstance(raw, dict):
                if level == "nested":
                    for ob in raw.get("obligations") or []:
                        _edit_inner(ob, edits)
                else:
                    for k in ("decision", "obligations", "challenge"):
                        raw[k] = MARK
                    raw["hostile_added"] = MARK
                    edits.append("raw")
            return ans
        kw["obligation_checker"] = _port(is_async, check=check)

    if hostile.get("rel") and inner_rel is not None:
        def rcheck(subject, relation, resource, *, context=None):
            ans = inner_rel.check(subject, relation, resource, context=context)
            (_edit_nested if level == "nested" else _edit_top)(context, edits)
            return ans
        kw["relationship_checker"] = _port(is_async, check=rcheck)

    if hostile.get("metrics") and level == "top":
        def inc(name, labels=None):
            inner_metrics.inc(name, labels)
            _edit_top(labels, edits)

        def observe(name, value, labels=None):
            inner_metrics.observe(name, value, labels)
            _edit_top(labels, edits)
        kw["metrics"] = _port(is_async, inc=inc, observe=observe)
    return kw


def diff_paths(a, b, path="", out=None, limit=6):
    """paths at which two JSON-like values differ (first few)"""
    if out is None:
        out = []
    if len(out) >= limit:
        return out
    if isinstance(a, dict) and isinstance(b, dict):
        for k in list(a) + [k for k in b if k not in a]:
            if k not in a:
                out.append(f"{path}/{k}: added {b[k]!r}"[:160])
            elif k not in b:
                out.append(f"{path}/{k}: removed (was {a[k]!r})"[:160])
            else:
                diff_paths(a[k], b[k], f"{path}/{k}", out, limit)
            if len(out) >= limit:
                break
    elif isinstance(a, list) and isinstance(b, list) and len(a) == len(b):
        for i, (x, y) in enumerate(zip(a, b)):
            diff_paths(x, y, f"{path}[{i}]", out, limit)
    elif a != b or type(a) is not type(b):
        out.append(f"{path}: {a!r} -> {b!r}"[:160])
    return out


def run_hostile(case, T):
    """each request evaluated twice on one Guard whose collaborators edit what they are handed: the caller's
    request objects and the policy must stay deep-equal to their snapshots (and keep their containers), the second
    decision must equal the first, and both the decision of a fresh Guard with inert collaborators."""
    from rbacx.core.engine import Guard
    spec, hostile = case["collab"], case["hostile"]
    out = {"dec1": {}, "dec2": {}, "ref": {}, "mut": [], "edits": {}}
    ref_spec = dict(spec, cache=False)
    for ri, req in enumerate(case["requests"]):
        g0 = Guard(copy.deepcopy(case["policy"]), **Collab(ref_spec, "sync").kw)
        objs0 = mk_objs(copy.deepcopy(req))
        out["ref"][str(ri)] = guarded(lambda: dec_dict(asyncio.run(g0.evaluate_async(*objs0))), T)
    for mode in ("sync", "async"):
        for fl in HOSTILE_FLAVOURS:
            policy = copy.deepcopy(case["policy"])
            pol_ids = idmap(policy)
            edits = []
            g = Guard(policy, **hostile_kw(spec, hostile, mode, case["requests"], edits))
            for ri, req0 in enumerate(case["requests"]):
                req = copy.deepcopy(req0)
                objs = mk_objs(req)                  # the request objects hold req's own containers
                req_ids = idmap(req)
                k = f"{mode}/{fl}/{ri}"
                seen = set()
                for nth, slot in ((1, "dec1"), (2, "dec2")):
                    got = call_flavour(g, fl, objs, T)
                    out[slot][k] = "=ref" if got == out["ref"][str(ri)] else got      # keeps the report small
                    if got == ["!hang"]:
                        out["aborted_at"] = k
                        return out
                    s, a, r, c = objs
                    now = {"subject": {"id": s.id, "roles": s.roles, "attrs": s.attrs}, "action": a.name,
                           "resource": {"type": r.type, "id": r.id, "attrs": r.attrs},
                           "context": c.attrs if c is not None else None}
                    if "request" not in seen and (now != req0 or req != req0 or idmap(req) != req_ids):
                        seen.add("request")          # reported once; the second evaluation still runs, on what is left
                        now = lib.jsonable(now)
                        out["mut"].append({"at": k, "evaluation": nth, "what": "request", "after": now,
                                           "diff": diff_paths(req0, now) or ["containers replaced"],
                                           "nested_only": nested_only_request(req0, now)})
                    if "policy" not in seen and (policy != case["policy"] or g.policy is not policy
                                                 or idmap(policy) != pol_ids):
                        seen.add("policy")
                        d = diff_paths(case["policy"], lib.jsonable(g.policy), limit=40)
                        out["mut"].append({"at": k, "evaluation": nth, "what": "policy",
                                           "diff": d[:6] or ["containers replaced"],
                                           "nested_only": bool(d) and all(NESTED_POLICY_PATH.search(x) for x in d)})
                if "policy" in seen:                 # later requests start from the policy as it was given
                    policy = copy.deepcopy(case["policy"])
                    pol_ids = idmap(policy)
                    g = Guard(policy, **hostile_kw(spec, hostile, mode, case["requests"], edits))
            out["edits"][f"{mode}/{fl}"] = {e: edits.count(e) for e in sorted(set(edits))}
    return out


NESTED_POLICY_PATH = re.compile(r"/obligations\[\d+\]/|/ctx/[^/\[]+[/\[]")


def nested_only_request(req0, now):
    """the request differs from its snapshot only INSIDE containers that are values of the attrs / context
    mappings (depth >= 2): identity fields, roles, and the key sets and scalar values of the mappings are intact"""
    try:
        if (now["subject"]["id"], now["subject"]["roles"], now["action"], now["resource"]["type"], now["resource"]["id"]) != \
                (req0["subject"]["id"], req0["subject"]["roles"], req0["action"], req0["resource"]["type"], req0["resource"]["id"]):
            return False
        for m0, m1 in ((req0["subject"]["attrs"], now["subject"]["attrs"]),
                       (req0["resource"]["attrs"], now["resource"]["attrs"]), (req0["context"], now["context"])):
            if not isinstance(m0, dict) or not isinstance(m1, dict):
                if m0 != m1:
                    return False
                continue
            if set(m0) != set(m1):
                return False
            for k in m0:
                if m0[k] != m1[k] and not (isinstance(m0[k], (dict, list)) and type(m0[k]) is type(m1[k])):
                    return False
        return True
    except Exception:  # noqa: BLE001
        return False


# ---- two evaluations on one Guard from two threads, under the deterministic scheduler ---------------------------
# State that two evaluations on one Guard can share lives on objects reachable from the Guard: attributes of
# `self` (Guard, obligation checker), variables of an enclosing function (the compiled decision function's
# closure), mutable module globals.  The scheduler (harness/sched.py, sys.settrace) stops a thread before every
# line that mentions such a name, before every `with` line (lock acquisitions are seen before they happen) and
# before every loop header (an evaluation can be suspended between two rules / obligations it iterates over).  The
# decision itself runs in a worker thread of the evaluating thread's loop (asyncio.to_thread): that worker is traced
# with the same thread record, so its stop points are stop points of the evaluation.

IL_FILES = ["obligations", "compiler", "policy", "policyset", "engine"]
_IL_TABLE = {}


def il_files():
    import rbacx.core as core
    d = os.path.dirname(core.__file__)
    return [os.path.join(d, n + ".py") for n in IL_FILES]


def shared_state_lines(path):
    """{(function name, stripped line text)} of the lines of a source file that are stop points (see above);
    derived from the abstract syntax tree on every run, nothing is keyed to particular names."""
    src = open(path).read()
    lines = src.splitlines()
    tree = ast.parse(src)
    out = set()
    MUT = (ast.Dict, ast.List, ast.Set, ast.Call, ast.ListComp, ast.DictComp, ast.SetComp)
    module_mut = set()
    for st in tree.body:
        tg = st.targets if isinstance(st, ast.Assign) else [st.target] if isinstance(st, ast.AnnAssign) else []
        if tg and isinstance(getattr(st, "value", None), MUT):
            module_mut.update(t.id for t in tg if isinstance(t, ast.Name))

    def bound_in(fn):
        """names bound in the scope of fn itself (parameters, assignments, loop/with/except targets, nested defs)"""
        names = set()
        a = fn.args
        for x in a.posonlyargs + a.args + a.kwonlyargs + ([a.vararg] if a.vararg else []) + ([a.kwarg] if a.kwarg else []):
            names.add(x.arg)
        stack = list(fn.body) if isinstance(fn.body, list) else [fn.body]
        while stack:
            n = stack.pop()
            if isinstance(n, (ast.FunctionDef, ast.AsyncFunctionDef, ast.ClassDef)):
                names.add(n.name)
                continue
            if isinstance(n, ast.Lambda):
                continue
            if isinstance(n, ast.Name) and isinstance(n.ctx, (ast.Store, ast.Del)):
                names.add(n.id)
            if isinstance(n, ast.ExceptHandler) and n.name:
                names.add(n.name)
            stack.extend(ast.iter_child_nodes(n))
        return names

    def mark(fname, lineno, stmt_line):
        for ln in {lineno, stmt_line}:
            if ln and 0 < ln <= len(lines):
                out.add((fname, lines[ln - 1].strip()))

    def scan(fn, fname, outer):
        local = bound_in(fn)
        shared = (outer - local) | (module_mut - local)
        body = fn.body if isinstance(fn.body, list) else [fn.body]

        def walk(n, stmt_line):
            if isinstance(n, (ast.FunctionDef, ast.AsyncFunctionDef)):
                scan(n, n.name, outer | local)
                return
            if isinstance(n, ast.Lambda):
                scan(n, "<lambda>", outer | local)
                return
            if isinstance(n, ast.ClassDef):
                return
            if isinstance(n, ast.stmt):
                stmt_line = n.lineno
                if isinstance(n, (ast.For, ast.AsyncFor, ast.While, ast.With, ast.AsyncWith)):
                    mark(fname, n.lineno, n.lineno)
                if isinstance(n, (ast.Nonlocal, ast.Global)):
                    mark(fname, n.lineno, n.lineno)
            if isinstance(n, ast.Name) and n.id in shared:
                mark(fname, n.lineno, stmt_line)
            if isinstance(n, ast.Attribute) and isinstance(n.value, ast.Name) and n.value.id in ("self", "cls"):
                mark(fname, n.lineno, stmt_line)
            for ch in ast.iter_child_nodes(n):
                walk(ch, stmt_line)
        for st in body:
            walk(st, getattr(st, "lineno", None))

    def top(n):
        for ch in ast.iter_child_nodes(n):
            if isinstance(ch, (ast.FunctionDef, ast.AsyncFunctionDef)):
                scan(ch, ch.name, set())
            elif isinstance(ch, ast.ClassDef):
                top(ch)
    top(tree)
    return out


def il_filter():
    key = tuple(il_files())
    if key not in _IL_TABLE:
        table = set()
        for f in key:
            table |= shared_state_lines(f)
        _IL_TABLE[key] = table
    table = _IL_TABLE[key]

    def stop_filter(func, text, is_exit):
        t = text.strip()
        return (func, t) in table or t.startswith(("with ", "async with "))
    return stop_filter


class ILRun:
    """one Guard, two threads T0/T1 each evaluating its own request on its own event loop, under a Scheduler"""

    def __init__(self, case, filt):
        import sched
        from concurrent.futures import ThreadPoolExecutor
        from rbacx.core.engine import Guard
        self.col = Collab(case["collab"], "sync")
        self.guard = Guard(copy.deepcopy(case["policy"]), **self.col.kw)
        self.s = sched.Scheduler(il_files(), None, filt, block_timeout=5.0, hard_timeout=10.0)
        self.out = [None, None]
        self.grants = [0, 0]
        for i in (0, 1):
            self.s.add("T%d" % i, self._target(i, mk_objs(copy.deepcopy(case["requests"][i])), ThreadPoolExecutor))

    def _target(self, i, objs, TPE):
        def target():
            t = self.s.threads["T%d" % i]
            # the worker thread that runs the decision (asyncio.to_thread) reports to the same thread record
            ex = TPE(max_workers=1, initializer=lambda: sys.settrace(self.s._make_tracer(t)))
            loop = asyncio.new_event_loop()
            try:
                loop.set_default_executor(ex)
                self.out[i] = dec_dict(loop.run_until_complete(self.guard.evaluate_async(*objs)))
            except Exception as e:  # noqa: BLE001
                self.out[i] = ["!raise", type(e).__name__, str(e)[:160]]
            finally:
                ex.shutdown(wait=True)
                loop.close()
        return target

    def grant(self, i):
        self.grants[i] += 1
        return self.s.step("T%d" % i)

    def run(self, segments):
        """segments: [[thread, n grants | None = to completion], ...]; a thread that cannot go on (it waits for a
        lock the other holds) lets the other run until it can.  Afterwards both run to completion, T0 first."""
        s = self.s
        problems = []
        for th, n in list(segments) + [[0, None], [1, None]]:
            done = 0
            for _ in range(20000):
                if s.is_done("T%d" % th) or (n is not None and done >= n):
                    break
                if s.enabled("T%d" % th):
                    r = self.grant(th)
                    done += 1
                    if r == "blocked":
                        problems.append("T%d did not reach its next stop point" % th)
                        break
                elif s.enabled("T%d" % (1 - th)):
                    self.grant(1 - th)
                else:
                    problems.append("deadlock: neither evaluation can go on")
                    break
            if problems:
                break
        if problems:
            s.finish()
        s.close()
        for n_, (res, exc) in s.results().items():
            if exc is not None:
                problems.append("%s raised %s: %s" % (n_, type(exc).__name__, str(exc)[:120]))
        return {"dec": list(self.out), "grants": list(self.grants), "problems": problems}


def il_solo(case, i):
    from rbacx.core.engine import Guard
    g = Guard(copy.deepcopy(case["policy"]), **Collab(case["collab"], "sync").kw)
    objs = mk_objs(copy.deepcopy(case["requests"][i]))
    loop = asyncio.new_event_loop()
    try:
        return dec_dict(loop.run_until_complete(g.evaluate_async(*objs)))
    except Exception as e:  # noqa: BLE001
        return ["!raise", type(e).__name__, str(e)[:160]]
    finally:
        loop.close()


def il_schedules(n0, n1, seed, two):
    """every schedule with exactly one pre-emption: T0 is granted k steps (0 < k < n0), T1 runs to completion, T0
    finishes — and the same with the threads exchanged; the two sequential orders; `two` schedules with two
    pre-emptions drawn with the given seed."""
    import random
    sch = [[[0, None], [1, None]], [[1, None], [0, None]]]
    sch += [[[0, k], [1, None]] for k in range(1, n0)]
    sch += [[[1, k], [0, None]] for k in range(1, n1)]
    rng = random.Random(seed)
    for _ in range(two if n0 > 1 and n1 > 1 else 0):
        a = rng.randrange(2)
        na, nb = (n0, n1) if a == 0 else (n1, n0)
        sch.append([[a, rng.randrange(1, na)], [1 - a, rng.randrange(1, nb)], [a, None]])
    return sch


def run_interleave(case, T):
    filt = il_filter()
    solo = [il_solo(case, 0), il_solo(case, 1)]
    out = {"solo": solo, "fail": [], "nfail": 0, "problems": []}
    if case.get("sched") is not None:
        scheds = [case["sched"]]
    else:
        base = ILRun(case, filt).run([[0, None], [1, None]])
        out["steps"] = base["grants"]
        out["problems"] += base["problems"]
        scheds = il_schedules(base["grants"][0], base["grants"][1], case.get("seed", 0), case.get("two", 0))
    t0 = time.time()
    budget = float(case.get("budget") or 120.0)
    out["runs"] = 0
    for sc in scheds:
        if time.time() - t0 > budget:
            out["problems"].append("time budget of %.0fs used up after %d of %d schedules" % (budget, out["runs"], len(scheds)))
            break
        r = ILRun(case, filt).run(sc)
        out["runs"] += 1
        if r["problems"]:
            out["problems"] += ["%s: %s" % (json.dumps(sc), p) for p in r["problems"]][:3]
        bad = [i for i in (0, 1) if r["dec"][i] != solo[i]]
        if bad:
            out["nfail"] += 1
            if len(out["fail"]) < 4:
                out["fail"].append({"sched": sc, "dec": r["dec"], "differs": bad})
    return out


def run_gather(case, T):
    from rbacx.core.engine import Guard
    from concurrent.futures import ThreadPoolExecutor
    engines, cols = [], []
    for e in case["engines"]:
        col = Collab(e["collab"], e["mode"])
        cols.append(col)
        engines.append(Guard(e["policy"], **col.kw))
    pol_before = [copy.deepcopy(e["policy"]) for e in case["engines"]]
    reqs_before = copy.deepcopy(case["requests"])
    objs = [mk_objs(r) for r in case["requests"]]
    jobs = case["jobs"]

    async def seq():
        return [dec_dict(await engines[e].evaluate_async(*objs[r])) for e, r in jobs]

    async def conc():
        rs = await asyncio.gather(*[engines[e].evaluate_async(*objs[r]) for e, r in jobs])
        return [dec_dict(x) for x in rs]

    def threads():
        with ThreadPoolExecutor(max_workers=8) as ex:
            return [dec_dict(x) for x in ex.map(lambda j: engines[j[0]].evaluate_sync(*objs[j[1]]), jobs)]

    def threads_inloop():
        async def main():
            rs = await asyncio.gather(*[asyncio.to_thread(engines[e].evaluate_sync, *objs[r]) for e, r in jobs[:16]])
            return [dec_dict(x) for x in rs]
        return asyncio.run(main())

    out = {"mut": [], "expected_logs": [sum(1 for e, _ in jobs if e == i) for i in range(len(engines))]}
    out["seq"] = guarded(lambda: asyncio.run(seq()), T * 2)
    n_logs = [len(c.logs) for c in cols]
    for how, fn in (("gather", lambda: asyncio.run(conc())), ("threads", threads), ("threads_inloop", threads_inloop)):
        if any(out.get(h) == ["!hang"] for h in ("seq", "gather", "threads")):
            out["aborted_at"] = how
            return out
        out[how] = guarded(fn, T * 2)
        if how == "gather":
            out["logs_gather"] = [len(c.logs) - n for c, n in zip(cols, n_logs)]
    if [e["policy"] for e in case["engines"]] != pol_before:
        out["mut"].append("policy changed")
    if case["requests"] != reqs_before:
        out["mut"].append("requests changed")
    return out


POLICY_V = {"algorithm": "deny-overrides", "rules": [rule("p1", "permit")]}


def run_watchdog(case, T):
    """one configuration: main caller (and optionally a second caller) invoke the entry points in their
    calling contexts; did every call return within T?"""
    from rbacx.core.engine import Guard
    from rbacx.core.model import Action, Context, Resource, Subject
    from rbacx.policy.loader import HotReloader

    gate = threading.Event()        # opened by the orchestrator: lets a held polling thread go on
    in_load = threading.Event()     # the polling thread is inside source.load() (mid-check)
    in_setpol = threading.Event()   # the polling thread is inside Guard.set_policy (holds the reloader lock)
    sched = case.get("sched", "free")
    fault = case.get("fault")
    jitter = float(case.get("jitter") or 0.0)
    state = {"loads": 0, "n": 0}
    hr_box = {}

    def is_poller():
        hr = hr_box.get("hr")
        return hr is not None and threading.current_thread() is getattr(hr, "_thread", None)

    def do_etag():
        state["n"] += 1
        if fault == "etag_raises":
            raise OSError("etag down")
        return "v%d" % state["n"]            # always a new tag: every check loads and applies

    def do_load():
        state["loads"] += 1
        if sched == "midcheck" and is_poller() and not gate.is_set():
            in_load.set()
            gate.wait(T + 3)
        if jitter:
            time.sleep(jitter)
        if fault == "load_raises" or (fault == "load_raises_later" and state["loads"] > 1):
            raise FileNotFoundError("gone")
        return copy.deepcopy(POLICY_V)

    if case.get("src") == "async":
        class Src:
            async def etag(self):
                await asyncio.sleep(0)
                return do_etag()

            async def load(self):
                await asyncio.sleep(0)
                return do_load()
    else:
        class Src:
            def etag(self):
                return do_etag()

            def load(self):
                return do_load()

    class G(Guard):
        def set_policy(self, policy):
            if sched == "holding" and is_poller() and not gate.is_set():
                in_setpol.set()
                gate.wait(T + 3)
            if fault == "setpol_raises":
                raise ValueError("bad policy")
            return super().set_policy(policy)

    g = G(copy.deepcopy(POLICY_V))
    hr = HotReloader(g, Src(), initial_load=False, poll_interval=0.05, backoff_min=0.05, backoff_max=0.1)
    hr_box["hr"] = hr

    # lock events as the implementation performs them: (model thread id, acquired?/released, lock id).
    # Logged while the lock is held (after acquiring, before releasing), so the log order is a possible order
    # of the acquisitions and releases themselves.
    events = []
    cur_call = {"main": 0, "other": 0}

    def model_tid():
        th = threading.current_thread()
        tid = getattr(th, "_c14_tid", None)      # kept on the Thread object (idents are reused)
        if tid is not None:
            return tid
        if th is getattr(hr, "_thread", None):
            tid = 2
        elif case["ctx"] == "loop" and case.get("xctx", "plain") == "loop" and case.get("other"):
            tid = -1                 # helper of which caller? not decidable from outside: trace not checked
        elif case["ctx"] == "loop":
            tid = 3 + cur_call["main"]
        else:
            tid = 3 + len(case["main"]) + cur_call["other"]
        th._c14_tid = tid
        return tid

    class TracedLock:
        def __init__(self, inner, lock_id):
            self.inner, self.lock_id = inner, lock_id

        def acquire(self, *a, **k):
            ok = self.inner.acquire(*a, **k)
            if ok:
                events.append([model_tid(), True, self.lock_id])
            return ok

        def release(self):
            events.append([model_tid(), False, self.lock_id])
            self.inner.release()

        def __enter__(self):
            self.acquire()
            return self

        def __exit__(self, *exc):
            self.release()

    hr._lock = TracedLock(hr._lock, 0)
    g._state_lock = TracedLock(g._state_lock, 1)
    req = (Subject(id="u", roles=[], attrs={}), Action("read"), Resource(type="doc", id="1", attrs={}), Context({}))
    progress = []

    def releaser():
        time.sleep(0.3)
        gate.set()

    def do(call, who, ix):
        kind = call[0]
        if ix > 0 and sched in ("midcheck", "holding") and who == "main" and not state.get("releasing"):
            # before the main caller's first call after start(): wait until the polling thread is where the
            # scenario wants it, then make the call(s) while it is held there; it is let go 0.3 s later
            state["releasing"] = True
            (in_load if sched == "midcheck" else in_setpol).wait(2.0)
            threading.Thread(target=releaser, daemon=True).start()
        if kind == "check":
            hr.check_and_reload(force=bool(call[1]))
        elif kind == "refresh":
            hr.refresh_if_needed()
        elif kind == "poll_once":
            hr.poll_once()
        elif kind == "start":
            hr.start(0.05, initial_load=bool(call[1]), force_initial=bool(call[2]))
        elif kind == "stop":
            hr.stop(timeout=0.25 if call[1] else None)
        elif kind == "eval":
            g.evaluate_sync(*req)
        else:
            raise ValueError(kind)
        progress.append([who, kind])

    def caller(calls, ctx, who):
        def body():
            threading.current_thread()._c14_tid = 0 if who == "main" else 1
            for ix, c in enumerate(calls):
                cur_call[who] = ix
                do(c, who, ix)
        return in_loop(body) if ctx == "loop" else body

    box = {}

    def run_caller(name, fn):
        try:
            fn()
            box[name] = None
        except BaseException as e:  # noqa: BLE001
            box[name] = [type(e).__name__, str(e)[:200]]

    ths = [threading.Thread(target=run_caller, args=("main", caller(case["main"], case["ctx"], "main")), daemon=True)]
    if case.get("other"):
        ths.append(threading.Thread(target=run_caller,
                                    args=("other", caller(case["other"], case.get("xctx", "plain"), "other")), daemon=True))
    t0 = time.time()
    for th in ths:
        th.start()
    deadline = t0 + T
    for th in ths:
        th.join(max(0.0, deadline - time.time()))
    returned = not any(th.is_alive() for th in ths)
    hung_at_T = [n for n, th in zip(("main", "other"), ths) if th.is_alive()]
    late = False
    if not returned:
        # still blocked after T: a deadlock stays blocked, a starved machine eventually gets there
        for th in ths:
            th.join(max(0.0, deadline + T - time.time()))
        late = not any(th.is_alive() for th in ths)
        returned = late
    elapsed = round(time.time() - t0, 3)
    poll = getattr(hr, "_thread", None)
    evs = events[:400]
    res = {"returned": returned, "elapsed": elapsed, "raised": {k: v for k, v in box.items() if v},
           "events": evs if all(e[0] >= 0 for e in evs) else None,
           "progress": progress[:], "poller_alive_after": bool(poll and poll.is_alive()),
           "returned_late": late, "blocked_at_T": hung_at_T,
           "hung": [n for n, th in zip(("main", "other"), ths) if th.is_alive()]}
    # let everything that is still around run out
    gate.set()
    try:
        hr._stop_event.set()
    except Exception:  # noqa: BLE001
        pass
    return res


def run_coloop(case, T):
    """the ops of the case as tasks of one event loop (asyncio.gather) on one HotReloader/Guard; did the loop finish
    within T (2T: late), what did the calls return, where did the engine end?"""
    from rbacx.core.engine import Guard
    from rbacx.core.model import Action, Context, Resource, Subject
    from rbacx.policy.loader import HotReloader
    P0 = {"algorithm": "deny-overrides", "rules": []}
    P1 = copy.deepcopy(POLICY_V)
    spec = case["src"]
    state = {"loads": 0, "etags": 0}
    progress, box, hr_box = [], {}, {}
    req = (Subject(id="u", roles=[], attrs={}), Action("read"), Resource(type="doc", id="1", attrs={}), Context({}))

    def scenario():
        async def main():
            ev = asyncio.Event()

            async def wait(how):
                if how == "yield":
                    await asyncio.sleep(0)
                elif how == "sleep":
                    await asyncio.sleep(0.003)
                elif how == "event":
                    await ev.wait()

            if spec["kind"] == "async":
                class Src:
                    async def etag(self):
                        state["etags"] += 1
                        await wait(spec.get("etag_wait"))
                        return "v1"

                    async def load(self):
                        state["loads"] += 1
                        await wait(spec.get("load_wait"))
                        return copy.deepcopy(P1)
            else:
                class Src:
                    def etag(self):
                        state["etags"] += 1
                        return "v1"

                    def load(self):
                        state["loads"] += 1
                        return copy.deepcopy(P1)
            g = Guard(copy.deepcopy(P0))
            hr = HotReloader(g, Src(), initial_load=True, poll_interval=0.05, backoff_min=0.05, backoff_max=0.1)
            hr_box["hr"], hr_box["g"] = hr, g

            async def run_op(i, o):
                for _ in range(int(o.get("delay") or 0)):
                    await asyncio.sleep(0)
                k = o["op"]
                r = None
                if k == "acheck":
                    r = await hr.check_and_reload_async(force=bool(o.get("force")))
                elif k == "check":
                    r = hr.check_and_reload(force=bool(o.get("force")))         # blocking call made by a coroutine
                elif k == "start":
                    hr.start(0.05, initial_load=bool(o.get("initial")), force_initial=bool(o.get("force")))
                elif k == "stop":
                    hr.stop(timeout=0.25 if o.get("timed") else None)
                elif k == "eval":
                    r = g.evaluate_sync(*req).effect
                elif k == "aeval":
                    r = (await g.evaluate_async(*req)).effect
                elif k == "set_event":
                    ev.set()
                else:
                    raise ValueError(k)
                progress.append([i, k])
                return r
            if case.get("poller"):
                hr.start(0.05, initial_load=False)
            return await asyncio.gather(*[run_op(i, o) for i, o in enumerate(case["ops"])], return_exceptions=True)
        try:
            box["res"] = asyncio.run(main())
        except BaseException as e:  # noqa: BLE001
            box["exc"] = [type(e).__name__, str(e)[:200]]

    th = threading.Thread(target=scenario, daemon=True)
    t0 = time.time()
    th.start()
    th.join(T)
    late = False
    if th.is_alive():
        th.join(T)
        late = not th.is_alive()
    returned = not th.is_alive()
    hr, g = hr_box.get("hr"), hr_box.get("g")
    res = {"returned": returned, "returned_late": late, "elapsed": round(time.time() - t0, 3), "progress": progress[:],
           "not_returned_ops": [[i, o["op"]] for i, o in enumerate(case["ops"]) if [i, o["op"]] not in progress],
           "loads": state["loads"], "etags": state["etags"], "raised": box.get("exc")}
    if returned and "res" in box:
        res["results"] = [["!raise", type(x).__name__, str(x)[:160]] if isinstance(x, BaseException) else x for x in box["res"]]
        if case.get("poller") or any(o["op"] == "start" for o in case["ops"]):
            hr.stop(timeout=2.0)
        pol = g.policy
        res["final_policy"] = "source" if pol == P1 else "initial" if pol == P0 else "other"
        res["last_etag"] = hr.last_etag
    if hr is not None:
        try:
            hr._stop_event.set()
        except Exception:  # noqa: BLE001
            pass
    return res


def child_main():
    lib.assert_impl_path()
    data = json.loads(sys.stdin.read())
    T = float(data.get("T", T_HANG))
    hangs = 0
    for i, case in data["cases"]:
        if hangs >= 3:                   # enough evidence; the rest of this shard is reported as not run
            sys.stdout.write(json.dumps({"i": i, "r": {"skipped": "after 3 hanging cases in this child"}}) + "\n")
            continue
        try:
            if case["kind"] == "flavours":
                r = run_flavours(case, T)
            elif case["kind"] == "gather":
                r = run_gather(case, T)
            elif case["kind"] == "hostile":
                r = run_hostile(case, T)
            elif case["kind"] == "interleave":
                r = run_interleave(case, T)
            elif case["kind"] == "watchdog":
                r = run_watchdog(case, T)
            elif case["kind"] == "coloop":
                r = run_coloop(case, T)
            else:
                r = {"error": "unknown kind"}
        except BaseException as e:  # noqa: BLE001
            import traceback
            r = {"error": "harness: " + "".join(traceback.format_exception_only(type(e), e))[:300]
                 + " @ " + traceback.format_exc()[-600:]}
        if isinstance(r, dict) and ("aborted_at" in r or r.get("returned") is False):
            hangs += 1
        sys.stdout.write(json.dumps({"i": i, "r": lib.jsonable(r)}) + "\n")
        sys.stdout.flush()
    sys.stdout.flush()
    os._exit(0)                     # do not wait for hung daemon threads


# =====================================================================================
# parent: run children, judge
# =====================================================================================


def case_cost(c):
    if c["kind"] == "hostile":
        return 0.12 * max(1, len(c.get("requests") or []))
    if c["kind"] == "interleave":
        return 0.3 if c.get("sched") is not None else 6.0
    return {"flavours": 0.5, "gather": 0.6, "watchdog": 0.7, "coloop": 0.4}.get(c["kind"], 0.1)


def run_children(cases, T=T_HANG, nproc=None):
    """results aligned with cases; a case whose child had to be killed gets {'error': 'child_killed'}."""
    idx = [(i, c) for i, c in enumerate(cases) if c["kind"] in ("flavours", "gather", "watchdog", "hostile", "interleave", "coloop")]
    results = [None] * len(cases)
    if not idx:
        return results
    nproc = nproc or min(12, max(1, (os.cpu_count() or 4) - 2), len(idx))
    shards = [[] for _ in range(nproc)]
    for k, ic in enumerate(sorted(idx, key=lambda ic: -case_cost(ic[1]))):
        shards[k % nproc].append(ic)
    env = dict(os.environ, PYTHONHASHSEED="0", PYTHONDONTWRITEBYTECODE="1")
    procs = []
    for sh in shards:
        if not sh:
            continue
        p = subprocess.Popen([sys.executable, "-u", HERE, "--child"], stdin=subprocess.PIPE, stdout=subprocess.PIPE,
                             stderr=subprocess.DEVNULL, text=True, env=env)
        p.stdin.write(json.dumps({"T": T, "cases": [[i, lib.jsonable(c)] for i, c in sh]}))
        p.stdin.close()
        # every child's output is drained from the start: a child whose pipe is full would otherwise stand still
        # until the children before it are done (the shards would run one after the other and overrun their budgets)
        lines = []
        reader = threading.Thread(target=lambda p=p, lines=lines: lines.extend(p.stdout), daemon=True)
        reader.start()
        # budget: normal cost, plus room for every case of the shard to hang once
        procs.append((p, sh, time.time() + 30 + sum(case_cost(c) for _, c in sh) * 4 + 3 * 2 * T, reader, lines))
    for p, sh, deadline, reader, lines in procs:
        reader.join(max(1.0, deadline - time.time()))
        if reader.is_alive():
            p.kill()
            reader.join(5)
        p.wait()
        for ln in lines:
            try:
                d = json.loads(ln)
                results[d["i"]] = d["r"]
            except Exception:  # noqa: BLE001
                pass
        first = True
        for i, _ in sh:                  # the child runs its cases in this order and reports after each one
            if results[i] is None:
                results[i] = {"error": "child_killed"} if first else {"skipped": "child was killed on an earlier case"}
                first = False
    return results


def model_config(c):
    def mcall(k):
        if k[0] in ("refresh", "poll_once"):
            return ["check", False]
        return list(k)
    return {"start": "cur", "stop": "cur", "ctx": c["ctx"], "main": [mcall(k) for k in c["main"]],
            "xctx": c.get("xctx", "plain"), "other": [mcall(k) for k in c.get("other") or []]}


def model_verdicts(cfgs, versions=("cur", "cur")):
    lines = [lib.model_call("conc.verdict", dict(c, start=versions[0], stop=versions[1])) for c in cfgs]
    return [lib.dec(x) for x in lib.run_model("conc", lines, chunk=3, procs=max(2, (os.cpu_count() or 4) - 2))]


def strip(c):
    return {k: v for k, v in c.items() if k != "fam"}


def judge_flavours(chk, c, r):
    name = c.get("name", "?")
    if "error" in r:
        if r["error"] == "child_killed":
            chk.violation("an evaluation entry point did not return (the child process running this case had to be "
                          "killed)", strip(c), impl=r, model="every API flavour returns the decision of the one core")
        else:
            chk.notes.append(f"harness error on flavours case {name}: {r['error'][:300]}")
            chk.corr_break("harness could not run a flavours case", strip(c), impl=r, theorems=["c14_pure"])
        return
    dec = r["dec"]
    nreq = len(c["requests"])
    for ri in range(nreq):
        if f"sync/async_run/{ri}" not in dec:
            break
        ref = dec[f"sync/async_run/{ri}"]
        ref_logs = r["logs"][f"sync/async_run/{ri}"]
        ref_metrics = r["metrics"][f"sync/async_run/{ri}"]
        nontrivial = isinstance(ref, dict) and (ref.get("allowed") or ref.get("reason") not in ("no_match", "action_mismatch"))
        for mode in ("sync", "async", "awaitable"):
            for fl in FLAVOURS:
                k = f"{mode}/{fl}/{ri}"
                if k not in dec:
                    continue
                got = dec[k]
                chk.mark(("fl", name, json.dumps(c["collab"], sort_keys=True), k), bool(nontrivial))
                chk.count("flavour:" + fl)
                if isinstance(got, list) and got[:1] == ["!hang"]:
                    chk.count("outcome:hang")
                    chk.violation(f"{fl} with {mode} collaborators did not return within {T_HANG}s", dict(strip(c), at=k),
                                  impl=got, model=ref)
                    continue
                want = ref
                if fl.startswith("allowed") and isinstance(ref, dict):
                    want = ref["allowed"]
                if got != want:
                    chk.count("outcome:differs")
                    chk.violation(f"API flavours disagree: {k} differs from evaluate_async under asyncio.run with "
                                  "synchronous collaborators on the same policy and request",
                                  dict(strip(c), at=k), impl=got, model=want)
                    continue
                if isinstance(got, list) and got[:1] == ["!raise"]:
                    chk.count("outcome:raise_everywhere")
                if r["logs"][k] != ref_logs:
                    chk.violation(f"decision-log payloads differ between API flavours at {k}", dict(strip(c), at=k),
                                  impl=r["logs"][k], model=ref_logs)
                if r["metrics"][k] != ref_metrics:
                    chk.violation(f"metric calls differ between API flavours at {k}", dict(strip(c), at=k),
                                  impl=r["metrics"][k], model=ref_metrics)
        if isinstance(ref, dict):
            chk.count("decision:%s/%s" % (ref.get("effect"), ref.get("reason")))
            if ref.get("allowed") is False and ref.get("effect") == "deny" and ref.get("reason") == "obligation_failed":
                chk.count("outcome:obligation_unmet")
    for m in r["mut"]:
        chk.violation("evaluation mutated its inputs: " + m, strip(c), impl=r["mut"], model="deep-equal and identical")
    chk.sample({"case": name, "collab": c["collab"], "request0": c["requests"][0],
                "decision0": dec.get("sync/async_run/0")}, every=37)


NESTED_TAG = "c14-nested-alias"      # KNOWN_FINDINGS entry (property C14) for aliasing below the first level


def nested_alias_finding():
    for f in lib.known_findings("C14"):
        if f.get("tag") == NESTED_TAG:
            return f
    return None


def judge_hostile(chk, c, r):
    name = c.get("name", "?")
    h = c.get("hostile") or {}
    level = h.get("level", "top")
    if "error" in r:
        if r["error"] == "child_killed":
            chk.violation("an evaluation entry point did not return with collaborators that edit what they are handed "
                          "(the child process running this case had to be killed)", strip(c), impl=r, model="returns")
        else:
            chk.notes.append(f"harness error on hostile case {name}: {r['error'][:300]}")
            chk.corr_break("harness could not run a hostile-collaborator case", strip(c), impl=r, theorems=["c14_pure"])
        return
    chk.count("hostile:level=" + level)
    chk.count("hostile:sink=%s" % h.get("sink"))
    for what in ("roles", "oblig", "rel", "metrics"):
        if h.get(what):
            chk.count("hostile:" + what)
    for fk, e in (r.get("edits") or {}).items():
        for what, n in e.items():
            chk.count("hostile_edits:" + what, n)
    muts = {}
    for m in r.get("mut") or []:
        muts.setdefault(m["at"], []).append(m)
    fails = []          # (key, clause, impl, model, in the class of the nested-aliasing finding?)
    for k, d1 in r["dec1"].items():
        mode, fl, ri = k.split("/")
        ref = r["ref"].get(ri)
        d1 = ref if d1 == "=ref" else d1
        d2 = r["dec2"].get(k)
        d2 = ref if d2 == "=ref" else d2
        edited = bool((r.get("edits") or {}).get(f"{mode}/{fl}")) or f"{mode}/{fl}" not in (r.get("edits") or {})
        nontrivial = edited and isinstance(ref, dict) and (ref.get("allowed") or ref.get("reason") not in ("no_match", "action_mismatch"))
        chk.mark(("hostile", name, json.dumps(c["collab"], sort_keys=True), json.dumps(h, sort_keys=True), k), bool(nontrivial))
        chk.count("hostile_flavour:" + fl)
        in_class = level == "nested" and bool(muts.get(k)) and all(m.get("nested_only") for m in muts[k])
        for slot, got in (("first", d1), ("second", d2)):
            if isinstance(got, list) and got[:1] == ["!hang"]:
                fails.append((k, f"{fl} with {mode} collaborators that edit what they are handed did not return within "
                              f"{T_HANG}s ({slot} evaluation)", got, ref, False))
        for m in muts.get(k, []):
            fails.append((k, "evaluating mutated the caller's %s: a collaborator (%s) edited in place what the engine "
                          "handed it, and that was not a private copy — after evaluation %d at %s: %s"
                          % (m["what"], _hostile_desc(h), m["evaluation"], k, "; ".join(m["diff"][:4])),
                          m, "deep-equal to the snapshot taken before the call", in_class))
        if d1 == ["!hang"] or d2 == ["!hang"] or d2 is None:
            continue
        if d1 != d2:
            fails.append((k, "the second evaluation of the same request objects on the same Guard gave another decision "
                          f"than the first ({k}; collaborators edit what they are handed: {_hostile_desc(h)})",
                          {"first": d1, "second": d2}, {"first": d1, "second": d1}, in_class))
        elif d1 != ref:
            fails.append((k, "the decision differs from the one a fresh Guard with inert collaborators gives for the same "
                          f"policy and request although the collaborators give the same answers ({k}; {_hostile_desc(h)})",
                          d1, ref, in_class))
    if not fails:
        chk.count("hostile:clean")
        chk.sample({"hostile_case": name, "hostile": h, "collab": c["collab"], "edits": r.get("edits"),
                    "decision0": r["ref"].get("0")}, every=23)
        return
    finding = nested_alias_finding()
    known = [f for f in fails if f[4] and finding is not None and finding.get("status") == "open"]
    other = [f for f in fails if f not in known]
    if known:
        chk.known(finding["id"])
        chk.count("hostile:known_" + finding["id"])
    reported = set()
    for k, clause, impl, model, _ in other:
        kind = clause[:40]
        if kind in reported or len(reported) >= 3:       # one report per kind of failure and case
            continue
        reported.add(kind)
        chk.count("hostile:VIOLATION")
        chk.violation(clause, dict(strip(c), at=k), impl=impl, model=model)


def _hostile_desc(h):
    parts = []
    if h.get("sink") == "mutator":
        parts.append("log sink editing its payload")
    elif h.get("sink"):
        parts.append("DecisionLogger(redact_in_place=True%s)" % (", use_default_redactions=True" if h["sink"].endswith("default") else ", redactions=<request attribute paths>"))
    parts += [n for n, f in (("role resolver editing the role list", "roles"), ("obligation checker editing the raw decision", "oblig"),
                             ("relationship checker editing its context", "rel"), ("metrics sink editing the labels", "metrics")) if h.get(f)]
    return ", ".join(parts) + "; level " + h.get("level", "top")


def judge_interleave(chk, c, r):
    name = c.get("name", "?")
    if "error" in r:
        if r["error"] == "child_killed":
            chk.violation("two evaluations on one Guard from two threads under the scheduler did not finish (the child "
                          "process running this case had to be killed)", strip(c), impl=r, model="both return")
        else:
            chk.notes.append(f"harness error on interleave case {name}: {r['error'][:300]}")
            chk.corr_break("harness could not run an interleaving case", strip(c), impl=r, theorems=["c14_pure"])
        return
    solo = r["solo"]
    differ = solo[0] != solo[1]
    key = (name, json.dumps(c["collab"], sort_keys=True), json.dumps(c.get("sched")))
    for i in range(r.get("runs", 0)):
        chk.mark(("interleave",) + key + (i,), differ)
    chk.count("interleave:cases")
    chk.count("interleave:schedules", r.get("runs", 0))
    chk.count("interleave:solo_decisions_" + ("differ" if differ else "equal"))
    if r.get("steps"):
        chk.count("interleave:stop_points<=%d" % (25 * (1 + max(r["steps"]) // 25)))
    for p in (r.get("problems") or [])[:2]:
        chk.count("interleave:scheduler_note")
        chk.notes.append(f"interleave case {name}: {p}"[:300])
    if r.get("nfail"):
        chk.count("interleave:VIOLATION")
    for f in (r.get("fail") or [])[:2]:
        who = " and ".join("T%d" % i for i in f["differs"])
        chk.violation("concurrent evaluations affect each other: two requests evaluated on ONE Guard from two threads, "
                      "interleaved as in `sched` ([[thread, stop points granted | null = to completion], ...], stop points "
                      f"= lines touching self./closure/global state, with lines, loop headers): the decision of {who} "
                      "differs from the decision the same request gets alone on a fresh Guard "
                      f"({r['nfail']} of {r['runs']} schedules of this pair differ)",
                      dict(strip(c), sched=f["sched"]), impl={"decisions_interleaved": f["dec"]},
                      model={"decisions_alone": solo})
    chk.sample({"interleave_case": name, "steps": r.get("steps"), "schedules": r.get("runs"), "solo": solo}, every=11)


def judge_gather(chk, c, r):
    name = c.get("name", "?")
    if "error" in r:
        if r["error"] == "child_killed":
            chk.violation("concurrent evaluations did not return (child killed)", strip(c), impl=r)
        else:
            chk.notes.append(f"harness error on gather case {name}: {r['error'][:300]}")
            chk.corr_break("harness could not run a gather case", strip(c), impl=r, theorems=["c14_gather_sequential"])
        return
    seq = r["seq"]
    if seq == ["!hang"]:
        chk.violation("sequential evaluate_async calls did not return", strip(c), impl=seq, model="returns")
        return
    for how in ("gather", "threads", "threads_inloop"):
        if how not in r:
            continue
        got = r[how]
        want = seq if how != "threads_inloop" else (seq[:16] if isinstance(seq, list) and seq[:1] != ["!hang"] else seq)
        chk.mark(("gather", name, how), True)
        chk.count("concurrent:" + how)
        if isinstance(got, list) and got[:1] == ["!hang"]:
            chk.violation(f"concurrent evaluations ({how}) did not return", dict(strip(c), at=how), impl=got, model="returns")
        elif got != want:
            bad = [i for i, (a, b) in enumerate(zip(got, want)) if a != b][:5] if isinstance(got, list) and isinstance(want, list) else None
            chk.violation(f"cross-talk: results of concurrent evaluations ({how}) differ from the sequential results",
                          dict(strip(c), at=how, first_differing_jobs=bad),
                          impl=[got[i] for i in bad] if bad else got, model=[want[i] for i in bad] if bad else want)
    if "logs_gather" in r and r.get("logs_gather") != r.get("expected_logs"):
        chk.violation("cross-talk: decision-log sinks did not receive exactly their engine's decisions under gather",
                      strip(c), impl=r.get("logs_gather"), model=r.get("expected_logs"))
    for m in r["mut"]:
        chk.violation("concurrent evaluation mutated its inputs: " + m, strip(c), impl=r["mut"])


def judge_coloop(chk, c, r):
    """judged on the implementation alone: the lock model (Conc.v) has threads, not coroutines suspended on a loop"""
    name = c.get("name", "?")
    ctxname = "several coroutines of one running loop"
    if "error" in r:
        if r["error"] == "child_killed":
            chk.violation(f"entry points called in the context '{ctxname}' never returned (child process killed)",
                          strip(c), impl=r, model="every call returns")
        else:
            chk.notes.append(f"harness error on coloop case {name}: {r['error'][:300]}")
            chk.corr_break("harness could not run a coroutine-context case", strip(c), impl=r, theorems=THEOREMS)
        return
    chk.mark(("coloop", name, json.dumps(c["src"], sort_keys=True), json.dumps(c["ops"], sort_keys=True)), True)
    chk.count("coloop:src=%s/%s/%s" % (c["src"]["kind"], c["src"].get("etag_wait"), c["src"].get("load_wait")))
    chk.count("coloop:ops=" + "+".join(o["op"] for o in c["ops"]) + ("|poller" if c.get("poller") else ""))
    chk.count("coloop:returned" if r["returned"] else "coloop:HUNG")
    if r.get("returned_late"):
        chk.count("coloop:returned_late(>%.0fs)" % T_HANG)
        chk.notes.append("slow, not hung: coloop %s returned after %.1fs" % (name, r["elapsed"]))
    ops = "; ".join("%s(%s)" % (o["op"], ",".join(f"{k}={v}" for k, v in o.items() if k not in ("op", "delay"))) for o in c["ops"])
    if not r["returned"]:
        chk.violation("blocking entry points do not return in the calling context '%s': tasks of ONE event loop [%s]%s on "
                      "one HotReloader with a %s source (etag waits: %s, load waits: %s) - the loop had not finished "
                      "after %.0fs; calls that had not returned: %s; returned: %s"
                      % (ctxname, ops, ", polling thread running" if c.get("poller") else "", c["src"]["kind"],
                         c["src"].get("etag_wait"), c["src"].get("load_wait"), 2 * T_HANG,
                         json.dumps(r["not_returned_ops"]), json.dumps(r["progress"])),
                      strip(c), impl=r, model="every call returns (judged on the implementation; the lock model has no "
                                              "coroutines)")
        return
    raised = [x for x in r.get("results") or [] if isinstance(x, list) and x[:1] == ["!raise"]]
    if r.get("raised") or raised:
        chk.violation(f"an entry point raised in the calling context '{ctxname}' instead of returning: "
                      + json.dumps(r.get("raised") or raised)[:300], strip(c), impl=r, model="every call returns")
        return
    checks = [x for o, x in zip(c["ops"], r.get("results") or []) if o["op"] in ("acheck", "check")]
    expects_load = bool(checks) or any(o["op"] == "start" and o.get("initial") for o in c["ops"])
    if expects_load and (r.get("final_policy") != "source" or r.get("last_etag") != "v1"
                         or (checks and not any(x is True for x in checks)
                             and not c.get("poller") and not any(o["op"] == "start" for o in c["ops"]))):
        chk.violation("overlapping reload checks on one event loop leave an inconsistent result: the source holds one "
                      "document (tag v1) that differs from the engine's, checks ran [%s], yet final policy = %s, "
                      "last_etag = %r, check results = %s" % (ops, r.get("final_policy"), r.get("last_etag"), json.dumps(checks)),
                      strip(c), impl=r, model={"final_policy": "source", "last_etag": "v1", "some check": True})
    chk.sample({"coloop": name, "impl": r}, every=41)


def judge_watchdog(chk, c, r, mv, replay):
    key = (c["ctx"], json.dumps(c["main"]), c.get("xctx"), json.dumps(c.get("other")), c.get("sched"), c.get("src"),
           c.get("fault"), c.get("rep"))
    chk.mark(("wd",) + key, True)
    chk.count("watchdog:ctx=" + c["ctx"])
    chk.count("watchdog:sched=" + c.get("sched", "free"))
    chk.count("watchdog:calls=" + "+".join(k[0] for k in c["main"]) + ("|" + "+".join(k[0] for k in c["other"]) if c.get("other") else ""))
    verified = isinstance(mv, dict) and mv.get("verified") is True
    model = {"verified_deadlock_free": verified, "states": mv.get("states") if isinstance(mv, dict) else None,
             "model_deadlock": mv.get("deadlock") if isinstance(mv, dict) else mv}
    if "error" in r:
        if r["error"] == "child_killed":
            chk.violation("blocking entry point never returned (child process killed)", strip(c), impl=r, model=model)
        else:
            chk.notes.append("harness error on watchdog case: " + r["error"][:300])
            chk.corr_break("harness could not run a watchdog case", strip(c), impl=r, theorems=THEOREMS)
        return
    chk.count("watchdog:returned" if r["returned"] else "watchdog:HUNG")
    if r.get("returned_late"):
        chk.count("watchdog:returned_late(>%.0fs)" % T_HANG)
        chk.notes.append("slow, not hung: %s returned after %.1fs" % (json.dumps(strip(c))[:200], r["elapsed"]))
    if isinstance(mv, dict):
        chk.count("model_states:<=%d" % (10 ** len(str(mv.get("states", 0)))))
    if not r["returned"]:
        # what the pre-fix lock programs say about this configuration (diagnosis only)
        try:
            pre = model_verdicts([model_config(c)], ("pre", "pre"))[0]
            model["prefix_model_deadlock"] = pre.get("deadlock")
        except Exception:  # noqa: BLE001
            pass
        chk.violation("a blocking entry point did not return within %.0fs in this calling context: %s still blocked "
                      "after %s" % (2 * T_HANG, "/".join(r["hung"]), json.dumps(r["progress"])),
                      strip(c), impl=r, model=model)
    elif r["raised"]:
        chk.violation("a blocking entry point raised in this calling context instead of returning: %s"
                      % json.dumps(r["raised"]), strip(c), impl=r, model=model)
    elif not verified:
        chk.corr_break("the lock model of the current code does not verify this configuration although the "
                       "implementation returned on the sampled schedule", strip(c), impl=r, model=model, theorems=THEOREMS)
    chk.sample({"watchdog": strip(c), "impl": r, "model": {k: model[k] for k in ("verified_deadlock_free", "states")}},
               every=53)


def check_skeletons(chk):
    model = lib.dec(lib.run_model("conc", [lib.model_call("conc.skeletons")])[0])
    try:
        src = source_skeletons()
    except Exception as e:  # noqa: BLE001
        chk.count("skeleton_not_derivable")      # evidence only, like a difference; run() widens the dynamic family
        chk.notes.append("could not derive the lock skeleton of loader.py / engine.py: %r" % (e,))
        return
    chk.extra["source_skeletons"] = src
    for name, want in model.items():
        got = src.get(name)
        chk.mark(("skeleton", name), True)
        chk.count("skeleton_checked")
        if got != want:
            # A static difference alone is not a verdict (extracting or inlining a helper changes the skeleton without
            # changing behaviour): it is recorded, and run() answers it by exercising every configuration of the
            # theorem's family on the implementation (the behavioural tie), where a hang IS a violation.
            chk.count("skeleton_differs")
            chk.extra.setdefault("skeleton_differences", {})[name] = {"source": got, "model_transcribed_from": want}
            chk.notes.append("lock skeleton of %s in the source differs from the one the lock programs of Conc.v were "
                             "transcribed from; the whole theorem family was run on the implementation instead" % name)


TRACE_F10 = [[0, False]] * 4
TRACE_F11 = [[0, False]] * 13 + [[2, False], [0, False]]
TRACE_F11_MID = ([[0, False]] * 11 + [[2, False], [2, False], [2, True], [2, False], [2, True], [2, False], [2, True],
                                    [2, True]] + [[0, False]] * 3 + [[2, False]])


def check_witness_schedules(chk):
    """the schedules proved deadlocking in Coq (c14_refuted_*), replayed through the extracted runner: they must
    deadlock in the pre-fix programs and must not in the current ones (cross-check of extraction)."""
    f10 = {"ctx": "loop", "main": [["start", True, False]], "xctx": "plain", "other": []}
    f11 = {"ctx": "plain", "main": [["start", False, False], ["stop", False]], "xctx": "plain", "other": []}
    asks = [("F10/pre", dict(f10, start="pre", stop="pre"), TRACE_F10, True),
            ("F11/pre", dict(f11, start="cur", stop="pre"), TRACE_F11, True),
            ("F11mid/pre", dict(f11, start="cur", stop="pre"), TRACE_F11_MID, True),
            ("F10/cur", dict(f10, start="cur", stop="cur"), TRACE_F10, False),
            ("F11/cur", dict(f11, start="cur", stop="cur"), TRACE_F11, False),
            ("F11mid/cur", dict(f11, start="cur", stop="cur"), TRACE_F11_MID, False)]
    outs = lib.run_model("conc", [lib.model_call("conc.schedule", cfg, tr) for _, cfg, tr, _ in asks])
    seen = {}
    for (name, cfg, tr, want), o in zip(asks, outs):
        d = lib.dec(o)
        got = d.get("deadlocked") if isinstance(d, dict) else d
        seen[name] = got
        chk.mark(("witness", name), True)
        if got is not want:
            chk.corr_break("extracted lock model disagrees with the Coq witness for %s (deadlocked: expected %s)"
                           % (name, want), {"kind": "witness", "name": name, "config": cfg, "trace": tr}, impl=None,
                           model=d, theorems=["c14_refuted_start_in_loop", "c14_refuted_stop_none_midcheck"])
    chk.extra["witness_schedules_deadlocked"] = seen


def check_cases(chk, cases, replay=False):
    cases = [c for c in cases if isinstance(c, dict)]
    results = run_children(cases)
    wcases = [(i, c) for i, c in enumerate(cases) if c["kind"] == "watchdog"]
    cfgs = {}
    for _, c in wcases:
        cfgs.setdefault(json.dumps(model_config(c), sort_keys=True), model_config(c))
    keys = list(cfgs)
    mvs = dict(zip(keys, model_verdicts([cfgs[k] for k in keys]))) if keys else {}
    # trace inclusion: the lock events observed on the implementation must be a run of the model
    tr_idx = [i for i, c in wcases if isinstance(results[i], dict) and results[i].get("events")]
    tr_out = lib.run_model("conc", [lib.model_call("conc.accepts", model_config(cases[i]), results[i]["events"])
                                    for i in tr_idx], chunk=2, procs=max(2, (os.cpu_count() or 4) - 2)) if tr_idx else []
    accepts = {i: lib.dec(o) for i, o in zip(tr_idx, tr_out)}
    chk.extra["lock_traces_checked"] = len(tr_idx)
    chk.extra["lock_events_checked"] = sum(len(results[i]["events"]) for i in tr_idx)
    chk.extra["model_configurations_asked"] = len(keys)
    chk.extra["model_states_explored"] = sum(v.get("states", 0) for v in mvs.values() if isinstance(v, dict))
    for i, c in enumerate(cases):
        r = results[i]
        if isinstance(r, dict) and "skipped" in r:
            chk.count("not_run:" + r["skipped"])
            continue
        if c["kind"] == "flavours":
            judge_flavours(chk, c, r)
        elif c["kind"] == "gather":
            judge_gather(chk, c, r)
        elif c["kind"] == "hostile":
            judge_hostile(chk, c, r)
        elif c["kind"] == "interleave":
            judge_interleave(chk, c, r)
        elif c["kind"] == "watchdog":
            judge_watchdog(chk, c, r, mvs[json.dumps(model_config(c), sort_keys=True)], replay)
            acc = accepts.get(i)
            if acc is not None:
                chk.mark(("trace", json.dumps(strip(c), sort_keys=True)), True)
                chk.count("lock_trace:" + ("accepted" if isinstance(acc, dict) and acc.get("accepted") else "REJECTED"))
                if not (isinstance(acc, dict) and acc.get("accepted")):
                    k = acc.get("first_unmatched") if isinstance(acc, dict) else None
                    evs = r["events"]
                    chk.corr_break("the sequence of lock acquisitions/releases observed on the implementation is not a "
                                   "run of the lock model (event %s: thread %s %s lock %s)"
                                   % (k, evs[k][0] if k is not None else "?",
                                      ("acquires" if evs[k][1] else "releases") if k is not None else "?",
                                      evs[k][2] if k is not None else "?"),
                                   strip(c), impl={"events": evs[: (k or 0) + 3], "first_unmatched": k},
                                   model=acc, theorems=THEOREMS)
        elif c["kind"] == "coloop":
            judge_coloop(chk, c, r)
        elif c["kind"] == "skeleton":
            check_skeletons(chk)
        elif c["kind"] == "witness":
            check_witness_schedules(chk)


def run(chk):
    chk.rule = ("(a) policies (permit, deny, no match, three algorithms, conditions, roles via resolver, obligations "
                "met/unmet/custom, rel conditions, policy sets; plus random assemblies) x 6 requests x 3 collaborator "
                "sets x {sync, async} collaborators x 8 API flavours, compared with evaluate_async under asyncio.run; "
                "the same policies with collaborators that edit in place what they are handed (log payload/env, "
                "DecisionLogger(redact_in_place=True), role list, raw decision, relationship context, labels) x {sync, "
                "async} x 5 API flavours, each request evaluated twice: request and policy vs deep snapshots, second vs "
                "first decision vs a fresh Guard with inert collaborators; "
                "50 concurrent evaluations (gather, threads, threads under a loop) on one or two engines vs sequential; "
                "two different requests evaluated on one Guard from two threads (each on its own event loop, the "
                "to_thread worker traced too) under the deterministic line scheduler (stop points: every line of "
                "core/{obligations,compiler,policy,policyset,engine}.py that mentions self./cls., a variable of an "
                "enclosing function or a mutable module global, every with line, every loop header): ALL schedules with "
                "exactly one pre-emption (T0 granted k stop points, T1 to completion, T0 finishes; every k; and with "
                "the threads exchanged), both sequential orders, and a seeded sample with two pre-emptions (6 per pair "
                "quick, 10-20 thorough) — each Decision vs the same request alone on a fresh Guard (policies: 3 "
                "obligations per permit, specificity tiers with rel conditions, a policy set; quick 2 request pairs "
                "per policy, thorough up to all 21 pairs, with and without cache); "
                "(b') calling context 'several coroutines of one running loop': 2-3 overlapping "
                "check_and_reload_async(force in {F,T}) via asyncio.gather, and blocking check_and_reload / start / stop / "
                "evaluate_sync called by a coroutine while an async check of the same reloader is in flight on that loop, "
                "x {sync source, async source returning at once / yielding / sleeping in etag or load / waiting for an "
                "asyncio.Event set by another task} x {polling thread running or not}: the loop finishes within the "
                "watchdog time, nothing raises, the engine ends on the source's document (implementation only, no model "
                "verdict); "
                "(b) every entry point x {plain thread, running loop} alone, start;stop, start;check;stop, with a second "
                "caller, racing starts, with the polling thread free / held in source.load() / held in set_policy, sync "
                "and async sources, failing sources: returned within %.0fs or not, vs the lock model's verdict for the "
                "configuration, and the observed sequence of lock acquisitions/releases must be a run of the model "
                "(thorough: every configuration of the theorem's family x {free, mid-check, holding} x {sync, async "
                "source}); (c) lock skeleton of the source vs the model's. non-trivial = a rule applied (a), every "
                "(b)/(c) case (hostile cases: a rule applied and a collaborator actually edited something); distinct = distinct "
                "(case, collaborator set, mode, flavour, request) / configuration" % T_HANG)
    chk.assumptions = [
        "threading.RLock/Lock/Event/Thread, asyncio.run and ThreadPoolExecutor behave as modelled (Conc.v section 1)",
        "the lock programs of Conc.v are hand-transcribed from loader.py/engine.py (tied by the skeleton comparison and "
        "the watchdog runs only): PARTIAL",
        "an entry point that has not returned after %.0f s on this machine is taken to hang" % (2 * T_HANG),
        "the calling context 'several coroutines of one running loop' (kind coloop) is judged on the implementation "
        "only: Conc.v models threads and thread locks, it has no coroutine suspended on the loop thread while holding a "
        "lock; c14_start_stop_deadlock_free speaks about the thread-level programs",
        "the implementation is observed on sampled schedules (plus two forced ones); only the model covers all schedules",
    ]
    corp = corpus_cases()
    try:
        _m = lib.dec(lib.run_model("conc", [lib.model_call("conc.skeletons")])[0])
        _s = source_skeletons()
        chk._c14_full_family = any(_s.get(k) != v for k, v in _m.items())
    except Exception:  # noqa: BLE001
        chk._c14_full_family = True
    cases = (corp + [{"kind": "skeleton"}, {"kind": "witness"}] + watchdog_cases(chk) + flavour_cases(chk)
             + coloop_cases(chk) + hostile_cases(chk) + interleave_cases(chk) + gather_cases(chk))
    chk.extra["cases"] = {"corpus": len(corp), "watchdog": sum(1 for c in cases if c["kind"] == "watchdog"),
                          "flavours": sum(1 for c in cases if c["kind"] == "flavours"),
                          "hostile": sum(1 for c in cases if c["kind"] == "hostile"),
                          "interleave": sum(1 for c in cases if c["kind"] == "interleave"),
                          "coloop": sum(1 for c in cases if c["kind"] == "coloop"),
                          "gather": sum(1 for c in cases if c["kind"] == "gather")}
    check_cases(chk, cases)
    fam = lib.dec(lib.run_model("conc", [lib.model_call("conc.family")])[0])
    chk.extra["theorem_family_size"] = fam
    if fam != len(theorem_family()):
        chk.notes.append("harness mirror of Conc.current_configs has %d configurations, the model %s"
                         % (len(theorem_family()), fam))
    chk.exhaustive = chk.tier == "thorough" and fam == len(theorem_family())


if __name__ == "__main__" and "--child" in sys.argv:
    child_main()
