(* driver.ml — reads one case per line on stdin, hands the text to the extracted
   Coq function Model.run_line (string = char list under ExtrOcamlString),
   prints its answer on one line.  No logic lives here. *)
let explode (s : string) : char list =
  let rec go i acc = if i < 0 then acc else go (i - 1) (s.[i] :: acc) in
  go (String.length s - 1) []
let implode (l : char list) : string =
  let b = Buffer.create 64 in
  List.iter (Buffer.add_char b) l;
  Buffer.contents b
let () =
  try
    while true do
      let line = input_line stdin in
      print_string (implode (Model.run_line (explode line)));
      print_char '\n'
    done
  with End_of_file -> ()
