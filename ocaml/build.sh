#!/bin/sh
# builds one runner /verif/ocaml/modelrun_<name> per extracted gen/<name>.ml
# (each produced by coq/extraction/Extract<Name>.v and exposing run_line)
set -e
cd "$(dirname "$0")"
for ml in gen/*.ml; do
  name=$(basename "$ml" .ml)
  case "$name" in drv_*) continue;; esac
  out="modelrun_$name"
  if [ ! -x "$out" ] || [ "$ml" -nt "$out" ] || [ driver.ml -nt "$out" ]; then
    mod=$(echo "$name" | sed 's/^\(.\)/\U\1/')
    sed "s/Model\.run_line/$mod.run_line/" driver.ml > "gen/drv_$name.ml"
    (cd gen && ocamlfind ocamlopt -O3 -w -a -o "../$out" "$name.mli" "$name.ml" "drv_$name.ml" 2>/dev/null \
      || ocamlfind ocamlopt -w -a -o "../$out" "$name.mli" "$name.ml" "drv_$name.ml")
  fi
done
