#!/bin/sh
# builds /verif/ocaml/modelrun from the extracted model (coq/extraction/Extract.v)
set -e
cd "$(dirname "$0")"
cp driver.ml gen/driver.ml
cd gen
ocamlfind ocamlopt -O3 -w -a -o ../modelrun model.mli model.ml driver.ml 2>/dev/null \
  || ocamlfind ocamlopt -w -a -o ../modelrun model.mli model.ml driver.ml
